mod ana;
mod core;
mod gleam;
mod lsp;
mod props;

use crate::core::Tier;

fn usage() -> ! {
    eprintln!("usage: gmc check <Cxx> [quick|thorough] | gmc replay <file> | gmc worker ...");
    std::process::exit(2)
}

fn main() {
    // Panics of the subject are caught and classified; keep stderr quiet.
    crate::core::install_panic_hook();
    let args: Vec<String> = std::env::args().collect();
    if args.len() < 2 {
        usage();
    }
    let code = match args[1].as_str() {
        "check" => {
            let prop = args.get(2).map(|s| s.as_str()).unwrap_or_else(|| usage());
            let tier = match args.get(3).map(|s| s.as_str()).or(std::env::var("VERIF_TIER").ok().as_deref().map(|_| "")) {
                Some("thorough") => Tier::Thorough,
                Some("quick") => Tier::Quick,
                _ => match std::env::var("VERIF_TIER").as_deref() {
                    Ok("thorough") => Tier::Thorough,
                    _ => Tier::Quick,
                },
            };
            // a panic that escapes a check comes from subject code called outside a guard (the
            // lexer on a fixture, say): the check cannot give a verdict - machinery, not exit 101
            match std::panic::catch_unwind(|| check(prop, tier)) {
                Ok(c) => c,
                Err(e) => {
                    let msg = e.downcast_ref::<String>().cloned().or_else(|| e.downcast_ref::<&str>().map(|s| s.to_string())).unwrap_or_default();
                    eprintln!("MACHINERY: check {prop} panicked outside its guards: {msg}");
                    2
                }
            }
        }
        "replay" => replay(args.get(2).map(|s| s.as_str()).unwrap_or_else(|| usage())),
        "worker" => worker(&args[2..]),
        "goto2" => {
            // gmc goto2 <main text> <m text> <offset in main>
            let ws = crate::ana::ws::Workspace::single(&[("main", &args[2]), ("m", &args[3])]);
            let files = ws.files();
            let host = ws.host();
            let an = host.snapshot();
            let off: u32 = args[4].parse().unwrap();
            println!("goto {:?}", an.goto_definition(ide::FilePos::new(files[0].id, off.into())));
            println!("hover {:?}", an.hover(ide::FilePos::new(files[0].id, off.into())));
            0
        }
        "goto" => {
            let t = std::fs::read_to_string(&args[2]).unwrap();
            debug_goto(&t, args[3].parse().unwrap());
            0
        }
        "parse" => {
            let t = std::fs::read_to_string(&args[2]).unwrap();
            let p = syntax::parse_module(&t);
            for e in p.errors() {
                let s = usize::from(e.range.start());
                let line = t[..s].matches('\n').count() + 1;
                println!("{:?} at {:?} line {} near {:?}", e.kind, e.range, line, &t[s..(s + 20).min(t.len())]);
            }
            if args.get(3).map(|s| s.as_str()) == Some("tree") {
                println!("{:#?}", p.syntax_node());
            }
            0
        }
        _ => usage(),
    };
    std::process::exit(code);
}

fn check(prop: &str, tier: Tier) -> i32 {
    match prop {
        "C01" => props::parser::run(props::parser::Which::C01, tier),
        "C02" => props::parser::run(props::parser::Which::C02, tier),
        "C03" => props::recovery::run(tier),
        "C04" => props::grammar::run(tier),
        "C05" => props::scoping::run(props::scoping::Which::C05, tier),
        "C18" => props::scoping::run(props::scoping::Which::C18, tier),
        "C06" => props::ide_sweep::run(props::ide_sweep::Which::C06, tier),
        "C07" => props::rename::run_c07(tier),
        "C08" => props::rename::run_c08(tier),
        "C09" => props::typing::run(tier),
        "C10" => props::ide_sweep::run(props::ide_sweep::Which::C10, tier),
        "C20" => props::ide_sweep::run(props::ide_sweep::Which::C20, tier),
        "C15" => props::messages::run(tier),
        "C16" => props::race::run(tier),
        "C17" => props::layout::run(tier),
        "C19" => props::tokens::run(tier),
        "C11" => props::history::run(tier),
        "C12" => props::cancel::run(tier),
        "C13" => props::positions::run_c13(tier),
        "C14" => props::positions::run_c14(tier),
        _ => {
            eprintln!("unknown property {prop}");
            2
        }
    }
}

fn replay(path: &str) -> i32 {
    let Ok(s) = std::fs::read_to_string(path) else {
        eprintln!("cannot read {path}");
        return 2;
    };
    let Ok(v) = serde_json::from_str::<serde_json::Value>(&s) else {
        eprintln!("cannot parse {path}");
        return 2;
    };
    let prop = v["property"].as_str().unwrap_or("");
    let w = &v["witness"];
    let fails: Vec<String> = match prop {
        "C01" => props::parser::replay(props::parser::Which::C01, w),
        "C02" => props::parser::replay(props::parser::Which::C02, w),
        "C03" => props::recovery::replay(w),
        "C04" => props::grammar::replay(w),
        "C05" => props::scoping::replay(props::scoping::Which::C05, w),
        "C18" => props::scoping::replay(props::scoping::Which::C18, w),
        "C06" => props::ide_sweep::replay(props::ide_sweep::Which::C06, w),
        "C07" => props::rename::replay_c07(w),
        "C08" => props::rename::replay_c08(w),
        "C09" => props::typing::replay(w),
        "C10" => props::ide_sweep::replay(props::ide_sweep::Which::C10, w),
        "C20" => props::ide_sweep::replay(props::ide_sweep::Which::C20, w),
        "C15" => props::messages::replay(w),
        "C16" => props::race::replay(w),
        "C17" => props::layout::replay(w),
        "C19" => props::tokens::replay(w),
        "C11" => props::history::replay(w),
        "C12" => props::cancel::replay(w),
        "C13" => props::positions::replay_c13(w),
        "C14" => props::positions::replay_c14(w),
        _ => {
            eprintln!("unknown property {prop}");
            return 2;
        }
    };
    if fails.is_empty() {
        println!("replay: property {prop} holds on this case");
        0
    } else {
        for f in &fails {
            println!("replay: {f}");
        }
        println!("VIOLATION property={prop} replay={path}");
        1
    }
}

fn worker(args: &[String]) -> i32 {
    match args.first().map(|s| s.as_str()) {
        Some("nest") => {
            let p = |i: usize| args.get(i).and_then(|s| s.parse::<usize>().ok()).unwrap_or(0);
            props::parser::worker_nest(p(1), p(2), p(3) != 0, p(4) != 0)
        }
        Some("c11-seeds") => props::history::worker_seed_digest(args.get(1).and_then(|s| s.parse().ok())),
        Some("hashorder") => {
            let m: std::collections::HashMap<u32, u32> = (0..12).map(|i| (i, i)).collect();
            println!("{:?}", m.keys().collect::<Vec<_>>());
            0
        }
        Some("run") => {
            let tier = if args.get(2).map(|s| s.as_str()) == Some("thorough") { Tier::Thorough } else { Tier::Quick };
            match args.get(1).map(|s| s.as_str()) {
                Some("C06") => props::ide_sweep::run_inner(props::ide_sweep::Which::C06, tier),
                Some("C10") => props::ide_sweep::run_inner(props::ide_sweep::Which::C10, tier),
                Some("C20") => props::ide_sweep::run_inner(props::ide_sweep::Which::C20, tier),
                _ => 2,
            }
        }
        Some("one") => match args.get(1).map(|s| s.as_str()) {
            Some("C06") => props::ide_sweep::worker_one(props::ide_sweep::Which::C06, &args[2]),
            Some("C10") => props::ide_sweep::worker_one(props::ide_sweep::Which::C10, &args[2]),
            Some("C20") => props::ide_sweep::worker_one(props::ide_sweep::Which::C20, &args[2]),
            _ => 2,
        },
        _ => 2,
    }
}

#[allow(dead_code)]
fn debug_goto(text: &str, off: u32) {
    let (h, f) = ide::AnalysisHost::new_single_file(text);
    let an = h.snapshot();
    println!("goto {:?}", an.goto_definition(ide::FilePos::new(f, off.into())));
    println!("hover {:?}", an.hover(ide::FilePos::new(f, off.into())));
    println!("hl {:?}", an.syntax_highlight(f, None));
}
