//! Seam S5: the real `glas` binary over stdio with Content-Length framing.
use serde_json::Value;
use std::io::{BufRead, BufReader, Read, Write};
use std::process::{Child, ChildStdin, Command, ExitStatus, Stdio};
use std::sync::mpsc::{channel, Receiver, RecvTimeoutError};
use std::time::{Duration, Instant};

pub struct Proc {
    pub child: Child,
    stdin: Option<ChildStdin>,
    rx: Receiver<Option<Value>>,
}

pub fn server_bin() -> String {
    std::env::var("GMC_SERVER_BIN").unwrap_or_else(|_| crate::core::verif_root().join(".build/repo/debug/glas").to_string_lossy().to_string())
}

impl Proc {
    pub fn spawn(envs: &[(&str, &str)]) -> std::io::Result<Proc> {
        let mut cmd = Command::new(server_bin());
        cmd.arg("--stdio").stdin(Stdio::piped()).stdout(Stdio::piped()).stderr(Stdio::null());
        cmd.env_remove("GLEAM_LOG").env("PATH", "/nonexistent-so-that-gleam-is-not-found");
        for (k, v) in envs {
            cmd.env(k, v);
        }
        let mut child = cmd.spawn()?;
        let stdin = child.stdin.take();
        let stdout = child.stdout.take().unwrap();
        let (tx, rx) = channel();
        std::thread::spawn(move || {
            let mut r = BufReader::new(stdout);
            loop {
                let mut len = None;
                loop {
                    let mut line = String::new();
                    match r.read_line(&mut line) {
                        Ok(0) | Err(_) => {
                            let _ = tx.send(None);
                            return;
                        }
                        Ok(_) => {}
                    }
                    let l = line.trim_end();
                    if l.is_empty() {
                        break;
                    }
                    if let Some(v) = l.strip_prefix("Content-Length:") {
                        len = v.trim().parse::<usize>().ok();
                    }
                }
                let Some(n) = len else {
                    let _ = tx.send(None);
                    return;
                };
                let mut buf = vec![0u8; n];
                if r.read_exact(&mut buf).is_err() {
                    let _ = tx.send(None);
                    return;
                }
                match serde_json::from_slice::<Value>(&buf) {
                    Ok(v) => {
                        if tx.send(Some(v)).is_err() {
                            return;
                        }
                    }
                    Err(_) => {
                        let _ = tx.send(None);
                        return;
                    }
                }
            }
        });
        Ok(Proc { child, stdin, rx })
    }

    pub fn send(&mut self, v: &Value) -> bool {
        let body = v.to_string();
        let Some(stdin) = self.stdin.as_mut() else { return false };
        stdin.write_all(format!("Content-Length: {}\r\n\r\n{}", body.len(), body).as_bytes()).and_then(|_| stdin.flush()).is_ok()
    }

    /// Next message from the server; Ok(None) = stdout closed; Err = timeout.
    pub fn recv(&mut self, timeout: Duration) -> Result<Option<Value>, ()> {
        match self.rx.recv_timeout(timeout) {
            Ok(v) => Ok(v),
            Err(RecvTimeoutError::Timeout) => Err(()),
            Err(RecvTimeoutError::Disconnected) => Ok(None),
        }
    }

    pub fn close_stdin(&mut self) {
        self.stdin = None;
    }

    pub fn wait_exit(&mut self, timeout: Duration) -> Option<ExitStatus> {
        let start = Instant::now();
        loop {
            match self.child.try_wait() {
                Ok(Some(st)) => return Some(st),
                Ok(None) => {
                    if start.elapsed() > timeout {
                        return None;
                    }
                    std::thread::sleep(Duration::from_millis(2));
                }
                Err(_) => return None,
            }
        }
    }

    pub fn alive(&mut self) -> bool {
        matches!(self.child.try_wait(), Ok(None))
    }
}

impl Drop for Proc {
    fn drop(&mut self) {
        let _ = self.child.kill();
        let _ = self.child.wait();
    }
}
