pub mod client;
pub mod inproc;
pub mod proc;
pub mod sched;
