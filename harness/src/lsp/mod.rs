pub mod client;
pub mod inproc;
