//! Reference model of an LSP client document (LSP 3.17, UTF-16 positions). Shares no code
//! with glas. Lines end at "\n", "\r\n" or a lone "\r".

#[derive(Clone, Debug, PartialEq, Eq, Hash)]
pub struct RefDoc {
    pub text: String,
}

impl RefDoc {
    pub fn new(text: impl Into<String>) -> Self {
        RefDoc { text: text.into() }
    }

    /// (start, end) byte offsets of each line's content, terminator excluded.
    pub fn lines(&self) -> Vec<(usize, usize)> {
        let b = self.text.as_bytes();
        let mut out = vec![];
        let mut start = 0;
        let mut i = 0;
        while i < b.len() {
            if b[i] == b'\n' {
                out.push((start, i));
                i += 1;
                start = i;
            } else if b[i] == b'\r' {
                out.push((start, i));
                i += if i + 1 < b.len() && b[i + 1] == b'\n' { 2 } else { 1 };
                start = i;
            } else {
                i += 1;
            }
        }
        out.push((start, b.len()));
        out
    }

    /// All valid positions with their byte offsets: every character boundary of every line.
    pub fn valid_positions(&self) -> Vec<((u32, u32), usize)> {
        let mut out = vec![];
        for (li, (s, e)) in self.lines().into_iter().enumerate() {
            let mut col = 0u32;
            out.push(((li as u32, 0), s));
            for (i, c) in self.text[s..e].char_indices() {
                col += c.len_utf16() as u32;
                out.push(((li as u32, col), s + i + c.len_utf8()));
            }
        }
        out
    }

    /// Exact offset of a valid position; None when the position is not valid.
    pub fn offset_of(&self, line: u32, col: u32) -> Option<usize> {
        let (s, e) = *self.lines().get(line as usize)?;
        let mut c16 = 0u32;
        if col == 0 {
            return Some(s);
        }
        for (i, c) in self.text[s..e].char_indices() {
            c16 += c.len_utf16() as u32;
            if c16 == col {
                return Some(s + i + c.len_utf8());
            }
            if c16 > col {
                return None;
            }
        }
        None
    }

    /// Offsets a lenient client may mean by an arbitrary position: clamp the column to the
    /// line end; a column inside a surrogate pair may resolve to either neighbour.
    pub fn lenient_offsets(&self, line: u32, col: u32) -> Vec<usize> {
        let lines = self.lines();
        let Some(&(s, e)) = lines.get(line as usize) else {
            return vec![];
        };
        let mut c16 = 0u32;
        if col == 0 {
            return vec![s];
        }
        for (i, c) in self.text[s..e].char_indices() {
            let before = s + i;
            c16 += c.len_utf16() as u32;
            if c16 == col {
                return vec![s + i + c.len_utf8()];
            }
            if c16 > col {
                return vec![before, s + i + c.len_utf8()];
            }
        }
        vec![e]
    }

    pub fn pos_of(&self, offset: usize) -> (u32, u32) {
        let lines = self.lines();
        for (li, (s, e)) in lines.iter().enumerate().rev() {
            if offset >= *s {
                let end = offset.min(*e);
                let col: usize = self.text[*s..end].chars().map(|c| c.len_utf16()).sum();
                return (li as u32, col as u32);
            }
        }
        (0, 0)
    }

    pub fn replace(&mut self, start: usize, end: usize, ins: &str) {
        self.text.replace_range(start..end, ins);
    }

    pub fn without_cr(&self) -> String {
        self.text.chars().filter(|&c| c != '\r').collect()
    }
}

/// Decoded semantic token (absolute).
#[derive(Clone, Debug, PartialEq, Eq, PartialOrd, Ord)]
pub struct AbsToken {
    pub line: u32,
    pub start: u32,
    pub len: u32,
    pub ty: u32,
}

/// Decodes the LSP relative encoding; arithmetic is checked (None on overflow).
pub fn decode_tokens(data: &[(u32, u32, u32, u32)]) -> Option<Vec<AbsToken>> {
    let mut out = vec![];
    let (mut line, mut start) = (0u32, 0u32);
    for &(dl, ds, len, ty) in data {
        if dl > 0 {
            line = line.checked_add(dl)?;
            start = ds;
        } else {
            start = start.checked_add(ds)?;
        }
        out.push(AbsToken { line, start, len, ty });
    }
    Some(out)
}
