//! In-process seam S4: the real `Router<Server>` from `glas::server::Server::new_router`,
//! driven synchronously inside a current-thread tokio runtime.
use async_lsp::{AnyNotification, AnyRequest, ClientSocket, LspService};
use serde_json::{json, Value};
use std::ops::ControlFlow;
use tower::Service;

pub struct InProc {
    rt: tokio::runtime::Runtime,
    router: async_lsp::router::Router<glas::server::Server>,
    next_id: i64,
}

impl InProc {
    pub fn new() -> Self {
        let rt = tokio::runtime::Builder::new_current_thread().enable_all().build().unwrap();
        let router = {
            let _g = rt.enter();
            glas::server::Server::new_router(ClientSocket::new_closed(), vec![])
        };
        InProc { rt, router, next_id: 1 }
    }

    /// Delivers a notification; Err(msg) when the handler panicked.
    pub fn notify(&mut self, method: &str, params: Value) -> Result<bool, String> {
        let n: AnyNotification = serde_json::from_value(json!({"method": method, "params": params})).unwrap();
        let _g = self.rt.enter();
        let router = &mut self.router;
        crate::core::catch(move || match router.notify(n) {
            ControlFlow::Continue(()) => true,
            ControlFlow::Break(_) => false,
        })
    }

    /// Sends a request and waits for its answer. Ok(Ok(v)) result, Ok(Err(e)) error response,
    /// Err(msg) when the handler or the awaited future panicked.
    pub fn request(&mut self, method: &str, params: Value) -> Result<Result<Value, (i64, String)>, String> {
        let id = self.next_id;
        self.next_id += 1;
        let r: AnyRequest = serde_json::from_value(json!({"id": id, "method": method, "params": params})).unwrap();
        let rt = &self.rt;
        let router = &mut self.router;
        crate::core::catch(move || {
            let _g = rt.enter();
            let fut = router.call(r);
            match rt.block_on(fut) {
                Ok(v) => Ok(v),
                Err(e) => Err((e.code.0 as i64, e.message)),
            }
        })
    }

    pub fn open(&mut self, uri: &str, text: &str) -> Result<bool, String> {
        self.notify(
            "textDocument/didOpen",
            json!({"textDocument": {"uri": uri, "languageId": "gleam", "version": 1, "text": text}}),
        )
    }

    /// The text the server analyses for `uri`, read through the `glas/syntaxTree` request.
    pub fn server_text(&mut self, uri: &str) -> Result<Option<String>, String> {
        match self.request("glas/syntaxTree", json!({"textDocument": {"uri": uri}}))? {
            Ok(v) => Ok(v.as_str().map(tree_text)),
            Err(_) => Ok(None),
        }
    }
}

/// Concatenates the token texts of a `{:#?}`-printed rowan tree.
pub fn tree_text(dump: &str) -> String {
    let mut out = String::new();
    for line in dump.lines() {
        let t = line.trim_start();
        // token lines look like: KIND@s..e "text"
        let Some(q) = t.find(" \"") else { continue };
        if !t[..q].contains('@') {
            continue;
        }
        let lit = &t[q + 1..];
        if lit.len() >= 2 && lit.ends_with('"') {
            out.push_str(&unescape_debug(&lit[1..lit.len() - 1]));
        }
    }
    out
}

pub fn unescape_debug(s: &str) -> String {
    let mut out = String::new();
    let mut it = s.chars().peekable();
    while let Some(c) = it.next() {
        if c != '\\' {
            out.push(c);
            continue;
        }
        match it.next() {
            Some('n') => out.push('\n'),
            Some('r') => out.push('\r'),
            Some('t') => out.push('\t'),
            Some('0') => out.push('\0'),
            Some('\\') => out.push('\\'),
            Some('"') => out.push('"'),
            Some('\'') => out.push('\''),
            Some('u') => {
                let mut hex = String::new();
                if it.next() == Some('{') {
                    for h in it.by_ref() {
                        if h == '}' {
                            break;
                        }
                        hex.push(h);
                    }
                }
                if let Some(ch) = u32::from_str_radix(&hex, 16).ok().and_then(char::from_u32) {
                    out.push(ch);
                }
            }
            Some(o) => {
                out.push('\\');
                out.push(o);
            }
            None => out.push('\\'),
        }
    }
    out
}
