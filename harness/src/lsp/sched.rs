//! Cross-process schedule controller (E4) for the hooks-on `glas` binary: server threads stop
//! at named yield points (`ide::verif::point`) and report over a unix socket; the controller
//! decides which parked thread runs next. All socket I/O is done non-blocking by the
//! controller itself (no helper threads), so that "every server thread is asleep" implies
//! "everything they wrote is visible to the next poll" - the basis of deterministic settling.
use std::collections::BTreeMap;
use std::io::{ErrorKind, Read, Write};
use std::os::unix::net::{UnixListener, UnixStream};

struct Conn {
    stream: UnixStream,
    buf: Vec<u8>,
    open: bool,
}

pub struct Controller {
    pub path: std::path::PathBuf,
    listener: UnixListener,
    conns: Vec<Conn>,
    /// tid -> logical thread name ("M", "T3")
    pub names: BTreeMap<u64, String>,
    /// parked logical thread -> (connection index, point name)
    pub parked: BTreeMap<String, (usize, String)>,
    /// every scheduling-relevant arrival in realised order
    pub trace: Vec<(String, String)>,
    pub auto_release_all: bool,
    pub salsa_points: u64,
    /// task threads that have already been stopped once inside their query (first cancellation
    /// checkpoint after task:start): the one scheduling point "the task is in the middle of its analysis"
    in_query_seen: std::collections::BTreeSet<u64>,
}

impl Controller {
    pub fn new(path: std::path::PathBuf) -> std::io::Result<Controller> {
        let _ = std::fs::remove_file(&path);
        let listener = UnixListener::bind(&path)?;
        listener.set_nonblocking(true)?;
        Ok(Controller { path, listener, conns: vec![], names: BTreeMap::new(), parked: BTreeMap::new(), trace: vec![], auto_release_all: false, salsa_points: 0, in_query_seen: Default::default() })
    }

    fn go(&mut self, conn: usize) {
        if let Some(c) = self.conns.get_mut(conn) {
            let _ = c.stream.write_all(b"go\n");
        }
    }

    fn on_point(&mut self, conn: usize, tid: u64, name: String) {
        let mut name = name;
        if name.starts_with("salsa:") {
            self.salsa_points += 1;
            let is_task = self.names.get(&tid).map_or(false, |n| n.starts_with('T'));
            if name == "salsa:check" && is_task && !self.auto_release_all && self.in_query_seen.insert(tid) {
                // the first checkpoint of this task's query is a scheduling point of its own
                name = "task:in_query".to_string();
            } else {
                self.go(conn);
                return;
            }
        }
        if let Some(n) = name.strip_prefix("task:start:") {
            self.in_query_seen.remove(&tid);
            self.names.insert(tid, format!("T{n}"));
        } else if name.starts_with("did_change:") || name.starts_with("apply:") {
            self.names.insert(tid, "M".into());
        }
        let lname = self.names.get(&tid).cloned().unwrap_or_else(|| format!("?{tid}"));
        let pname = if name.starts_with("task:start:") {
            "task:start".to_string()
        } else if name.starts_with("task:end:") {
            "task:end".to_string()
        } else {
            name.clone()
        };
        self.trace.push((lname.clone(), pname.clone()));
        if name.starts_with("task:end:") {
            // the OS thread goes back to the pool; its next task gets a new name
            self.names.remove(&tid);
        }
        if self.auto_release_all {
            self.go(conn);
        } else {
            self.parked.insert(lname, (conn, pname));
        }
    }

    /// Accepts pending connections and reads every complete line that is available, without
    /// blocking; returns the number of events handled.
    pub fn poll(&mut self) -> usize {
        let mut n = 0;
        loop {
            match self.listener.accept() {
                Ok((s, _)) => {
                    let _ = s.set_nonblocking(true);
                    self.conns.push(Conn { stream: s, buf: vec![], open: true });
                    n += 1;
                }
                Err(e) if e.kind() == ErrorKind::WouldBlock => break,
                Err(_) => break,
            }
        }
        let mut lines: Vec<(usize, String)> = vec![];
        for (i, c) in self.conns.iter_mut().enumerate() {
            if !c.open {
                continue;
            }
            let mut tmp = [0u8; 512];
            loop {
                match c.stream.read(&mut tmp) {
                    Ok(0) => {
                        c.open = false;
                        break;
                    }
                    Ok(k) => c.buf.extend_from_slice(&tmp[..k]),
                    Err(e) if e.kind() == ErrorKind::WouldBlock => break,
                    Err(_) => {
                        c.open = false;
                        break;
                    }
                }
            }
            while let Some(pos) = c.buf.iter().position(|b| *b == b'\n') {
                let line: Vec<u8> = c.buf.drain(..=pos).collect();
                lines.push((i, String::from_utf8_lossy(&line).trim_end().to_string()));
            }
        }
        for (i, line) in lines {
            let mut it = line.splitn(3, ' ');
            if it.next() != Some("P") {
                continue;
            }
            let tid = it.next().and_then(|t| t.parse().ok()).unwrap_or(0);
            let name = it.next().unwrap_or("").to_string();
            self.on_point(i, tid, name);
            n += 1;
        }
        n
    }

    pub fn release(&mut self, thread: &str) -> bool {
        if let Some((conn, _)) = self.parked.remove(thread) {
            self.go(conn);
            true
        } else {
            false
        }
    }

    pub fn flush(&mut self) {
        self.auto_release_all = true;
        let ps: Vec<String> = self.parked.keys().cloned().collect();
        for p in ps {
            self.release(&p);
        }
    }
}

impl Drop for Controller {
    fn drop(&mut self) {
        let _ = std::fs::remove_file(&self.path);
    }
}
