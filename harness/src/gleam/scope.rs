//! Reference scope resolver for the supported core of Gleam, over the harness AST whose
//! identifier names carry occurrence markers (`name§id`). Written from Gleam's scoping rules,
//! independently of glas.
use super::ast::*;
use std::collections::{BTreeSet, HashMap};

#[derive(Clone, Debug, PartialEq, Eq)]
pub enum Target {
    /// binds to the declaration whose name token is occurrence `id` (in module index `.0`)
    Decl(usize, u32),
    /// a module qualifier: the module with this index
    Module(usize),
    Unresolved,
    /// a private item of another module named in an import list or through a qualifier: Gleam
    /// binds nothing; landing on that very declaration is not "a different declaration"
    Private(usize, u32),
    Builtin,
    /// outside the checked core
    Any,
}

#[derive(Clone, Debug)]
pub struct UseInfo {
    pub module: usize,
    pub id: u32,
    pub target: Target,
    /// value names visible at this occurrence (only recorded for expression uses)
    pub visible: Option<std::collections::BTreeMap<String, Target>>,
}

fn split(n: &str) -> (&str, Option<u32>) {
    match n.split_once('§') {
        Some((a, b)) => (a, b.parse().ok()),
        None => (n, None),
    }
}

#[derive(Default, Clone)]
struct ModScope {
    /// value namespace: functions, constants, constructors (own) -> (module idx, decl occ)
    values: HashMap<String, Target>,
    types: HashMap<String, Target>,
    /// import accessor -> module index (None = module not in the program)
    modules: HashMap<String, Option<usize>>,
}

#[derive(Default, Clone)]
struct Exports {
    values: HashMap<String, (Target, bool)>,
    types: HashMap<String, (Target, bool)>,
    /// constructor name -> label -> field decl
    fields: HashMap<String, HashMap<String, Target>>,
}

pub struct Resolver<'a> {
    mods: &'a [(String, Module)],
    exports: Vec<Exports>,
    pub uses: Vec<UseInfo>,
    /// every declaration occurrence: (module, id)
    pub decls: Vec<(usize, u32)>,
    guard_ids: BTreeSet<(usize, u32)>,
    /// set when the program binds one name twice in one pattern group (Gleam rejects it)
    pub invalid: bool,
    /// inside a constant's initialiser: `a.b` can only be a module access there
    in_const: bool,
}

const BUILTIN_CTORS: &[&str] = &["Ok", "Error", "Nil", "True", "False"];
const BUILTIN_TYPES: &[&str] = &["Int", "Float", "String", "Bool", "Nil", "List", "Result", "BitArray"];

impl<'a> Resolver<'a> {
    pub fn new(mods: &'a [(String, Module)]) -> Self {
        let mut r = Resolver { mods, exports: vec![], uses: vec![], decls: vec![], guard_ids: BTreeSet::new(), invalid: false, in_const: false };
        for (mi, (_, m)) in mods.iter().enumerate() {
            let mut e = Exports::default();
            for it in &m.items {
                match it {
                    Item::Fn { public, name, .. } | Item::Const { public, name, .. } => {
                        let (n, id) = split(name);
                        if let Some(id) = id {
                            r.decls.push((mi, id));
                            e.values.insert(n.to_string(), (Target::Decl(mi, id), *public));
                        } else {
                            e.values.insert(n.to_string(), (Target::Any, *public));
                        }
                    }
                    Item::TypeDef { public, name, variants, .. } => {
                        let (n, id) = split(name);
                        let t = id.map(|id| Target::Decl(mi, id)).unwrap_or(Target::Any);
                        if let Some(id) = id {
                            r.decls.push((mi, id));
                        }
                        e.types.insert(n.to_string(), (t, *public));
                        for v in variants {
                            let (vn, vid) = split(&v.name);
                            let vt = vid.map(|id| Target::Decl(mi, id)).unwrap_or(Target::Any);
                            if let Some(id) = vid {
                                r.decls.push((mi, id));
                            }
                            e.values.insert(vn.to_string(), (vt, *public));
                            let mut fm = HashMap::new();
                            for (l, _) in &v.fields {
                                if let Some(l) = l {
                                    let (ln, lid) = split(l);
                                    if let Some(id) = lid {
                                        r.decls.push((mi, id));
                                        fm.insert(ln.to_string(), Target::Decl(mi, id));
                                    }
                                }
                            }
                            e.fields.insert(vn.to_string(), fm);
                        }
                    }
                    Item::Alias { public, name, .. } => {
                        let (n, id) = split(name);
                        if let Some(id) = id {
                            r.decls.push((mi, id));
                            e.types.insert(n.to_string(), (Target::Decl(mi, id), *public));
                        }
                    }
                    Item::Import { .. } => {}
                }
            }
            r.exports.push(e);
        }
        r
    }

    fn module_index(&self, path: &[String]) -> Option<usize> {
        let name = path.iter().map(|s| split(s).0).collect::<Vec<_>>().join("/");
        self.mods.iter().position(|(n, _)| *n == name)
    }

    fn record(&mut self, module: usize, name: &str, target: Target, visible: Option<std::collections::BTreeMap<String, Target>>) {
        if let (_, Some(id)) = split(name) {
            self.uses.push(UseInfo { module, id, target, visible });
        }
    }

    pub fn run(&mut self) {
        for mi in 0..self.mods.len() {
            self.module(mi);
        }
        // a declaration's own name binds to itself
        let have: BTreeSet<(usize, u32)> = self.uses.iter().map(|u| (u.module, u.id)).collect();
        let decls: BTreeSet<(usize, u32)> = self.decls.iter().copied().collect();
        for (m, id) in decls {
            if !have.contains(&(m, id)) {
                self.uses.push(UseInfo { module: m, id, target: Target::Decl(m, id), visible: None });
            }
        }
    }

    fn module(&mut self, mi: usize) {
        let m = &self.mods[mi].1;
        let mut sc = ModScope::default();
        for (n, (t, _)) in &self.exports[mi].values {
            sc.values.insert(n.clone(), t.clone());
        }
        for (n, (t, _)) in &self.exports[mi].types {
            sc.types.insert(n.clone(), t.clone());
        }
        // imports
        for it in &m.items {
            if let Item::Import { path, alias, unqualified } = it {
                let target = self.module_index(path);
                let accessor = match alias {
                    Some(a) => split(a).0.to_string(),
                    None => split(path.last().unwrap()).0.to_string(),
                };
                sc.modules.insert(accessor, target);
                for u in unqualified {
                    let (n, _) = split(&u.name);
                    let local = u.alias.as_ref().map(|a| split(a).0.to_string()).unwrap_or_else(|| n.to_string());
                    let found = target.and_then(|t| {
                        let e = &self.exports[t];
                        let entry = if u.is_type { e.types.get(n) } else { e.values.get(n) };
                        entry.filter(|(_, public)| *public).map(|(t, _)| t.clone())
                    });
                    let private = target.and_then(|t| {
                        let e = &self.exports[t];
                        let entry = if u.is_type { e.types.get(n) } else { e.values.get(n) };
                        match entry {
                            Some((Target::Decl(m2, id), false)) => Some(Target::Private(*m2, *id)),
                            _ => None,
                        }
                    });
                    let tgt = found.clone().or(private).unwrap_or(Target::Unresolved);
                    // the name in the import list refers to the exported declaration
                    self.record(mi, &u.name, tgt.clone(), None);
                    if let Some(a) = &u.alias {
                        // the alias spelling refers to the same declaration; glas refuses to treat it
                        // as a declaration of its own, the property only asks "never elsewhere"
                        self.record(mi, a, Target::Any, None);
                    }
                    if let Some(t) = found {
                        if u.is_type {
                            sc.types.entry(local).or_insert(t);
                        } else {
                            sc.values.entry(local).or_insert(t);
                        }
                    }
                }
            }
        }
        for it in &m.items {
            match it {
                Item::Fn { params, ret, body, .. } => {
                    let mut env: Vec<(String, Target)> = vec![];
                    for p in params {
                        if let Some(t) = &p.ty {
                            self.ty(mi, &sc, t);
                        }
                        let (n, id) = split(&p.name);
                        if !n.starts_with('_') {
                            if let Some(id) = id {
                                self.decls.push((mi, id));
                                env.push((n.to_string(), Target::Decl(mi, id)));
                            }
                        }
                    }
                    if let Some(t) = ret {
                        self.ty(mi, &sc, t);
                    }
                    if let Some(b) = body {
                        self.stmts(mi, &sc, &mut env, b);
                    }
                }
                Item::Const { ann, value, .. } => {
                    if let Some(t) = ann {
                        self.ty(mi, &sc, t);
                    }
                    let mut env = vec![];
                    self.in_const = true;
                    self.expr(mi, &sc, &mut env, value);
                    self.in_const = false;
                }
                Item::TypeDef { variants, .. } => {
                    for v in variants {
                        for (_, t) in &v.fields {
                            self.ty(mi, &sc, t);
                        }
                    }
                }
                Item::Alias { ty, .. } => self.ty(mi, &sc, ty),
                Item::Import { .. } => {}
            }
        }
    }

    fn ty(&mut self, mi: usize, sc: &ModScope, t: &Type) {
        match t {
            Type::Named { module, name, args } => {
                let (n, _) = split(name);
                let tgt = match module {
                    Some(m) => {
                        let (mn, _) = split(m);
                        match sc.modules.get(mn) {
                            Some(Some(idx)) => {
                                self.record(mi, m, Target::Module(*idx), None);
                                match self.exports[*idx].types.get(n) {
                                    Some((t, true)) => t.clone(),
                                    _ => Target::Unresolved,
                                }
                            }
                            _ => {
                                self.record(mi, m, Target::Unresolved, None);
                                Target::Unresolved
                            }
                        }
                    }
                    None => match sc.types.get(n) {
                        Some(t) => t.clone(),
                        None if BUILTIN_TYPES.contains(&n) => Target::Builtin,
                        None => Target::Unresolved,
                    },
                };
                self.record(mi, name, tgt, None);
                for a in args {
                    self.ty(mi, sc, a);
                }
            }
            Type::Var(v) => self.record(mi, v, Target::Unresolved, None),
            Type::Fn(ps, r) => {
                for p in ps {
                    self.ty(mi, sc, p);
                }
                self.ty(mi, sc, r);
            }
            Type::Tuple(v) => {
                for x in v {
                    self.ty(mi, sc, x);
                }
            }
            Type::Hole => {}
        }
    }

    fn check_dups(&mut self, b: &[(String, Target)]) {
        let mut seen = BTreeSet::new();
        for (n, _) in b {
            if !seen.insert(n.clone()) {
                self.invalid = true;
            }
        }
    }

    fn lookup_value(&self, sc: &ModScope, env: &[(String, Target)], n: &str) -> Target {
        if let Some((_, t)) = env.iter().rev().find(|(k, _)| k == n) {
            return t.clone();
        }
        if let Some(t) = sc.values.get(n) {
            return t.clone();
        }
        if BUILTIN_CTORS.contains(&n) {
            return Target::Builtin;
        }
        Target::Unresolved
    }

    fn visible(&self, sc: &ModScope, env: &[(String, Target)]) -> std::collections::BTreeMap<String, Target> {
        let mut s = std::collections::BTreeMap::new();
        for (k, idx) in &sc.modules {
            s.insert(k.clone(), idx.map(Target::Module).unwrap_or(Target::Unresolved));
        }
        for (k, t) in &sc.values {
            s.insert(k.clone(), t.clone());
        }
        // innermost binding wins
        for (k, t) in env.iter() {
            s.insert(k.clone(), t.clone());
        }
        s
    }

    fn stmts(&mut self, mi: usize, sc: &ModScope, env: &mut Vec<(String, Target)>, stmts: &[Stmt]) {
        let mark = env.len();
        for s in stmts {
            match s {
                Stmt::Let { pat, ann, value, .. } => {
                    // the binder is not visible in its own initialiser
                    self.expr(mi, sc, env, value);
                    if let Some(t) = ann {
                        self.ty(mi, sc, t);
                    }
                    let mut b = vec![];
                    self.pat(mi, sc, pat, &mut b, true);
                    self.check_dups(&b);
                    env.extend(b);
                }
                Stmt::Use { assigns, call } => {
                    self.expr(mi, sc, env, call);
                    let mut b = vec![];
                    for (p, t) in assigns {
                        if let Some(t) = t {
                            self.ty(mi, sc, t);
                        }
                        self.pat(mi, sc, p, &mut b, true);
                    }
                    self.check_dups(&b);
                    env.extend(b);
                }
                Stmt::Expr(e) => self.expr(mi, sc, env, e),
            }
        }
        env.truncate(mark);
    }

    /// Collects the binders of a pattern; `declare` = these binder tokens are declarations
    /// (false for later alternatives, whose binders are exempt).
    fn pat(&mut self, mi: usize, sc: &ModScope, p: &Pattern, out: &mut Vec<(String, Target)>, declare: bool) {
        match p {
            Pattern::Var(n) => {
                let (name, id) = split(n);
                if let Some(id) = id {
                    if declare {
                        self.decls.push((mi, id));
                        out.push((name.to_string(), Target::Decl(mi, id)));
                        self.record(mi, n, Target::Decl(mi, id), None);
                    } else {
                        self.record(mi, n, Target::Any, None);
                    }
                }
            }
            Pattern::Discard(_) | Pattern::Int(_) | Pattern::Float(_) | Pattern::Str(_) => {}
            Pattern::Ctor { module, name, args, .. } => {
                let (n, _) = split(name);
                let (tgt, fields) = match module {
                    Some(m) => {
                        let (mn, _) = split(m);
                        match sc.modules.get(mn) {
                            Some(Some(idx)) => {
                                self.record(mi, m, Target::Module(*idx), None);
                                let e = &self.exports[*idx];
                                match e.values.get(n) {
                                    Some((t, true)) => (t.clone(), e.fields.get(n).cloned()),
                                    _ => (Target::Unresolved, None),
                                }
                            }
                            _ => {
                                self.record(mi, m, Target::Unresolved, None);
                                (Target::Unresolved, None)
                            }
                        }
                    }
                    None => {
                        let t = match sc.values.get(n) {
                            Some(t) => t.clone(),
                            None if BUILTIN_CTORS.contains(&n) => Target::Builtin,
                            None => Target::Unresolved,
                        };
                        let f = match &t {
                            Target::Decl(m2, _) => self.exports[*m2].fields.get(n).cloned(),
                            _ => None,
                        };
                        (t, f)
                    }
                };
                self.record(mi, name, tgt, None);
                for (l, a) in args {
                    if let Some(l) = l {
                        let (ln, _) = split(l);
                        let lt = fields.as_ref().and_then(|f| f.get(ln).cloned()).unwrap_or(Target::Unresolved);
                        self.record(mi, l, lt, None);
                    }
                    self.pat(mi, sc, a, out, declare);
                }
            }
            Pattern::Tuple(v) => {
                for x in v {
                    self.pat(mi, sc, x, out, declare);
                }
            }
            Pattern::List(v, tail) => {
                for x in v {
                    self.pat(mi, sc, x, out, declare);
                }
                if let Some(Some(t)) = tail {
                    self.pat(mi, sc, &Pattern::Var(t.clone()), out, declare);
                }
            }
            Pattern::As(p, n) => {
                self.pat(mi, sc, p, out, declare);
                self.pat(mi, sc, &Pattern::Var(n.clone()), out, declare);
            }
            Pattern::Concat(_, p) => self.pat(mi, sc, p, out, declare),
        }
    }

    fn expr(&mut self, mi: usize, sc: &ModScope, env: &mut Vec<(String, Target)>, e: &Expr) {
        match e {
            Expr::Int(_) | Expr::Float(_) | Expr::Str(_) | Expr::Hole => {}
            Expr::Var(n) | Expr::Ctor(n) => {
                let (name, _) = split(n);
                let t = self.lookup_value(sc, env, name);
                let vis = self.visible(sc, env);
                self.record(mi, n, t, Some(vis));
            }
            Expr::Tuple(v) => v.iter().for_each(|x| self.expr(mi, sc, env, x)),
            Expr::List(v, t) => {
                v.iter().for_each(|x| self.expr(mi, sc, env, x));
                if let Some(t) = t {
                    self.expr(mi, sc, env, t);
                }
            }
            Expr::Block(s) => self.stmts(mi, sc, env, s),
            Expr::Call(f, args) => {
                self.expr(mi, sc, env, f);
                // labels of a constructor call bind to the constructor's fields
                let fields = match &**f {
                    Expr::Ctor(n) => match self.lookup_value(sc, env, split(n).0) {
                        Target::Decl(m2, _) => self.exports[m2].fields.get(split(n).0).cloned(),
                        _ => None,
                    },
                    _ => None,
                };
                for a in args {
                    if let Some(l) = &a.label {
                        let lt = match (&fields, &**f) {
                            (Some(fm), _) => fm.get(split(l).0).cloned().unwrap_or(Target::Unresolved),
                            // a label in a function call is outside the core
                            _ => Target::Any,
                        };
                        self.record(mi, l, lt, None);
                    }
                    match &a.value {
                        ArgValue::Expr(x) | ArgValue::Spread(x) => self.expr(mi, sc, env, x),
                    }
                }
            }
            Expr::Field(b, n) => {
                // module access: `m.x` where m is an import accessor not shadowed by a local
                if let Expr::Var(m) = &**b {
                    let (mn, _) = split(m);
                    let shadowed = !self.in_const && (env.iter().any(|(k, _)| k == mn) || sc.values.contains_key(mn));
                    if !shadowed {
                        if let Some(idx) = sc.modules.get(mn) {
                            match idx {
                                Some(idx) => {
                                    self.record(mi, m, Target::Module(*idx), None);
                                    let t = match self.exports[*idx].values.get(split(n).0) {
                                        Some((t, true)) => t.clone(),
                                        Some((Target::Decl(m2, id), false)) => Target::Private(*m2, *id),
                                        _ => Target::Unresolved,
                                    };
                                    self.record(mi, n, t, None);
                                }
                                None => {
                                    self.record(mi, m, Target::Unresolved, None);
                                    self.record(mi, n, Target::Unresolved, None);
                                }
                            }
                            return;
                        }
                    }
                }
                self.expr(mi, sc, env, b);
                // record field access needs types: outside the core
                self.record(mi, n, Target::Any, None);
            }
            Expr::TupleIndex(b, _) | Expr::Neg(b) | Expr::Not(b) => self.expr(mi, sc, env, b),
            Expr::Bin(_, l, r) | Expr::Pipe(l, r) => {
                self.expr(mi, sc, env, l);
                self.expr(mi, sc, env, r);
            }
            Expr::Case(subj, clauses) => {
                subj.iter().for_each(|x| self.expr(mi, sc, env, x));
                for c in clauses {
                    let mark = env.len();
                    let mut b = vec![];
                    for (ai, alt) in c.alts.iter().enumerate() {
                        for p in alt {
                            let mut scratch = vec![];
                            self.pat(mi, sc, p, if ai == 0 { &mut b } else { &mut scratch }, ai == 0);
                        }
                    }
                    self.check_dups(&b);
                    env.extend(b);
                    if let Some(g) = &c.guard {
                        // guards are on the surface but not in the core: safety half only
                        self.guard_expr(mi, sc, env, g);
                    }
                    self.expr(mi, sc, env, &c.body);
                    env.truncate(mark);
                }
            }
            Expr::Lambda(ps, ret, body) => {
                let mark = env.len();
                for p in ps {
                    if let Some(t) = &p.ty {
                        self.ty(mi, sc, t);
                    }
                    let (n, id) = split(&p.name);
                    if !n.starts_with('_') {
                        if let Some(id) = id {
                            self.decls.push((mi, id));
                            env.push((n.to_string(), Target::Decl(mi, id)));
                            self.record(mi, &p.name, Target::Decl(mi, id), None);
                        }
                    }
                }
                if let Some(t) = ret {
                    self.ty(mi, sc, t);
                }
                self.stmts(mi, sc, env, body);
                env.truncate(mark);
            }
            Expr::Todo(m) | Expr::Panic(m) => {
                if let Some(m) = m {
                    self.expr(mi, sc, env, m);
                }
            }
        }
    }

    /// Identifiers in guards: "never lands on a different declaration" only.
    fn guard_expr(&mut self, mi: usize, sc: &ModScope, env: &mut Vec<(String, Target)>, e: &Expr) {
        let before = self.uses.len();
        self.expr(mi, sc, env, e);
        for u in self.uses[before..].iter_mut() {
            u.visible = None;
            // keep the binding as what it MAY land on; mark by wrapping: handled by the checker via `guard_ids`
        }
        let ids: Vec<(usize, u32)> = self.uses[before..].iter().map(|u| (u.module, u.id)).collect();
        self.guard_ids.extend(ids);
    }
}

impl<'a> Resolver<'a> {
    pub fn guard_uses(&self) -> &BTreeSet<(usize, u32)> {
        &self.guard_ids
    }
}
