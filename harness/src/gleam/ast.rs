//! Reference AST of the supported Gleam surface and its canonical S-expression.

#[derive(Clone, Debug, PartialEq, Eq, Hash)]
pub enum Expr {
    Int(String),
    Float(String),
    Str(String),
    Var(String),
    Ctor(String),
    Hole,
    Tuple(Vec<Expr>),
    List(Vec<Expr>, Option<Box<Expr>>),
    Block(Vec<Stmt>),
    Call(Box<Expr>, Vec<Arg>),
    Field(Box<Expr>, String),
    TupleIndex(Box<Expr>, u32),
    Bin(&'static str, Box<Expr>, Box<Expr>),
    Pipe(Box<Expr>, Box<Expr>),
    Neg(Box<Expr>),
    Not(Box<Expr>),
    Case(Vec<Expr>, Vec<Clause>),
    Lambda(Vec<Param>, Option<Type>, Vec<Stmt>),
    Todo(Option<Box<Expr>>),
    Panic(Option<Box<Expr>>),
}

#[derive(Clone, Debug, PartialEq, Eq, Hash)]
pub struct Arg {
    pub label: Option<String>,
    pub value: ArgValue,
}

#[derive(Clone, Debug, PartialEq, Eq, Hash)]
pub enum ArgValue {
    Expr(Expr),
    /// `..e` (record update)
    Spread(Expr),
}

#[derive(Clone, Debug, PartialEq, Eq, Hash)]
pub enum Stmt {
    Let { assert: bool, pat: Pattern, ann: Option<Type>, value: Expr },
    Use { assigns: Vec<(Pattern, Option<Type>)>, call: Expr },
    Expr(Expr),
}

#[derive(Clone, Debug, PartialEq, Eq, Hash)]
pub struct Clause {
    /// alternatives, each a list with one pattern per subject
    pub alts: Vec<Vec<Pattern>>,
    pub guard: Option<Expr>,
    pub body: Expr,
}

#[derive(Clone, Debug, PartialEq, Eq, Hash)]
pub enum Pattern {
    Var(String),
    Discard(String),
    Int(String),
    Float(String),
    Str(String),
    Ctor { module: Option<String>, name: String, args: Vec<(Option<String>, Pattern)>, spread: bool },
    Tuple(Vec<Pattern>),
    /// elements and an optional tail: Some(None) = `..`, Some(Some(x)) = `..x`
    List(Vec<Pattern>, Option<Option<String>>),
    As(Box<Pattern>, String),
    /// "prefix" <> rest
    Concat(String, Box<Pattern>),
}

#[derive(Clone, Debug, PartialEq, Eq, Hash)]
pub enum Type {
    Named { module: Option<String>, name: String, args: Vec<Type> },
    Var(String),
    Fn(Vec<Type>, Box<Type>),
    Tuple(Vec<Type>),
    Hole,
}

#[derive(Clone, Debug, PartialEq, Eq, Hash)]
pub struct Param {
    pub label: Option<String>,
    /// a name or a discard (`_`, `_x`)
    pub name: String,
    pub ty: Option<Type>,
}

#[derive(Clone, Debug, PartialEq, Eq, Hash)]
pub struct Unq {
    pub is_type: bool,
    pub name: String,
    pub alias: Option<String>,
}

#[derive(Clone, Debug, PartialEq, Eq, Hash)]
pub struct Variant {
    pub name: String,
    pub fields: Vec<(Option<String>, Type)>,
}

#[derive(Clone, Debug, PartialEq, Eq, Hash)]
pub enum Item {
    Import { path: Vec<String>, alias: Option<String>, unqualified: Vec<Unq> },
    Const { public: bool, name: String, ann: Option<Type>, value: Expr },
    TypeDef { public: bool, opaque: bool, name: String, params: Vec<String>, variants: Vec<Variant> },
    Alias { public: bool, name: String, params: Vec<String>, ty: Type },
    Fn { public: bool, external: bool, target: Option<String>, name: String, params: Vec<Param>, ret: Option<Type>, body: Option<Vec<Stmt>> },
}

#[derive(Clone, Debug, PartialEq, Eq, Hash)]
pub struct Module {
    pub items: Vec<Item>,
}

// ------------------------------------------------------------------ canonical S-expressions

fn join(v: impl IntoIterator<Item = String>) -> String {
    v.into_iter().collect::<Vec<_>>().join(" ")
}

pub fn sx_expr(e: &Expr) -> String {
    match e {
        Expr::Int(s) => format!("(int {s})"),
        Expr::Float(s) => format!("(float {s})"),
        Expr::Str(s) => format!("(str {s})"),
        Expr::Var(s) => format!("(var {s})"),
        Expr::Ctor(s) => format!("(ctor {s})"),
        Expr::Hole => "(hole)".into(),
        Expr::Tuple(v) => format!("(tuple {})", join(v.iter().map(sx_expr))),
        Expr::List(v, t) => {
            let mut parts: Vec<String> = v.iter().map(sx_expr).collect();
            if let Some(t) = t {
                parts.push(format!("(spread {})", sx_expr(t)));
            }
            format!("(list {})", parts.join(" "))
        }
        Expr::Block(s) => format!("(block {})", join(s.iter().map(sx_stmt))),
        Expr::Call(f, a) => format!("(call {} {})", sx_expr(f), join(a.iter().map(sx_arg))),
        Expr::Field(b, n) => format!("(field {} {n})", sx_expr(b)),
        Expr::TupleIndex(b, n) => format!("(tidx {} {n})", sx_expr(b)),
        Expr::Bin(op, l, r) => format!("(bin {op} {} {})", sx_expr(l), sx_expr(r)),
        Expr::Pipe(l, r) => format!("(pipe {} {})", sx_expr(l), sx_expr(r)),
        Expr::Neg(e) => format!("(neg {})", sx_expr(e)),
        Expr::Not(e) => format!("(not {})", sx_expr(e)),
        Expr::Case(s, c) => format!("(case (subj {}) {})", join(s.iter().map(sx_expr)), join(c.iter().map(sx_clause))),
        Expr::Lambda(p, r, b) => format!("(fn (params {}) (ret {}) (block {}))", join(p.iter().map(sx_param)), r.as_ref().map(sx_type).unwrap_or_default(), join(b.iter().map(sx_stmt))),
        Expr::Todo(m) => format!("(todo {})", m.as_ref().map(|m| sx_expr(m)).unwrap_or_default()),
        Expr::Panic(m) => format!("(panic {})", m.as_ref().map(|m| sx_expr(m)).unwrap_or_default()),
    }
}

pub fn sx_arg(a: &Arg) -> String {
    let v = match &a.value {
        ArgValue::Expr(e) => sx_expr(e),
        ArgValue::Spread(e) => format!("(spread {})", sx_expr(e)),
    };
    format!("(arg {} {v})", a.label.clone().unwrap_or_else(|| "-".into()))
}

pub fn sx_stmt(s: &Stmt) -> String {
    match s {
        Stmt::Let { assert, pat, ann, value } => format!("(let {} {} (ann {}) {})", if *assert { "assert" } else { "-" }, sx_pat(pat), ann.as_ref().map(sx_type).unwrap_or_default(), sx_expr(value)),
        Stmt::Use { assigns, call } => format!("(use ({}) {})", join(assigns.iter().map(|(p, t)| format!("(assign {} (ann {}))", sx_pat(p), t.as_ref().map(sx_type).unwrap_or_default()))), sx_expr(call)),
        Stmt::Expr(e) => format!("(expr {})", sx_expr(e)),
    }
}

pub fn sx_clause(c: &Clause) -> String {
    format!("(clause (alts {}) (guard {}) {})", join(c.alts.iter().map(|a| format!("(alt {})", join(a.iter().map(sx_pat))))), c.guard.as_ref().map(sx_expr).unwrap_or_default(), sx_expr(&c.body))
}

pub fn sx_pat(p: &Pattern) -> String {
    match p {
        Pattern::Var(s) => format!("(pvar {s})"),
        Pattern::Discard(s) => format!("(pdiscard {s})"),
        Pattern::Int(s) => format!("(int {s})"),
        Pattern::Float(s) => format!("(float {s})"),
        Pattern::Str(s) => format!("(str {s})"),
        Pattern::Ctor { module, name, args, spread } => {
            let mut parts: Vec<String> = args.iter().map(|(l, p)| format!("(parg {} {})", l.clone().unwrap_or_else(|| "-".into()), sx_pat(p))).collect();
            if *spread {
                parts.push("(pspread -)".into());
            }
            format!("(pctor {} {name} {})", module.clone().unwrap_or_else(|| "-".into()), parts.join(" "))
        }
        Pattern::Tuple(v) => format!("(ptuple {})", join(v.iter().map(sx_pat))),
        Pattern::List(v, t) => {
            let mut parts: Vec<String> = v.iter().map(sx_pat).collect();
            match t {
                None => {}
                Some(None) => parts.push("(pspread -)".into()),
                Some(Some(n)) => parts.push(format!("(pspread {n})")),
            }
            format!("(plist {})", parts.join(" "))
        }
        Pattern::As(p, n) => format!("(pas {} {n})", sx_pat(p)),
        Pattern::Concat(s, p) => format!("(pconcat {s} {})", sx_pat(p)),
    }
}

pub fn sx_type(t: &Type) -> String {
    match t {
        Type::Named { module, name, args } => {
            if args.is_empty() {
                format!("(ty {} {name})", module.clone().unwrap_or_else(|| "-".into()))
            } else {
                format!("(tyapp (ty {} {name}) {})", module.clone().unwrap_or_else(|| "-".into()), join(args.iter().map(sx_type)))
            }
        }
        Type::Var(v) => format!("(ty - {v})"),
        Type::Fn(p, r) => format!("(tyfn ({}) {})", join(p.iter().map(sx_type)), sx_type(r)),
        Type::Tuple(v) => format!("(tytuple {})", join(v.iter().map(sx_type))),
        Type::Hole => "(tyhole)".into(),
    }
}

pub fn sx_param(p: &Param) -> String {
    format!("(param {} {} (ann {}))", p.label.clone().unwrap_or_else(|| "-".into()), p.name, p.ty.as_ref().map(sx_type).unwrap_or_default())
}

pub fn sx_item(i: &Item) -> String {
    match i {
        Item::Import { path, alias, unqualified } => format!("(import {} (as {}) {})", path.join("/"), alias.clone().unwrap_or_else(|| "-".into()), join(unqualified.iter().map(|u| format!("(unq {} {} (as {}))", if u.is_type { "type" } else { "-" }, u.name, u.alias.clone().unwrap_or_else(|| "-".into()))))),
        Item::Const { public, name, ann, value } => format!("(const {} {name} (ann {}) {})", if *public { "pub" } else { "-" }, ann.as_ref().map(sx_type).unwrap_or_default(), sx_expr(value)),
        Item::TypeDef { public, opaque, name, params, variants } => format!("(type {} {} {name} (params {}) {})", if *public { "pub" } else { "-" }, if *opaque { "opaque" } else { "-" }, params.join(" "), join(variants.iter().map(|v| format!("(variant {} {})", v.name, join(v.fields.iter().map(|(l, t)| format!("(vfield {} {})", l.clone().unwrap_or_else(|| "-".into()), sx_type(t)))))))),
        Item::Alias { public, name, params, ty } => format!("(alias {} {name} (params {}) {})", if *public { "pub" } else { "-" }, params.join(" "), sx_type(ty)),
        Item::Fn { public, external, target, name, params, ret, body } => format!("(fn {} {} {} {name} (params {}) (ret {}) {})", if *public { "pub" } else { "-" }, if *external { "external" } else { "-" }, target.clone().unwrap_or_else(|| "-".into()), join(params.iter().map(sx_param)), ret.as_ref().map(sx_type).unwrap_or_default(), body.as_ref().map(|b| format!("(block {})", join(b.iter().map(sx_stmt)))).unwrap_or_else(|| "(nobody)".into())),
    }
}

pub fn sx_module(m: &Module) -> String {
    format!("(module {})", join(m.items.iter().map(sx_item)))
}
