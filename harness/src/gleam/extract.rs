//! glas syntax tree -> canonical S-expression, through the typed accessors of `syntax::ast`
//! (raw node kinds only where no accessor exists: todo/panic, attributes, opaque, guards,
//! constant values). The output uses the same conventions as `gleam::ast::sx_*`.
use syntax::ast::{self, AstNode};
use syntax::{SyntaxKind, SyntaxNode};

fn join(v: impl IntoIterator<Item = String>) -> String {
    v.into_iter().collect::<Vec<_>>().join(" ")
}

fn txt(s: Option<impl ToString>) -> String {
    s.map(|s| s.to_string()).unwrap_or_else(|| "<noname>".into())
}

fn opt_name(s: Option<impl ToString>) -> String {
    s.map(|s| s.to_string()).unwrap_or_else(|| "-".into())
}

/// An expression slot filled through an accessor; falls back to a raw MISSING child
/// (todo/panic have no typed wrapper).
fn slot(e: Option<ast::Expr>, parent: &SyntaxNode) -> String {
    match e {
        Some(e) => x_expr(&e),
        None => match parent.children().find(|c| c.kind() == SyntaxKind::MISSING) {
            Some(m) => x_missing(&m),
            None => "<absent>".into(),
        },
    }
}

fn x_missing(m: &SyntaxNode) -> String {
    let kw = m.first_token().map(|t| t.text().to_string()).unwrap_or_default();
    let msg = expr_children(m).into_iter().next().unwrap_or_default();
    format!("({kw} {msg})")
}

/// All expression-like children of a node in order, including todo/panic.
fn expr_children(n: &SyntaxNode) -> Vec<String> {
    n.children()
        .filter_map(|c| if c.kind() == SyntaxKind::MISSING { Some(x_missing(&c)) } else { ast::Expr::cast(c).map(|e| x_expr(&e)) })
        .collect()
}

pub fn x_expr(e: &ast::Expr) -> String {
    match e {
        ast::Expr::Literal(l) => x_lit(l),
        ast::Expr::Variable(v) => format!("(var {})", txt(v.name().and_then(|n| n.text()))),
        ast::Expr::VariantConstructor(c) => format!("(ctor {})", txt(c.name().and_then(|n| n.text()))),
        ast::Expr::Hole(_) => "(hole)".into(),
        // element lists are read with todo/panic included (they have no typed wrapper, so the
        // typed iterators fields()/elements()/subjects() skip them)
        ast::Expr::Tuple(t) => format!("(tuple {})", join(expr_children(t.syntax()))),
        ast::Expr::List(l) => format!("(list {})", join(expr_children(l.syntax()))),
        ast::Expr::Block(b) => x_block(b),
        ast::Expr::ExprCall(c) => {
            let f = slot(c.func(), c.syntax());
            let args = c.arguments().map(|a| join(a.args().map(|a| format!("(arg {} {})", opt_name(a.label().and_then(|l| l.text())), slot(a.value(), a.syntax()))))).unwrap_or_else(|| "<noargs>".into());
            format!("(call {f} {args})")
        }
        ast::Expr::FieldAccessExpr(f) => format!("(field {} {})", slot(f.base(), f.syntax()), txt(f.label().and_then(|l| l.text()))),
        ast::Expr::TupleIndex(t) => format!("(tidx {} {})", slot(t.base(), t.syntax()), txt(t.index().and_then(|l| l.text()))),
        // the operator is read as the raw operator token (op_token() does not know every operator;
        // what each operator means is C09's business)
        ast::Expr::BinaryOp(b) => format!("(bin {} {} {})", txt(b.syntax().children_with_tokens().filter_map(|t| t.into_token()).find(|t| !t.kind().is_trivia()).map(|t| t.text().to_string())), slot(b.lhs(), b.syntax()), b.rhs().map(|r| x_expr(&r)).unwrap_or_else(|| "<absent>".into())),
        ast::Expr::Pipe(p) => format!("(pipe {} {})", slot(p.lhs(), p.syntax()), p.rhs().map(|r| x_expr(&r)).unwrap_or_else(|| "<absent>".into())),
        ast::Expr::UnaryOp(u) => {
            let op = match u.op_kind() {
                Some(ast::UnaryOpKind::Negate) => "neg",
                Some(ast::UnaryOpKind::Not) => "not",
                None => "<noop>",
            };
            format!("({op} {})", slot(u.arg(), u.syntax()))
        }
        ast::Expr::Case(c) => {
            let subj = join(expr_children(c.syntax()));
            let clauses = join(c.clauses().map(|cl| x_clause(&cl)));
            format!("(case (subj {subj}) {clauses})")
        }
        ast::Expr::Lambda(l) => format!(
            "(fn (params {}) (ret {}) {})",
            l.param_list().map(|p| join(p.params().map(|p| x_param(&p)))).unwrap_or_default(),
            l.return_type().map(|t| x_type(&t)).unwrap_or_default(),
            l.body().map(|b| x_block(&b)).unwrap_or_else(|| "<nobody>".into())
        ),
        ast::Expr::BitArray(_) => "(bitarray)".into(),
        ast::Expr::ExprSpread(s) => format!("(spread {})", slot(s.expr(), s.syntax())),
    }
}

fn x_lit(l: &ast::Literal) -> String {
    let t = txt(l.text());
    match l.kind() {
        Some(ast::LiteralKind::Int) => format!("(int {t})"),
        Some(ast::LiteralKind::Float) => format!("(float {t})"),
        Some(ast::LiteralKind::String) => format!("(str {t})"),
        None => format!("(lit? {t})"),
    }
}

fn x_block(b: &ast::Block) -> String {
    format!("(block {})", join(b.expressions().map(|s| x_stmt(&s))))
}

fn x_stmt(s: &ast::StatementExpr) -> String {
    match s {
        ast::StatementExpr::StmtLet(l) => {
            let assert = l.syntax().children_with_tokens().any(|t| t.kind() == SyntaxKind::ASSERT_KW);
            format!("(let {} {} (ann {}) {})", if assert { "assert" } else { "-" }, l.pattern().map(|p| x_pat(&p)).unwrap_or_else(|| "<nopattern>".into()), l.annotation().map(|t| x_type(&t)).unwrap_or_default(), slot(l.body(), l.syntax()))
        }
        ast::StatementExpr::StmtUse(u) => format!("(use ({}) {})", join(u.assignments().map(|a| format!("(assign {} (ann {}))", a.pattern().map(|p| x_pat(&p)).unwrap_or_else(|| "<nopattern>".into()), a.annotation().map(|t| x_type(&t)).unwrap_or_default()))), slot(u.expr(), u.syntax())),
        ast::StatementExpr::StmtExpr(e) => format!("(expr {})", slot(e.expr(), e.syntax())),
    }
}

fn x_clause(c: &ast::Clause) -> String {
    // glas groups `|` inside each comma position; Gleam's grammar is alternatives of
    // comma-separated lists. Convert when unambiguous, otherwise show the positional form.
    let positions: Vec<Vec<String>> = c.patterns().map(|a| a.patterns().map(|p| x_pat(&p)).collect()).collect();
    let alts = if positions.iter().all(|p| p.len() == 1) {
        format!("(alts (alt {}))", join(positions.iter().map(|p| p[0].clone())))
    } else if positions.len() == 1 {
        format!("(alts {})", join(positions[0].iter().map(|p| format!("(alt {p})"))))
    } else {
        format!("(positions {})", join(positions.iter().map(|p| format!("(pos {})", p.join(" | ")))))
    };
    let guard = c.syntax().children().find_map(ast::PatternGuard::cast).map(|g| slot(g.expr(), g.syntax())).unwrap_or_default();
    format!("(clause {alts} (guard {guard}) {})", slot(c.body(), c.syntax()))
}

pub fn x_pat(p: &ast::Pattern) -> String {
    match p {
        ast::Pattern::PatternVariable(v) => match v.name().and_then(|n| n.text()) {
            Some(n) => format!("(pvar {n})"),
            // `"s" <> x` wraps the binder twice
            None => v.syntax().children().find_map(ast::Pattern::cast).map(|p| x_pat(&p)).unwrap_or_else(|| "(pvar <noname>)".into()),
        },
        ast::Pattern::Hole(h) => format!("(pdiscard {})", txt(h.token().map(|t| t.text().to_string()))),
        ast::Pattern::Literal(l) => x_lit(l),
        ast::Pattern::VariantRef(v) => {
            let module = opt_name(v.module().and_then(|m| m.name()).and_then(|n| n.text()));
            let name = txt(v.variant().and_then(|n| n.text()));
            let mut args = vec![];
            if let Some(fl) = v.field_list() {
                for f in fl.fields() {
                    match f.field() {
                        Some(ast::Pattern::PatternSpread(s)) if f.label().is_none() => args.push(format!("(pspread {})", opt_name(s.name().and_then(|n| n.text())))),
                        Some(p) => args.push(format!("(parg {} {})", opt_name(f.label().and_then(|l| l.text())), x_pat(&p))),
                        None => args.push("(parg <nofield>)".into()),
                    }
                }
            }
            format!("(pctor {module} {name} {})", args.join(" "))
        }
        ast::Pattern::PatternTuple(t) => format!("(ptuple {})", join(t.field_patterns().map(|p| x_pat(&p)))),
        ast::Pattern::PatternList(l) => format!("(plist {})", join(l.elements().map(|p| x_pat(&p)))),
        ast::Pattern::PatternSpread(s) => format!("(pspread {})", opt_name(s.name().and_then(|n| n.text()))),
        ast::Pattern::AsPattern(a) => format!("(pas {} {})", a.pattern().map(|p| x_pat(&p)).unwrap_or_else(|| "<nopattern>".into()), match a.as_name() {
            Some(ast::Pattern::PatternVariable(v)) => txt(v.name().and_then(|n| n.text())),
            _ => "<noname>".into(),
        }),
        ast::Pattern::PatternConcat(c) => format!("(pconcat {} {})", txt(c.string().and_then(|l| l.text())), c.name().map(|p| x_pat(&p)).unwrap_or_else(|| "<noname>".into())),
    }
}

pub fn x_type(t: &ast::TypeExpr) -> String {
    match t {
        ast::TypeExpr::TypeNameRef(r) => x_tyref(r),
        ast::TypeExpr::TypeApplication(a) => format!("(tyapp {} {})", a.type_constructor().map(|r| x_tyref(&r)).unwrap_or_else(|| "<noctor>".into()), a.arg_list().map(|l| join(l.args().map(|a| a.arg().map(|t| x_type(&t)).unwrap_or_else(|| "<noarg>".into())))).unwrap_or_default()),
        ast::TypeExpr::FnType(f) => format!("(tyfn ({}) {})", f.param_list().map(|p| join(p.params().map(|t| x_type(&t)))).unwrap_or_else(|| "<noparams>".into()), f.return_().map(|t| x_type(&t)).unwrap_or_else(|| "<noret>".into())),
        ast::TypeExpr::TupleType(t) => format!("(tytuple {})", join(t.field_types().map(|t| x_type(&t)))),
        ast::TypeExpr::Hole(_) => "(tyhole)".into(),
    }
}

fn x_tyref(r: &ast::TypeNameRef) -> String {
    format!("(ty {} {})", opt_name(r.module().and_then(|m| m.text())), txt(r.constructor_name().and_then(|n| n.text())))
}

fn x_param(p: &ast::Param) -> String {
    let name = match p.pattern() {
        Some(ast::Pattern::PatternVariable(v)) => txt(v.name().and_then(|n| n.text())),
        Some(ast::Pattern::Hole(h)) => txt(h.token().map(|t| t.text().to_string())),
        _ => "<noname>".into(),
    };
    format!("(param {} {name} (ann {}))", opt_name(p.label().and_then(|l| l.text())), p.ty().map(|t| x_type(&t)).unwrap_or_default())
}

fn generic_params(g: Option<ast::GenericParamList>) -> String {
    g.map(|g| {
        join(g.params().map(|t| match t {
            ast::TypeExpr::TypeNameRef(r) => txt(r.constructor_name().and_then(|n| n.text())),
            _ => "<param?>".into(),
        }))
    })
    .unwrap_or_default()
}

pub fn x_item(i: &ast::ModuleStatement) -> String {
    let has = |k: SyntaxKind| i.syntax().children_with_tokens().any(|t| t.kind() == k);
    match i {
        ast::ModuleStatement::Import(im) => {
            let path = im.module_path().map(|m| m.path().map(|p| txt(p.token().map(|t| t.text().to_string()))).collect::<Vec<_>>().join("/")).unwrap_or_else(|| "<nopath>".into());
            let unq = join(im.unqualified().map(|u| format!("(unq {} {} (as {}))", if u.is_type() { "type" } else { "-" }, txt(u.name().and_then(|n| n.text())), opt_name(u.as_name().and_then(|n| n.text())))));
            format!("(import {path} (as {}) {unq})", opt_name(im.as_name().and_then(|n| n.text())))
        }
        ast::ModuleStatement::ModuleConstant(c) => {
            // the value is the last expression child (a `_` annotation is also expression-castable)
            let value = expr_children(c.syntax()).into_iter().last().unwrap_or_else(|| "<novalue>".into());
            format!("(const {} {} (ann {}) {value})", if c.is_public() { "pub" } else { "-" }, txt(c.name().and_then(|n| n.text())), c.annotation().map(|t| x_type(&t)).unwrap_or_default())
        }
        ast::ModuleStatement::Adt(a) => {
            let variants = join(a.constructors().map(|v| format!("(variant {} {})", txt(v.name().and_then(|n| n.text())), v.field_list().map(|l| join(l.fields().map(|f| format!("(vfield {} {})", opt_name(f.label().and_then(|n| n.text())), f.type_().map(|t| x_type(&t)).unwrap_or_else(|| "<notype>".into()))))).unwrap_or_default())));
            format!("(type {} {} {} (params {}) {variants})", if a.is_public() { "pub" } else { "-" }, if has(SyntaxKind::OPAQUE_KW) { "opaque" } else { "-" }, txt(a.name().and_then(|n| n.text())), generic_params(a.generic_params()))
        }
        ast::ModuleStatement::TypeAlias(a) => format!("(alias {} {} (params {}) {})", if a.is_public() { "pub" } else { "-" }, txt(a.name().and_then(|n| n.text())), generic_params(a.generic_params()), a.type_().map(|t| x_type(&t)).unwrap_or_else(|| "<notype>".into())),
        ast::ModuleStatement::Function(f) => {
            let external = f.syntax().children().any(|c| c.kind() == SyntaxKind::EXTERNAL_ATTR);
            let target = f.syntax().children().find(|c| c.kind() == SyntaxKind::TARGET_ATTR).map(|t| t.children_with_tokens().filter_map(|e| e.into_token()).filter(|t| t.kind() == SyntaxKind::IDENT).last().map(|t| t.text().to_string()).unwrap_or_default());
            format!(
                "(fn {} {} {} {} (params {}) (ret {}) {})",
                if f.is_public() { "pub" } else { "-" },
                if external { "external" } else { "-" },
                target.unwrap_or_else(|| "-".into()),
                txt(f.name().and_then(|n| n.text())),
                f.param_list().map(|p| join(p.params().map(|p| x_param(&p)))).unwrap_or_default(),
                f.return_type().map(|t| x_type(&t)).unwrap_or_default(),
                f.body().map(|b| x_block(&b)).unwrap_or_else(|| "(nobody)".into())
            )
        }
    }
}

pub fn x_module(root: &ast::SourceFile) -> String {
    format!("(module {})", join(root.statements().map(|s| x_item(&s))))
}
