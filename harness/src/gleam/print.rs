//! Printer: AST -> token stream -> text under a layout. Identifier names may carry an
//! occurrence marker `name§id`; the printer strips it and reports the byte range of that token.
use super::ast::*;

#[derive(Clone, Copy, Debug, PartialEq, Eq)]
pub enum Layout {
    /// one space between all tokens
    Space,
    /// no optional whitespace
    Tight,
    /// one token per line
    Lines,
    /// a line comment between every two tokens
    Comments,
    /// doc comments before items and variants, module comment first
    Docs,
}

pub const LAYOUTS: &[Layout] = &[Layout::Space, Layout::Tight, Layout::Lines, Layout::Comments, Layout::Docs];

#[derive(Clone, Debug)]
struct Tok {
    s: String,
    occ: Option<u32>,
    /// no separator may be put before this token (it continues the previous one, e.g. `#(`)
    glue: bool,
    /// an item / variant starts here (doc comment position)
    doc: bool,
}

#[derive(Default)]
pub struct Printer {
    toks: Vec<Tok>,
    next_doc: bool,
}

pub struct Printed {
    pub text: String,
    /// (occurrence id, start, end)
    pub occs: Vec<(u32, usize, usize)>,
}

fn wordy(c: char) -> bool {
    c.is_alphanumeric() || c == '_' || c == '"'
}

fn opchar(c: char) -> bool {
    "+-*/<>=|&!.:%#@".contains(c)
}

impl Printer {
    fn t(&mut self, s: &str) {
        let doc = std::mem::take(&mut self.next_doc);
        self.toks.push(Tok { s: s.to_string(), occ: None, glue: false, doc });
    }
    fn glued(&mut self, s: &str) {
        self.toks.push(Tok { s: s.to_string(), occ: None, glue: true, doc: false });
    }
    fn name(&mut self, n: &str) {
        let doc = std::mem::take(&mut self.next_doc);
        match n.split_once('§') {
            Some((name, id)) => self.toks.push(Tok { s: name.to_string(), occ: id.parse().ok(), glue: false, doc }),
            None => self.toks.push(Tok { s: n.to_string(), occ: None, glue: false, doc }),
        }
    }
    fn sep_list<T>(&mut self, items: &[T], mut f: impl FnMut(&mut Self, &T)) {
        for (i, it) in items.iter().enumerate() {
            if i > 0 {
                self.t(",");
            }
            f(self, it);
        }
    }

    pub fn ty(&mut self, t: &Type) {
        match t {
            Type::Named { module, name, args } => {
                if let Some(m) = module {
                    self.name(m);
                    self.t(".");
                }
                self.name(name);
                if !args.is_empty() {
                    self.t("(");
                    self.sep_list(args, |p, a| p.ty(a));
                    self.t(")");
                }
            }
            Type::Var(v) => self.name(v),
            Type::Fn(ps, r) => {
                self.t("fn");
                self.t("(");
                self.sep_list(ps, |p, a| p.ty(a));
                self.t(")");
                self.t("->");
                self.ty(r);
            }
            Type::Tuple(v) => {
                self.t("#");
                self.glued("(");
                self.sep_list(v, |p, a| p.ty(a));
                self.t(")");
            }
            Type::Hole => self.t("_"),
        }
    }

    pub fn pat(&mut self, p: &Pattern) {
        match p {
            Pattern::Var(n) => self.name(n),
            Pattern::Discard(n) => self.t(n),
            Pattern::Int(s) | Pattern::Float(s) | Pattern::Str(s) => self.t(s),
            Pattern::Ctor { module, name, args, spread } => {
                if let Some(m) = module {
                    self.name(m);
                    self.t(".");
                }
                self.name(name);
                if !args.is_empty() || *spread {
                    self.t("(");
                    let mut first = true;
                    for (l, a) in args {
                        if !first {
                            self.t(",");
                        }
                        first = false;
                        if let Some(l) = l {
                            self.name(l);
                            self.t(":");
                        }
                        self.pat(a);
                    }
                    if *spread {
                        if !first {
                            self.t(",");
                        }
                        self.t("..");
                    }
                    self.t(")");
                }
            }
            Pattern::Tuple(v) => {
                self.t("#");
                self.glued("(");
                self.sep_list(v, |p, a| p.pat(a));
                self.t(")");
            }
            Pattern::List(v, tail) => {
                self.t("[");
                self.sep_list(v, |p, a| p.pat(a));
                if let Some(t) = tail {
                    if !v.is_empty() {
                        self.t(",");
                    }
                    self.t("..");
                    if let Some(n) = t {
                        self.name(n);
                    }
                }
                self.t("]");
            }
            Pattern::As(p, n) => {
                self.pat(p);
                self.t("as");
                self.name(n);
            }
            Pattern::Concat(s, p) => {
                self.t(s);
                self.t("<>");
                self.pat(p);
            }
        }
    }

    fn param(&mut self, p: &Param) {
        if let Some(l) = &p.label {
            self.name(l);
        }
        if p.name.starts_with('_') {
            self.t(&p.name);
        } else {
            self.name(&p.name);
        }
        if let Some(t) = &p.ty {
            self.t(":");
            self.ty(t);
        }
    }

    fn block(&mut self, stmts: &[Stmt]) {
        self.t("{");
        for s in stmts {
            self.stmt(s);
        }
        self.t("}");
    }

    pub fn stmt(&mut self, s: &Stmt) {
        match s {
            Stmt::Let { assert, pat, ann, value } => {
                self.t("let");
                if *assert {
                    self.t("assert");
                }
                self.pat(pat);
                if let Some(t) = ann {
                    self.t(":");
                    self.ty(t);
                }
                self.t("=");
                self.expr(value);
            }
            Stmt::Use { assigns, call } => {
                self.t("use");
                self.sep_list(assigns, |p, (pt, ty)| {
                    p.pat(pt);
                    if let Some(t) = ty {
                        p.t(":");
                        p.ty(t);
                    }
                });
                self.t("<-");
                self.expr(call);
            }
            Stmt::Expr(e) => self.expr(e),
        }
    }

    pub fn expr(&mut self, e: &Expr) {
        match e {
            Expr::Int(s) | Expr::Float(s) | Expr::Str(s) => self.t(s),
            Expr::Var(n) | Expr::Ctor(n) => self.name(n),
            Expr::Hole => self.t("_"),
            Expr::Tuple(v) => {
                self.t("#");
                self.glued("(");
                self.sep_list(v, |p, a| p.expr(a));
                self.t(")");
            }
            Expr::List(v, tail) => {
                self.t("[");
                self.sep_list(v, |p, a| p.expr(a));
                if let Some(t) = tail {
                    if !v.is_empty() {
                        self.t(",");
                    }
                    self.t("..");
                    self.expr(t);
                }
                self.t("]");
            }
            Expr::Block(s) => self.block(s),
            Expr::Call(f, args) => {
                self.expr(f);
                self.t("(");
                self.sep_list(args, |p, a| {
                    if let Some(l) = &a.label {
                        p.name(l);
                        p.t(":");
                    }
                    match &a.value {
                        ArgValue::Expr(e) => p.expr(e),
                        ArgValue::Spread(e) => {
                            p.t("..");
                            p.expr(e);
                        }
                    }
                });
                self.t(")");
            }
            Expr::Field(b, n) => {
                self.expr(b);
                self.t(".");
                self.name(n);
            }
            Expr::TupleIndex(b, n) => {
                self.expr(b);
                self.t(".");
                self.t(&n.to_string());
            }
            Expr::Bin(op, l, r) => {
                self.expr(l);
                self.t(op);
                self.expr(r);
            }
            Expr::Pipe(l, r) => {
                self.expr(l);
                self.t("|>");
                self.expr(r);
            }
            Expr::Neg(e) => {
                self.t("-");
                self.expr(e);
            }
            Expr::Not(e) => {
                self.t("!");
                self.expr(e);
            }
            Expr::Case(subj, clauses) => {
                self.t("case");
                self.sep_list(subj, |p, a| p.expr(a));
                self.t("{");
                for c in clauses {
                    for (i, alt) in c.alts.iter().enumerate() {
                        if i > 0 {
                            self.t("|");
                        }
                        self.sep_list(alt, |p, a| p.pat(a));
                    }
                    if let Some(g) = &c.guard {
                        self.t("if");
                        self.expr(g);
                    }
                    self.t("->");
                    self.expr(&c.body);
                }
                self.t("}");
            }
            Expr::Lambda(ps, ret, body) => {
                self.t("fn");
                self.t("(");
                self.sep_list(ps, |p, a| p.param(a));
                self.t(")");
                if let Some(r) = ret {
                    self.t("->");
                    self.ty(r);
                }
                self.block(body);
            }
            Expr::Todo(m) | Expr::Panic(m) => {
                self.t(if matches!(e, Expr::Todo(_)) { "todo" } else { "panic" });
                if let Some(m) = m {
                    self.t("as");
                    self.expr(m);
                }
            }
        }
    }

    pub fn item(&mut self, i: &Item) {
        self.next_doc = true;
        match i {
            Item::Import { path, alias, unqualified } => {
                self.t("import");
                for (k, seg) in path.iter().enumerate() {
                    if k > 0 {
                        self.t("/");
                    }
                    self.name(seg);
                }
                if !unqualified.is_empty() {
                    self.t(".");
                    self.glued("{");
                    self.sep_list(unqualified, |p, u| {
                        if u.is_type {
                            p.t("type");
                        }
                        p.name(&u.name);
                        if let Some(a) = &u.alias {
                            p.t("as");
                            p.name(a);
                        }
                    });
                    self.t("}");
                }
                if let Some(a) = alias {
                    self.t("as");
                    self.name(a);
                }
            }
            Item::Const { public, name, ann, value } => {
                if *public {
                    self.t("pub");
                }
                self.t("const");
                self.name(name);
                if let Some(t) = ann {
                    self.t(":");
                    self.ty(t);
                }
                self.t("=");
                self.expr(value);
            }
            Item::TypeDef { public, opaque, name, params, variants } => {
                if *public {
                    self.t("pub");
                }
                if *opaque {
                    self.t("opaque");
                }
                self.t("type");
                self.name(name);
                if !params.is_empty() {
                    self.t("(");
                    self.sep_list(params, |p, a| p.name(a));
                    self.t(")");
                }
                self.t("{");
                for v in variants {
                    self.next_doc = true;
                    self.name(&v.name);
                    if !v.fields.is_empty() {
                        self.t("(");
                        self.sep_list(&v.fields, |p, (l, t)| {
                            if let Some(l) = l {
                                p.name(l);
                                p.t(":");
                            }
                            p.ty(t);
                        });
                        self.t(")");
                    }
                }
                self.t("}");
            }
            Item::Alias { public, name, params, ty } => {
                if *public {
                    self.t("pub");
                }
                self.t("type");
                self.name(name);
                if !params.is_empty() {
                    self.t("(");
                    self.sep_list(params, |p, a| p.name(a));
                    self.t(")");
                }
                self.t("=");
                self.ty(ty);
            }
            Item::Fn { public, external, target, name, params, ret, body } => {
                if *external {
                    self.t("@");
                    self.glued("external");
                    self.t("(");
                    self.t("erlang");
                    self.t(",");
                    self.t("\"m\"");
                    self.t(",");
                    self.t("\"f\"");
                    self.t(")");
                }
                if let Some(tg) = target {
                    self.t("@");
                    self.glued("target");
                    self.t("(");
                    self.t(tg);
                    self.t(")");
                }
                if *public {
                    self.t("pub");
                }
                self.t("fn");
                self.name(name);
                self.t("(");
                self.sep_list(params, |p, a| p.param(a));
                self.t(")");
                if let Some(r) = ret {
                    self.t("->");
                    self.ty(r);
                }
                if let Some(b) = body {
                    self.block(b);
                }
            }
        }
    }

    pub fn finish(self, layout: Layout) -> Printed {
        let mut text = String::new();
        let mut occs = vec![];
        if layout == Layout::Docs {
            text.push_str("//// module doc\n");
        }
        for (i, t) in self.toks.iter().enumerate() {
            if i > 0 && !t.glue {
                let prev = &self.toks[i - 1].s;
                match layout {
                    Layout::Space => text.push(' '),
                    Layout::Docs => {
                        if t.doc {
                            text.push_str("\n/// doc\n");
                        } else {
                            text.push(' ');
                        }
                    }
                    Layout::Lines => text.push('\n'),
                    Layout::Comments => text.push_str(" // c\n"),
                    Layout::Tight => {
                        let a = prev.chars().last().unwrap_or(' ');
                        let b = t.s.chars().next().unwrap_or(' ');
                        // digits `.` digits would read as a float: a space is needed only there
                        // (`a.0.f` and `#(1, 2).0` are written tight, as people write them)
                        let prev_all_digits = !prev.is_empty() && prev.chars().all(|c| c.is_ascii_digit() || c == '_');
                        let next_starts_digit = self.toks.get(i + 1).map_or(false, |n| n.s.chars().next().map_or(false, |c| c.is_ascii_digit()));
                        let before_prev_is_digits = i >= 2 && self.toks[i - 2].s.chars().all(|c| c.is_ascii_digit() || c == '_') && !self.toks[i - 2].s.is_empty();
                        if (wordy(a) && wordy(b)) || (opchar(a) && opchar(b)) || (prev_all_digits && t.s == "." && next_starts_digit) || (prev == "." && b.is_ascii_digit() && before_prev_is_digits) {
                            text.push(' ');
                        }
                    }
                }
            } else if i == 0 && layout == Layout::Docs && t.doc {
                text.push_str("/// doc\n");
            }
            let s = text.len();
            text.push_str(&t.s);
            if let Some(id) = t.occ {
                occs.push((id, s, text.len()));
            }
        }
        text.push('\n');
        Printed { text, occs }
    }
}

pub fn print_module(m: &Module, layout: Layout) -> Printed {
    let mut p = Printer::default();
    for i in &m.items {
        p.item(i);
    }
    p.finish(layout)
}
