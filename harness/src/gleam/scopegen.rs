//! Scope-aware program generator: skeletons with unnamed binder / use slots x every assignment
//! of names from a tiny pool to the slots, in several module contexts (top-level items of the
//! same names, qualified / unqualified / aliased imports).
use super::ast::*;

pub const POOL: &[&str] = &["x", "y"];

pub struct Ctx {
    pub assign: Vec<u8>,
    pub pos: usize,
    pub next_id: u32,
    last_binder: Option<String>,
    /// expression context every use slot is placed in (see `USE_WRAPS`)
    pub wrap: u8,
}

/// Expression contexts for use slots: what a name stands in changes how the body is lowered and
/// inferred, not what it refers to.
pub const USE_WRAPS: &[&str] = &[
    "bare",
    "operand of `!`",
    "operand of `-`",
    "argument of a piped call",
    "message of `panic as`",
    "message of `todo as`",
    "list element",
    "tuple element",
    "call argument",
    "operand of `+`",
    "in a block",
    "argument of a call piped into a call",
];

impl Ctx {
    pub fn new(assign: Vec<u8>) -> Self {
        Ctx { assign, pos: 0, next_id: 0, last_binder: None, wrap: 0 }
    }
    pub fn mark(&mut self, n: &str) -> String {
        self.next_id += 1;
        format!("{n}§{}", self.next_id)
    }
    fn pick(&mut self) -> &'static str {
        let i = self.assign.get(self.pos).copied().unwrap_or(0) as usize;
        self.pos += 1;
        POOL[i % POOL.len()]
    }
    /// a binder slot
    pub fn b(&mut self) -> String {
        let n = self.pick();
        self.last_binder = Some(n.to_string());
        self.mark(n)
    }
    /// a binder that must carry the same name as the previous binder slot (alternatives)
    pub fn b_same(&mut self) -> String {
        let n = self.last_binder.clone().unwrap_or_else(|| "x".into());
        self.mark(&n)
    }
    /// a use slot
    pub fn u(&mut self) -> Expr {
        let n = self.pick();
        let v = Expr::Var(self.mark(n));
        self.wrap_expr(v)
    }
    /// `v` placed in the expression context `self.wrap` (`f` takes one argument, `g` two)
    pub fn wrap_expr(&self, v: Expr) -> Expr {
        let call = |name: &str, args: Vec<Expr>| Expr::Call(Box::new(Expr::Var(name.into())), args.into_iter().map(|e| Arg { label: None, value: ArgValue::Expr(e) }).collect());
        let one = || Expr::Int("1".into());
        match self.wrap {
            1 => Expr::Not(Box::new(v)),
            // under a binary operator: `-x` at the start of a statement would continue the previous one
            2 => Expr::Bin("*", Box::new(one()), Box::new(Expr::Neg(Box::new(v)))),
            3 => Expr::Pipe(Box::new(one()), Box::new(call("g", vec![v]))),
            // in a block: the message of `panic as` extends over any operator that follows
            4 => Expr::Block(vec![Stmt::Expr(Expr::Panic(Some(Box::new(v))))]),
            5 => Expr::Block(vec![Stmt::Expr(Expr::Todo(Some(Box::new(v))))]),
            6 => Expr::List(vec![one(), v], None),
            7 => Expr::Tuple(vec![one(), v]),
            8 => call("g", vec![one(), v]),
            9 => Expr::Bin("+", Box::new(one()), Box::new(v)),
            10 => Expr::Block(vec![Stmt::Expr(v)]),
            11 => Expr::Pipe(Box::new(one()), Box::new(call("g", vec![call("f", vec![v])]))),
            _ => v,
        }
    }
}

pub const N_SHAPES: usize = 17;
/// shapes that may be nested inside a body hole
pub const INNER_SHAPES: &[usize] = &[0, 1, 9, 12];

fn call(f: &str, args: Vec<Expr>) -> Expr {
    Expr::Call(Box::new(Expr::Var(f.into())), args.into_iter().map(|e| Arg { label: None, value: ArgValue::Expr(e) }).collect())
}

/// The body of a construct: optionally one nested statement shape, then a use.
fn body(c: &mut Ctx, inner: Option<usize>) -> Vec<Stmt> {
    let mut v = vec![];
    if let Some(i) = inner {
        v.extend(emit(i, c, None));
    }
    v.push(Stmt::Expr(c.u()));
    v
}

fn body_expr(c: &mut Ctx, inner: Option<usize>) -> Expr {
    match inner {
        None => c.u(),
        Some(_) => Expr::Block(body(c, inner)),
    }
}

pub fn emit(shape: usize, c: &mut Ctx, inner: Option<usize>) -> Vec<Stmt> {
    let letp = |pat: Pattern, value: Expr| Stmt::Let { assert: false, pat, ann: None, value };
    match shape {
        // let B = ?   (the binder is not visible in its own initialiser)
        0 => {
            let v = c.u();
            vec![letp(Pattern::Var(c.b()), v)]
        }
        1 => {
            let v = c.u();
            vec![letp(Pattern::Tuple(vec![Pattern::Var(c.b()), Pattern::Var(c.b())]), v)]
        }
        2 => {
            let v = c.u();
            vec![letp(Pattern::List(vec![Pattern::Var(c.b())], Some(Some(c.b()))), v)]
        }
        3 => {
            let v = c.u();
            let l = c.mark("inner");
            vec![letp(Pattern::Ctor { module: None, name: c.mark("Box"), args: vec![(Some(l), Pattern::Var(c.b()))], spread: false }, v)]
        }
        4 => {
            let v = c.u();
            vec![letp(Pattern::As(Box::new(Pattern::Tuple(vec![Pattern::Var(c.b()), Pattern::Discard("_".into())])), c.b()), v)]
        }
        5 => {
            let v = c.u();
            vec![letp(Pattern::Concat("\"p\"".into(), Box::new(Pattern::Var(c.b()))), v)]
        }
        // use B <- f(?)  : binder visible in the rest of the block
        6 => {
            let v = c.u();
            vec![Stmt::Use { assigns: vec![(Pattern::Var(c.b()), None)], call: call("f", vec![v]) }]
        }
        7 => {
            let v = c.u();
            vec![Stmt::Use { assigns: vec![(Pattern::Var(c.b()), None), (Pattern::Var(c.b()), None)], call: call("f", vec![v]) }]
        }
        // case ? { B -> body  _ -> ? }   : clause binders end with the clause
        8 => {
            let s = c.u();
            let p = Pattern::Var(c.b());
            let b1 = body_expr(c, inner);
            let b2 = c.u();
            vec![Stmt::Expr(Expr::Case(vec![s], vec![Clause { alts: vec![vec![p]], guard: None, body: b1 }, Clause { alts: vec![vec![Pattern::Discard("_".into())]], guard: None, body: b2 }]))]
        }
        9 => {
            let s1 = c.u();
            let s2 = c.u();
            let p1 = Pattern::Var(c.b());
            let p2 = Pattern::Var(c.b());
            let b1 = body_expr(c, inner);
            vec![Stmt::Expr(Expr::Case(vec![s1, s2], vec![Clause { alts: vec![vec![p1, p2]], guard: None, body: b1 }]))]
        }
        // alternatives bind the same name
        10 => {
            let s = c.u();
            let p1 = Pattern::Tuple(vec![Pattern::Var(c.b()), Pattern::Discard("_".into())]);
            let p2 = Pattern::Tuple(vec![Pattern::Discard("_".into()), Pattern::Var(c.b_same())]);
            let b1 = body_expr(c, inner);
            vec![Stmt::Expr(Expr::Case(vec![s], vec![Clause { alts: vec![vec![p1], vec![p2]], guard: None, body: b1 }]))]
        }
        // let B = fn(B) { body }   : parameters scope the lambda body only
        11 => {
            let p = c.b();
            let b = body(c, inner);
            let name = c.b();
            vec![letp(Pattern::Var(name), Expr::Lambda(vec![Param { label: None, name: p, ty: None }], None, b))]
        }
        // { let B = ?  ? }  then the binding is gone
        12 => {
            let v = c.u();
            let b = c.b();
            let inner_use = c.u();
            vec![Stmt::Expr(Expr::Block(vec![letp(Pattern::Var(b), v), Stmt::Expr(inner_use)]))]
        }
        13 => vec![Stmt::Expr(call("f", vec![c.u(), c.u()]))],
        // guard: safety half only
        14 => {
            let s = c.u();
            let p = Pattern::Var(c.b());
            let g = Expr::Bin("==", Box::new(c.u()), Box::new(Expr::Int("1".into())));
            let b1 = c.u();
            vec![Stmt::Expr(Expr::Case(vec![s], vec![Clause { alts: vec![vec![p]], guard: Some(g), body: b1 }, Clause { alts: vec![vec![Pattern::Discard("_".into())]], guard: None, body: Expr::Int("0".into()) }]))]
        }
        // constructor call with a label, and a pipe into a lambda
        15 => {
            let l = c.mark("inner");
            let ctor = Expr::Ctor(c.mark("Box"));
            let v = c.u();
            vec![Stmt::Expr(Expr::Call(Box::new(ctor), vec![Arg { label: Some(l), value: ArgValue::Expr(v) }]))]
        }
        _ => {
            let lhs = c.u();
            let p = c.b();
            let b = body(c, inner);
            vec![Stmt::Expr(Expr::Pipe(Box::new(lhs), Box::new(Expr::Lambda(vec![Param { label: None, name: p, ty: None }], None, b))))]
        }
    }
}

#[derive(Clone, Copy, Debug, PartialEq, Eq)]
pub struct Context {
    /// 0: none, 1: `fn x` and `const y` at top level
    pub toplevel: u8,
    /// 0 none, 1 `import m`, 2 `import m.{x}`, 3 `import m.{x as y}`, 4 `import m as n`, 5 `import m.{hidden, T, type T}`
    pub import: u8,
    /// number of parameters of main (named x, y)
    pub params: u8,
}

pub fn contexts() -> Vec<Context> {
    let mut v = vec![];
    for toplevel in 0..2 {
        for import in 0..6 {
            for params in 0..3 {
                v.push(Context { toplevel, import, params });
            }
        }
    }
    v
}

/// Builds the two-module program for one (context, skeleton, assignment). Returns None if the
/// program would be rejected by Gleam itself (unqualified import clashing with a top-level name).
pub fn program(ctx: Context, shapes: &[(usize, Option<usize>)], c: &mut Ctx) -> Option<Vec<(String, Module)>> {
    if ctx.toplevel == 1 && (ctx.import == 2 || ctx.import == 3) {
        return None;
    }
    let int = || Type::Named { module: None, name: "Int".into(), args: vec![] };
    // module m
    let m = Module {
        items: vec![
            Item::Fn { public: true, external: false, target: None, name: c.mark("x"), params: vec![], ret: None, body: Some(vec![Stmt::Expr(Expr::Int("0".into()))]) },
            Item::Const { public: true, name: c.mark("y"), ann: None, value: Expr::Int("1".into()) },
            Item::Fn { public: false, external: false, target: None, name: c.mark("hidden"), params: vec![], ret: None, body: Some(vec![Stmt::Expr(Expr::Int("0".into()))]) },
            Item::TypeDef { public: true, opaque: false, name: c.mark("T"), params: vec![], variants: vec![Variant { name: c.mark("T"), fields: vec![(Some(c.mark("inner")), int())] }] },
        ],
    };
    let mut items = vec![];
    let accessor = if ctx.import == 4 { "n" } else { "m" };
    match ctx.import {
        0 => {}
        1 => items.push(Item::Import { path: vec!["m".into()], alias: None, unqualified: vec![] }),
        2 => items.push(Item::Import { path: vec!["m".into()], alias: None, unqualified: vec![Unq { is_type: false, name: c.mark("x"), alias: None }] }),
        3 => items.push(Item::Import { path: vec!["m".into()], alias: None, unqualified: vec![Unq { is_type: false, name: c.mark("x"), alias: Some(c.mark("y")) }] }),
        4 => items.push(Item::Import { path: vec!["m".into()], alias: Some("n".into()), unqualified: vec![] }),
        _ => items.push(Item::Import { path: vec!["m".into()], alias: None, unqualified: vec![Unq { is_type: false, name: c.mark("hidden"), alias: None }, Unq { is_type: false, name: c.mark("T"), alias: None }, Unq { is_type: true, name: c.mark("T"), alias: None }] }),
    }
    items.push(Item::TypeDef { public: false, opaque: false, name: c.mark("Box"), params: vec![], variants: vec![Variant { name: c.mark("Box"), fields: vec![(Some(c.mark("inner")), int())] }] });
    if ctx.toplevel == 1 {
        items.push(Item::Fn { public: false, external: false, target: None, name: c.mark("x"), params: vec![], ret: None, body: Some(vec![Stmt::Expr(Expr::Int("0".into()))]) });
        items.push(Item::Const { public: false, name: c.mark("y"), ann: None, value: Expr::Int("2".into()) });
    }
    let mut body = vec![];
    for (s, inner) in shapes {
        body.extend(emit(*s, c, *inner));
    }
    // qualified uses of the imported module
    if ctx.import != 0 {
        let q = |c: &mut Ctx, name: &str| Expr::Field(Box::new(Expr::Var(c.mark(accessor))), c.mark(name));
        let e = Expr::Call(Box::new(q(c, "x")), vec![]);
        body.push(Stmt::Expr(c.wrap_expr(e)));
        let e = q(c, "y");
        body.push(Stmt::Expr(c.wrap_expr(e)));
        let e = Expr::Call(Box::new(q(c, "hidden")), vec![]);
        body.push(Stmt::Expr(c.wrap_expr(e)));
        if ctx.import == 5 {
            body.push(Stmt::Expr(Expr::Call(Box::new(Expr::Var(c.mark("hidden"))), vec![])));
            body.push(Stmt::Expr(Expr::Ctor(c.mark("T"))));
        }
    }
    body.push(Stmt::Expr(c.u()));
    body.push(Stmt::Expr(c.u()));
    let params: Vec<Param> = POOL.iter().take(ctx.params as usize).map(|n| Param { label: None, name: c.mark(n), ty: if ctx.import == 5 { Some(Type::Named { module: None, name: c.mark("T"), args: vec![] }) } else { None } }).collect();
    items.push(Item::Fn { public: true, external: false, target: None, name: c.mark("main"), params, ret: None, body: Some(body) });
    // a second function after main: top-level items are visible regardless of order
    items.push(Item::Fn { public: false, external: false, target: None, name: c.mark("f"), params: vec![Param { label: None, name: c.mark("a"), ty: None }], ret: None, body: Some(vec![Stmt::Expr(Expr::Var(c.mark("a")))]) });
    if c.wrap != 0 {
        // the two-parameter helper of the call contexts
        items.push(Item::Fn { public: false, external: false, target: None, name: c.mark("g"), params: vec![Param { label: None, name: c.mark("a"), ty: None }, Param { label: None, name: c.mark("b"), ty: None }], ret: None, body: Some(vec![Stmt::Expr(Expr::Var(c.mark("a")))]) });
    }
    Some(vec![("main".to_string(), Module { items }), ("m".to_string(), m)])
}
