//! GMod: the harness' own reference model of Gleam's surface syntax (AST, printer with
//! layouts, canonical S-expressions), written independently of glas.
pub mod ast;
pub mod enumerate;
pub mod extract;
pub mod print;
pub mod scope;
pub mod scopegen;
