//! E2: derivation enumerator over the reference grammar. Depth 1 is the full product over
//! leaves; from depth 2 on the one-hole discipline is used: for every production P, every
//! slot s and every derivation t of the previous depth, P[s := t] with the other slots filled
//! by the first leaf. Operands that Gleam's grammar would regroup are wrapped in blocks by
//! construction (precedence itself is exercised by the operator tables, not here).
use super::ast::*;

pub const BINOPS: &[&str] = &["||", "&&", "==", "!=", "<", "<=", "<.", "<=.", ">", ">=", ">.", ">=.", "<>", "+", "-", "+.", "-.", "*", "/", "*.", "/.", "%"];
/// one representative per precedence level (plus the pipe, handled separately)
/// Constant values: every leaf (literals of each kind, negative numbers, another constant, a
/// constant of a module, constructors) alone, and inside each container shape (tuple, list,
/// constructor arguments, concatenation) at each position.
pub fn const_values() -> Vec<Expr> {
    let i = |s: &str| Expr::Int(s.into());
    let leaves: Vec<Expr> = vec![
        i("1"),
        Expr::Str("\"s\"".into()),
        Expr::Float("1.5".into()),
        Expr::Neg(Box::new(i("1"))),
        Expr::Neg(Box::new(Expr::Float("1.5".into()))),
        Expr::Var("d".into()),
        Expr::Field(Box::new(Expr::Var("m".into())), "d".into()),
        Expr::Ctor("V".into()),
        Expr::Field(Box::new(Expr::Var("m".into())), "V".into()),
    ];
    let mut out = leaves.clone();
    out.push(Expr::List(vec![], None));
    for l in &leaves {
        out.push(Expr::Tuple(vec![l.clone(), i("2")]));
        out.push(Expr::Tuple(vec![i("2"), l.clone()]));
        out.push(Expr::List(vec![l.clone(), i("2")], None));
        out.push(Expr::List(vec![i("2"), l.clone()], None));
        out.push(Expr::Call(Box::new(Expr::Ctor("V".into())), vec![Arg { label: None, value: ArgValue::Expr(l.clone()) }]));
        out.push(Expr::Call(Box::new(Expr::Ctor("V".into())), vec![Arg { label: Some("l".into()), value: ArgValue::Expr(l.clone()) }, Arg { label: None, value: ArgValue::Expr(i("2")) }]));
        out.push(Expr::Tuple(vec![Expr::Tuple(vec![l.clone()]), Expr::List(vec![l.clone()], None)]));
    }
    out.push(Expr::Bin("<>", Box::new(Expr::Str("\"s\"".into())), Box::new(Expr::Str("\"t\"".into()))));
    out.push(Expr::Bin("<>", Box::new(Expr::Var("d".into())), Box::new(Expr::Str("\"t\"".into()))));
    out
}

pub const BINOPS_REP: &[&str] = &["||", "&&", "==", "<", "<>", "+", "*"];

pub fn prec(op: &str) -> u8 {
    match op {
        "||" => 1,
        "&&" => 2,
        "==" | "!=" => 3,
        "<" | "<=" | "<." | "<=." | ">" | ">=" | ">." | ">=." => 4,
        "<>" => 5,
        "|>" => 6,
        "+" | "-" | "+." | "-." => 7,
        "*" | "/" | "*." | "/." | "%" => 8,
        _ => 0,
    }
}

fn v(n: &str) -> Expr {
    Expr::Var(n.into())
}

pub fn expr_leaves() -> Vec<Expr> {
    vec![Expr::Int("1".into()), v("a"), Expr::Ctor("A".into()), Expr::Str("\"s\"".into()), Expr::Float("1.5".into())]
}

fn is_atom(e: &Expr) -> bool {
    matches!(e, Expr::Int(_) | Expr::Float(_) | Expr::Str(_) | Expr::Var(_) | Expr::Ctor(_) | Expr::Tuple(_) | Expr::List(..) | Expr::Block(_) | Expr::Call(..) | Expr::Field(..) | Expr::TupleIndex(..))
}

/// Operand position: anything that is not self-delimiting goes into a block.
pub fn operand(e: Expr) -> Expr {
    if is_atom(&e) {
        e
    } else {
        Expr::Block(vec![Stmt::Expr(e)])
    }
}

/// A statement must not start with `-` (it would continue the previous expression).
fn stmt_safe(e: &Expr) -> bool {
    fn head(e: &Expr) -> &Expr {
        match e {
            Expr::Bin(_, l, _) | Expr::Pipe(l, _) => head(l),
            Expr::Call(f, _) => head(f),
            Expr::Field(b, _) | Expr::TupleIndex(b, _) => head(b),
            e => e,
        }
    }
    !matches!(head(e), Expr::Neg(_))
}

pub fn pat_leaves() -> Vec<Pattern> {
    vec![Pattern::Var("p".into()), Pattern::Discard("_".into()), Pattern::Int("1".into()), Pattern::Str("\"s\"".into()), Pattern::Ctor { module: None, name: "A".into(), args: vec![], spread: false }, Pattern::Discard("_d".into()), Pattern::Float("1.5".into())]
}

pub fn type_leaves() -> Vec<Type> {
    vec![Type::Named { module: None, name: "Int".into(), args: vec![] }, Type::Var("a".into()), Type::Hole]
}

/// Type productions applied to sub-derivations (one-hole: `subs` for one slot, first leaf elsewhere).
fn type_prods(subs: &[Type], full: bool) -> Vec<Type> {
    let l0 = type_leaves()[0].clone();
    let mut out = vec![];
    for s in subs {
        out.push(Type::Named { module: None, name: "List".into(), args: vec![s.clone()] });
        out.push(Type::Named { module: Some("m".into()), name: "T".into(), args: vec![s.clone()] });
        out.push(Type::Named { module: None, name: "Pair".into(), args: vec![s.clone(), l0.clone()] });
        out.push(Type::Named { module: None, name: "Pair".into(), args: vec![l0.clone(), s.clone()] });
        out.push(Type::Fn(vec![s.clone()], Box::new(l0.clone())));
        out.push(Type::Fn(vec![l0.clone()], Box::new(s.clone())));
        out.push(Type::Fn(vec![l0.clone(), s.clone()], Box::new(l0.clone())));
        out.push(Type::Tuple(vec![s.clone()]));
        out.push(Type::Tuple(vec![l0.clone(), s.clone()]));
        if full {
            for s2 in subs {
                out.push(Type::Named { module: None, name: "Pair".into(), args: vec![s.clone(), s2.clone()] });
                out.push(Type::Fn(vec![s.clone()], Box::new(s2.clone())));
                out.push(Type::Tuple(vec![s.clone(), s2.clone()]));
            }
        }
    }
    out.push(Type::Named { module: Some("m".into()), name: "T".into(), args: vec![] });
    out.push(Type::Fn(vec![], Box::new(l0.clone())));
    out.push(Type::Tuple(vec![]));
    out
}

pub fn types(depth: usize) -> Vec<Type> {
    let mut cur = type_leaves();
    let mut all = cur.clone();
    for d in 1..=depth {
        let next = type_prods(&cur, d == 1);
        all.extend(next.iter().cloned());
        cur = next;
    }
    dedup(all)
}

fn pat_prods(subs: &[Pattern], full: bool) -> Vec<Pattern> {
    let l0 = pat_leaves()[0].clone();
    let q = Pattern::Var("q".into());
    let mut out = vec![];
    for s in subs {
        out.push(Pattern::Ctor { module: None, name: "B".into(), args: vec![(None, s.clone())], spread: false });
        out.push(Pattern::Ctor { module: None, name: "B".into(), args: vec![(Some("l".into()), s.clone())], spread: false });
        out.push(Pattern::Ctor { module: None, name: "B".into(), args: vec![(None, s.clone())], spread: true });
        out.push(Pattern::Ctor { module: None, name: "B".into(), args: vec![(Some("l".into()), s.clone()), (None, q.clone())], spread: false });
        out.push(Pattern::Ctor { module: None, name: "B".into(), args: vec![(None, q.clone()), (Some("l".into()), s.clone())], spread: false });
        out.push(Pattern::Ctor { module: Some("m".into()), name: "B".into(), args: vec![(None, s.clone())], spread: false });
        out.push(Pattern::Tuple(vec![s.clone()]));
        out.push(Pattern::Tuple(vec![q.clone(), s.clone()]));
        out.push(Pattern::List(vec![s.clone()], None));
        out.push(Pattern::List(vec![s.clone()], Some(None)));
        out.push(Pattern::List(vec![s.clone()], Some(Some("t".into()))));
        out.push(Pattern::List(vec![q.clone(), s.clone()], None));
        // `x as y` on a bare variable is not supported by glas' parser (documented exclusion)
        // `"pre" <> x as w`: how `as` groups with a string-prefix pattern is left out of the grammar
        if !matches!(s, Pattern::Var(_) | Pattern::As(..) | Pattern::Concat(..)) {
            out.push(Pattern::As(Box::new(s.clone()), "w".into()));
        }
        if full {
            for s2 in subs.iter().take(4) {
                out.push(Pattern::Tuple(vec![s.clone(), s2.clone()]));
                out.push(Pattern::List(vec![s.clone(), s2.clone()], None));
                out.push(Pattern::Ctor { module: None, name: "B".into(), args: vec![(None, s.clone()), (None, s2.clone())], spread: false });
            }
        }
    }
    out.push(Pattern::Ctor { module: Some("m".into()), name: "B".into(), args: vec![], spread: false });
    out.push(Pattern::Ctor { module: None, name: "B".into(), args: vec![], spread: true });
    out.push(Pattern::Tuple(vec![]));
    out.push(Pattern::List(vec![], None));
    out.push(Pattern::List(vec![], Some(None)));
    out.push(Pattern::List(vec![], Some(Some("t".into()))));
    out.push(Pattern::Concat("\"pre\"".into(), Box::new(l0.clone())));
    out.push(Pattern::Concat("\"pre\"".into(), Box::new(Pattern::Discard("_".into()))));
    out
}

pub fn patterns(depth: usize) -> Vec<Pattern> {
    let mut cur = pat_leaves();
    let mut all = cur.clone();
    for d in 1..=depth {
        let next = pat_prods(&cur, d == 1);
        all.extend(next.iter().cloned());
        cur = next;
    }
    dedup(all)
}

fn arg(e: Expr) -> Arg {
    Arg { label: None, value: ArgValue::Expr(e) }
}

fn larg(l: &str, e: Expr) -> Arg {
    Arg { label: Some(l.into()), value: ArgValue::Expr(e) }
}

fn param(n: &str) -> Param {
    Param { label: None, name: n.into(), ty: None }
}

fn int_ty() -> Type {
    type_leaves()[0].clone()
}

/// Expression productions with `subs` in one slot.
fn expr_prods(subs: &[Expr], full: bool, ops: &[&'static str], pats: &[Pattern], tys: &[Type]) -> Vec<Expr> {
    let l0 = expr_leaves()[0].clone();
    let x = v("x");
    let mut out = vec![];
    for s in subs {
        let o = operand(s.clone());
        out.push(Expr::Tuple(vec![s.clone()]));
        out.push(Expr::Tuple(vec![x.clone(), s.clone()]));
        out.push(Expr::List(vec![s.clone()], None));
        out.push(Expr::List(vec![x.clone(), s.clone()], None));
        out.push(Expr::List(vec![x.clone()], Some(Box::new(s.clone()))));
        out.push(Expr::List(vec![s.clone()], Some(Box::new(x.clone()))));
        if stmt_safe(s) {
            out.push(Expr::Block(vec![Stmt::Expr(s.clone())]));
            out.push(Expr::Block(vec![Stmt::Expr(x.clone()), Stmt::Expr(s.clone())]));
        }
        out.push(Expr::Block(vec![Stmt::Let { assert: false, pat: Pattern::Var("y".into()), ann: None, value: s.clone() }, Stmt::Expr(v("y"))]));
        out.push(Expr::Call(Box::new(o.clone()), vec![]));
        out.push(Expr::Call(Box::new(v("f")), vec![arg(s.clone())]));
        out.push(Expr::Call(Box::new(v("f")), vec![larg("l", s.clone())]));
        out.push(Expr::Call(Box::new(v("f")), vec![arg(x.clone()), larg("l", s.clone())]));
        out.push(Expr::Call(Box::new(v("f")), vec![arg(Expr::Hole), arg(s.clone())]));
        out.push(Expr::Call(Box::new(Expr::Ctor("R".into())), vec![Arg { label: None, value: ArgValue::Spread(s.clone()) }, larg("l", x.clone())]));
        out.push(Expr::Call(Box::new(Expr::Field(Box::new(v("m")), "g".into())), vec![arg(s.clone())]));
        out.push(Expr::Field(Box::new(o.clone()), "fld".into()));
        // indexing a literal (`1.0`, `"s".0`) is excluded: never meaningful, and `1.0` is a float
        if !matches!(o, Expr::Int(_) | Expr::Float(_) | Expr::Str(_)) {
            out.push(Expr::TupleIndex(Box::new(o.clone()), 0));
        }
        out.push(Expr::Neg(Box::new(o.clone())));
        out.push(Expr::Not(Box::new(o.clone())));
        out.push(Expr::Pipe(Box::new(o.clone()), Box::new(v("f"))));
        out.push(Expr::Pipe(Box::new(x.clone()), Box::new(o.clone())));
        for op in ops {
            out.push(Expr::Bin(op, Box::new(o.clone()), Box::new(x.clone())));
            out.push(Expr::Bin(op, Box::new(x.clone()), Box::new(o.clone())));
        }
        out.push(Expr::Case(vec![s.clone()], vec![Clause { alts: vec![vec![Pattern::Discard("_".into())]], guard: None, body: l0.clone() }]));
        out.push(Expr::Case(vec![x.clone()], vec![Clause { alts: vec![vec![Pattern::Var("p".into())]], guard: None, body: s.clone() }]));
        out.push(Expr::Case(vec![x.clone()], vec![Clause { alts: vec![vec![Pattern::Var("p".into())]], guard: Some(o.clone()), body: l0.clone() }]));
        out.push(Expr::Case(vec![x.clone(), s.clone()], vec![Clause { alts: vec![vec![Pattern::Var("p".into()), Pattern::Discard("_".into())]], guard: None, body: l0.clone() }]));
        out.push(Expr::Case(vec![x.clone()], vec![Clause { alts: vec![vec![Pattern::Int("1".into())]], guard: None, body: s.clone() }, Clause { alts: vec![vec![Pattern::Discard("_".into())]], guard: None, body: l0.clone() }]));
        if stmt_safe(s) {
            out.push(Expr::Lambda(vec![param("n")], None, vec![Stmt::Expr(s.clone())]));
        }
        out.push(Expr::Todo(Some(Box::new(s.clone()))));
        out.push(Expr::Panic(Some(Box::new(s.clone()))));
        if full {
            for s2 in subs {
                for op in ops {
                    out.push(Expr::Bin(op, Box::new(o.clone()), Box::new(operand(s2.clone()))));
                }
                out.push(Expr::Tuple(vec![s.clone(), s2.clone()]));
                out.push(Expr::Call(Box::new(v("f")), vec![arg(s.clone()), arg(s2.clone())]));
            }
        }
    }
    // productions without expression slots, and those parametrised by patterns / types
    out.push(Expr::Tuple(vec![]));
    out.push(Expr::List(vec![], None));
    out.push(Expr::Block(vec![Stmt::Expr(l0.clone())]));
    out.push(Expr::Call(Box::new(v("f")), vec![]));
    out.push(Expr::Call(Box::new(v("f")), vec![arg(Expr::Hole)]));
    out.push(Expr::Todo(None));
    out.push(Expr::Panic(None));
    out.push(Expr::Lambda(vec![], None, vec![Stmt::Expr(l0.clone())]));
    out.push(Expr::Lambda(vec![param("n"), param("_")], Some(int_ty()), vec![Stmt::Expr(v("n"))]));
    for t in tys {
        out.push(Expr::Lambda(vec![Param { label: None, name: "n".into(), ty: Some(t.clone()) }], None, vec![Stmt::Expr(v("n"))]));
        out.push(Expr::Lambda(vec![param("n")], Some(t.clone()), vec![Stmt::Expr(v("n"))]));
        out.push(Expr::Block(vec![Stmt::Let { assert: false, pat: Pattern::Var("y".into()), ann: Some(t.clone()), value: x.clone() }, Stmt::Expr(v("y"))]));
    }
    for p in pats {
        out.push(Expr::Block(vec![Stmt::Let { assert: false, pat: p.clone(), ann: None, value: x.clone() }, Stmt::Expr(l0.clone())]));
        out.push(Expr::Block(vec![Stmt::Let { assert: true, pat: p.clone(), ann: None, value: x.clone() }, Stmt::Expr(l0.clone())]));
        out.push(Expr::Block(vec![Stmt::Use { assigns: vec![(p.clone(), None)], call: Expr::Call(Box::new(v("f")), vec![arg(x.clone())]) }, Stmt::Expr(l0.clone())]));
        out.push(Expr::Case(vec![x.clone()], vec![Clause { alts: vec![vec![p.clone()]], guard: None, body: l0.clone() }]));
        out.push(Expr::Case(vec![x.clone()], vec![Clause { alts: vec![vec![p.clone()], vec![Pattern::Int("2".into())]], guard: None, body: l0.clone() }]));
        out.push(Expr::Case(vec![x.clone(), x.clone()], vec![Clause { alts: vec![vec![p.clone(), Pattern::Discard("_".into())]], guard: None, body: l0.clone() }]));
        out.push(Expr::Case(vec![x.clone(), x.clone()], vec![Clause { alts: vec![vec![Pattern::Discard("_".into()), p.clone()]], guard: None, body: l0.clone() }]));
    }
    out.push(Expr::Block(vec![Stmt::Use { assigns: vec![], call: Expr::Call(Box::new(v("f")), vec![]) }, Stmt::Expr(l0.clone())]));
    out.push(Expr::Block(vec![Stmt::Use { assigns: vec![(Pattern::Var("u".into()), Some(int_ty())), (Pattern::Var("w".into()), None)], call: Expr::Call(Box::new(v("f")), vec![arg(x.clone())]) }, Stmt::Expr(v("u"))]));
    // the Gleam reading of `|` with several subjects: alternatives of pattern lists
    out.push(Expr::Case(vec![x.clone(), x.clone()], vec![Clause { alts: vec![vec![Pattern::Int("1".into()), Pattern::Discard("_".into())], vec![Pattern::Int("2".into()), Pattern::Var("p".into())]], guard: None, body: l0.clone() }]));
    out
}

pub fn exprs(depth: usize) -> Vec<Expr> {
    let mut cur = expr_leaves();
    let mut all = cur.clone();
    for d in 1..=depth {
        let (ops, pats, tys): (&[&'static str], Vec<Pattern>, Vec<Type>) = if d == 1 { (BINOPS, patterns(2), types(2)) } else { (BINOPS_REP, vec![], vec![]) };
        let next = expr_prods(&cur, d == 1, ops, &pats, &tys);
        all.extend(next.iter().cloned());
        cur = next;
    }
    dedup(all)
}

/// A small cross-section of the grammar: every production once, with the first leaves.
pub fn items_small() -> Vec<Item> {
    let leaves = expr_leaves();
    let es = dedup(expr_prods(&leaves[..2], false, BINOPS_REP, &patterns(1), &types(1)));
    let mut out = vec![];
    for e in es {
        if stmt_safe(&e) {
            out.push(Item::Fn { public: false, external: false, target: None, name: "h".into(), params: vec![param("x")], ret: None, body: Some(vec![Stmt::Expr(e.clone())]) });
        }
        out.push(Item::Fn { public: false, external: false, target: None, name: "h".into(), params: vec![param("x")], ret: None, body: Some(vec![Stmt::Expr(v("x")), Stmt::Let { assert: false, pat: Pattern::Var("r".into()), ann: None, value: e }]) });
    }
    for i in items(0) {
        if matches!(i, Item::TypeDef { .. } | Item::Import { .. }) {
            out.push(i);
        }
    }
    out
}

fn dedup<T: Clone + std::hash::Hash + Eq>(v: Vec<T>) -> Vec<T> {
    let mut seen = std::collections::HashSet::new();
    v.into_iter().filter(|x| seen.insert(x.clone())).collect()
}

/// Reference precedence climbing over a flat chain `e0 op1 e1 op2 e2 ...` (all left-assoc).
pub fn group_chain(operands: &[Expr], ops: &[&'static str]) -> Expr {
    fn go(operands: &[Expr], ops: &[&'static str], pos: &mut usize, min: u8) -> Expr {
        let mut lhs = operands[*pos].clone();
        while *pos < ops.len() {
            let op = ops[*pos];
            let p = prec(op);
            if p < min {
                break;
            }
            *pos += 1;
            let rhs = go(operands, ops, pos, p + 1);
            lhs = if op == "|>" { Expr::Pipe(Box::new(lhs), Box::new(rhs)) } else { Expr::Bin(op, Box::new(lhs), Box::new(rhs)) };
        }
        lhs
    }
    let mut pos = 0;
    go(operands, ops, &mut pos, 0)
}

/// Prints a flat chain without any grouping (the text whose grouping the parser must find).
pub fn flat_chain_text(operands: &[String], ops: &[&'static str]) -> String {
    let mut s = operands[0].clone();
    for (i, op) in ops.iter().enumerate() {
        s.push(' ');
        s.push_str(op);
        s.push(' ');
        s.push_str(&operands[i + 1]);
    }
    s
}

/// Items of the reference grammar (each is placed between two fixed neighbours by the check).
pub fn items(expr_depth: usize) -> Vec<Item> {
    let mut out = vec![];
    let int = int_ty();
    let tys = types(2);
    // imports
    for path in [vec!["a"], vec!["a", "b"], vec!["a", "b", "c"]] {
        let path: Vec<String> = path.into_iter().map(String::from).collect();
        for alias in [None, Some("z".to_string())] {
            let unqs: Vec<Vec<Unq>> = vec![
                vec![],
                vec![Unq { is_type: false, name: "f".into(), alias: None }],
                vec![Unq { is_type: false, name: "F".into(), alias: None }],
                vec![Unq { is_type: true, name: "T".into(), alias: None }],
                vec![Unq { is_type: false, name: "f".into(), alias: Some("g".into()) }, Unq { is_type: true, name: "T".into(), alias: Some("U".into()) }],
                vec![Unq { is_type: false, name: "F".into(), alias: Some("G".into()) }, Unq { is_type: false, name: "f".into(), alias: None }],
            ];
            for u in unqs {
                out.push(Item::Import { path: path.clone(), alias: alias.clone(), unqualified: u });
            }
        }
    }
    // constants
    for public in [false, true] {
        for ann in [None, Some(int.clone())] {
            for value in const_values() {
                out.push(Item::Const { public, name: "c".into(), ann: ann.clone(), value });
            }
        }
    }
    // custom types
    for public in [false, true] {
        for opaque in [false, true] {
            if opaque && !public {
                continue;
            }
            for params in [vec![], vec!["a".to_string()], vec!["a".to_string(), "b".to_string()]] {
                let variant_sets: Vec<Vec<Variant>> = vec![
                    vec![Variant { name: "V".into(), fields: vec![] }],
                    vec![Variant { name: "V".into(), fields: vec![(None, int.clone())] }],
                    vec![Variant { name: "V".into(), fields: vec![(Some("l".into()), int.clone())] }],
                    vec![Variant { name: "V".into(), fields: vec![(Some("l".into()), int.clone()), (None, Type::Var("a".into()))] }, Variant { name: "W".into(), fields: vec![] }],
                    vec![Variant { name: "V".into(), fields: vec![] }, Variant { name: "W".into(), fields: vec![(None, int.clone()), (Some("k".into()), int.clone())] }],
                ];
                for vs in variant_sets {
                    out.push(Item::TypeDef { public, opaque, name: "T".into(), params: params.clone(), variants: vs });
                }
            }
        }
    }
    for t in &tys {
        out.push(Item::TypeDef { public: true, opaque: false, name: "T".into(), params: vec![], variants: vec![Variant { name: "V".into(), fields: vec![(Some("l".into()), t.clone())] }] });
        out.push(Item::TypeDef { public: true, opaque: false, name: "T".into(), params: vec![], variants: vec![Variant { name: "V".into(), fields: vec![(None, t.clone()), (None, int.clone())] }] });
        out.push(Item::Alias { public: false, name: "L".into(), params: vec![], ty: t.clone() });
        out.push(Item::Alias { public: true, name: "L".into(), params: vec!["a".into()], ty: t.clone() });
        out.push(Item::Fn { public: false, external: false, target: None, name: "h".into(), params: vec![Param { label: None, name: "x".into(), ty: Some(t.clone()) }], ret: None, body: Some(vec![Stmt::Expr(v("x"))]) });
        out.push(Item::Fn { public: false, external: false, target: None, name: "h".into(), params: vec![param("x")], ret: Some(t.clone()), body: Some(vec![Stmt::Expr(v("x"))]) });
        out.push(Item::Const { public: false, name: "c".into(), ann: Some(t.clone()), value: Expr::Int("1".into()) });
    }
    // functions: parameter shapes
    let param_sets: Vec<Vec<Param>> = vec![
        vec![],
        vec![param("x")],
        vec![param("_")],
        vec![param("_x")],
        vec![Param { label: Some("l".into()), name: "x".into(), ty: None }],
        vec![Param { label: Some("l".into()), name: "_".into(), ty: None }],
        vec![Param { label: Some("l".into()), name: "x".into(), ty: Some(int.clone()) }],
        vec![param("x"), Param { label: Some("l".into()), name: "y".into(), ty: Some(int.clone()) }, param("_")],
        vec![Param { label: None, name: "x".into(), ty: Some(int.clone()) }, Param { label: None, name: "y".into(), ty: None }],
    ];
    for ps in param_sets {
        for public in [false, true] {
            for ret in [None, Some(int.clone())] {
                out.push(Item::Fn { public, external: false, target: None, name: "h".into(), params: ps.clone(), ret: ret.clone(), body: Some(vec![Stmt::Expr(Expr::Int("1".into()))]) });
            }
        }
    }
    out.push(Item::Fn { public: true, external: true, target: None, name: "h".into(), params: vec![Param { label: None, name: "x".into(), ty: Some(int.clone()) }], ret: Some(int.clone()), body: None });
    out.push(Item::Fn { public: false, external: false, target: Some("javascript".into()), name: "h".into(), params: vec![], ret: None, body: Some(vec![Stmt::Expr(Expr::Int("1".into()))]) });
    out.push(Item::Fn { public: false, external: false, target: None, name: "h".into(), params: vec![], ret: None, body: Some(vec![]) });
    // every expression derivation as a function body and as a let value
    for e in exprs(expr_depth) {
        if stmt_safe(&e) {
            out.push(Item::Fn { public: false, external: false, target: None, name: "h".into(), params: vec![param("x")], ret: None, body: Some(vec![Stmt::Expr(e.clone())]) });
        }
        out.push(Item::Fn { public: false, external: false, target: None, name: "h".into(), params: vec![param("x")], ret: None, body: Some(vec![Stmt::Let { assert: false, pat: Pattern::Var("r".into()), ann: None, value: e }, Stmt::Expr(v("r"))]) });
    }
    out
}
