pub mod parser;
pub mod positions;
