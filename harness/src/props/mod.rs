pub mod parser;
