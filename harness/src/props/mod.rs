pub mod parser;
pub mod positions;
pub mod recovery;
pub mod ide_sweep;
pub mod history;
pub mod cancel;
pub mod messages;
pub mod rename;
