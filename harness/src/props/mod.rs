pub mod parser;
pub mod positions;
pub mod recovery;
