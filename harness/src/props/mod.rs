pub mod parser;
pub mod positions;
pub mod recovery;
pub mod ide_sweep;
