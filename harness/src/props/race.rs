//! C16 — edits racing with requests never deadlock and the server converges.
//! Schedule exploration (E4, cross-process) of the real hooks-on `glas` binary: the main loop
//! and every blocking task stop at named yield points; all interleavings up to a preemption
//! bound are explored (CHESS-style iterative deviation bounding), each on a fresh server
//! process. Oracle: differential against a sequential session of the same server.
use crate::core::{Layer, Report, Tier, Violation};
use crate::lsp::inproc::tree_text;
use crate::lsp::proc::Proc;
use crate::lsp::sched::Controller;
use rayon::prelude::*;
use serde_json::{json, Value};
use std::collections::{BTreeMap, BTreeSet};
use std::sync::atomic::{AtomicU64, Ordering};
use std::sync::Mutex;
use std::time::{Duration, Instant};

#[derive(Clone, Debug)]
pub enum Msg {
    Req { method: &'static str, params: Value },
    Edit { changes: Value },
    /// an edit of the second open document (scenarios with `v2`)
    Edit2 { changes: Value },
    /// a didChange for a document the server does not track (an `untitled:` buffer)
    EditUntracked,
    /// any other notification that leaves the client's text as it is (didClose, didOpen with the
    /// text the client has at that point, ...)
    Notify { method: &'static str, params: Value },
}

#[derive(Clone, Debug)]
pub struct Scenario {
    pub name: &'static str,
    pub v1: &'static str,
    pub msgs: Vec<Msg>,
    /// text of a second document that is open as well
    pub v2: Option<&'static str>,
}

fn doc2_uri() -> String {
    format!("file://{}/other.gleam", crate::core::verif_root().join(".scratch/c16/ws").display())
}

fn doc_uri() -> String {
    format!("file://{}/race.gleam", crate::core::verif_root().join(".scratch/c16/ws").display())
}

fn tdp(l: u32, c: u32) -> Value {
    json!({"textDocument": {"uri": doc_uri()}, "position": {"line": l, "character": c}})
}

fn edit(sl: u32, sc: u32, el: u32, ec: u32, text: &str) -> Msg {
    Msg::Edit { changes: json!([{"range": {"start": {"line": sl, "character": sc}, "end": {"line": el, "character": ec}}, "text": text}]) }
}

pub fn scenarios() -> Vec<Scenario> {
    let v1 = "pub fn aaaa() -> Int {\n  bbbb(1)\n}\n\nfn bbbb(x) {\n  x + 1\n}\n";
    let v_err = "pub fn aaaa( -> Int {\n  1\n}\n";
    vec![
        Scenario { name: "hover-then-edit", v1, msgs: vec![Msg::Req { method: "textDocument/hover", params: tdp(0, 8) }, edit(0, 0, 0, 0, "// c\n\n")], v2: None },
        Scenario { name: "edit-then-hover", v1, msgs: vec![edit(0, 0, 0, 0, "// c\n\n"), Msg::Req { method: "textDocument/hover", params: tdp(2, 8) }], v2: None },
        Scenario { name: "two-edits-diagnostics", v1: v_err, msgs: vec![edit(1, 2, 1, 3, "2"), edit(1, 2, 1, 3, "3")], v2: None },
        // an edit that breaks the text, then edits that leave it as it is: the diagnostics of the
        // final text must still arrive (an edit cancels the diagnostics run of the one before)
        Scenario { name: "edit-then-noop-edit", v1, msgs: vec![edit(0, 12, 0, 13, ""), edit(0, 0, 0, 0, "")], v2: None },
        Scenario { name: "edit-then-empty-change-list", v1, msgs: vec![edit(0, 12, 0, 13, ""), Msg::Edit { changes: json!([]) }], v2: None },
        // diagnostics whose positions move with every edit: an outdated run must not be published last
        Scenario { name: "two-edits-moving-diagnostics", v1: v_err, msgs: vec![edit(0, 0, 0, 0, "\n"), edit(0, 0, 0, 0, "\n")], v2: None },
        // one notification carrying two content changes, as the last edit of the document
        Scenario { name: "multi-change-notification", v1, msgs: vec![Msg::Req { method: "textDocument/hover", params: tdp(0, 8) }, Msg::Edit { changes: json!([{"range": {"start": {"line": 0, "character": 7}, "end": {"line": 0, "character": 11}}, "text": "first"}, {"range": {"start": {"line": 0, "character": 7}, "end": {"line": 0, "character": 12}}, "text": "start"}]) }], v2: None },
        // an edit of a document the server does not track must not disturb the diagnostics of a tracked one
        Scenario { name: "edit-then-untracked-edit", v1, msgs: vec![edit(0, 12, 0, 13, ""), Msg::EditUntracked], v2: None },
        // two open documents: an edit of one cancels the running diagnostics of the other; both must end with the diagnostics of their final texts
        Scenario { name: "two-documents-edit-each", v1, msgs: vec![edit(0, 12, 0, 13, ""), Msg::Edit2 { changes: json!([{"range": {"start": {"line": 0, "character": 0}, "end": {"line": 0, "character": 0}}, "text": "// c\n"}]) }], v2: Some("pub fn other( {\n  1\n}\n") },
        // the document is closed and opened again with the same (broken) text: its diagnostics must be published again
        Scenario { name: "close-then-reopen", v1: v_err, msgs: vec![Msg::Notify { method: "textDocument/didClose", params: json!({"textDocument": {"uri": doc_uri()}}) }, Msg::Notify { method: "textDocument/didOpen", params: json!({"textDocument": {"uri": doc_uri(), "languageId": "gleam", "version": 1, "text": v_err}}) }], v2: None },
        Scenario { name: "close-reopen-then-edit-after-the-error", v1: v_err, msgs: vec![Msg::Notify { method: "textDocument/didClose", params: json!({"textDocument": {"uri": doc_uri()}}) }, Msg::Notify { method: "textDocument/didOpen", params: json!({"textDocument": {"uri": doc_uri(), "languageId": "gleam", "version": 1, "text": v_err}}) }, edit(1, 2, 1, 3, "2")], v2: None },
        Scenario { name: "refs-edit-completion", v1, msgs: vec![Msg::Req { method: "textDocument/references", params: json!({"textDocument": {"uri": doc_uri()}, "position": {"line": 4, "character": 4}, "context": {"includeDeclaration": true}}) }, edit(5, 2, 5, 3, "x * 2 + x"), Msg::Req { method: "textDocument/completion", params: tdp(1, 3) }], v2: None },
        Scenario { name: "rename-edit-tokens", v1, msgs: vec![Msg::Req { method: "textDocument/rename", params: json!({"textDocument": {"uri": doc_uri()}, "position": {"line": 4, "character": 4}, "newName": "cccc"}) }, edit(3, 0, 3, 0, "\n"), Msg::Req { method: "textDocument/semanticTokens/full", params: json!({"textDocument": {"uri": doc_uri()}}) }], v2: None },
        Scenario { name: "definition-edit-edit-tree", v1, msgs: vec![Msg::Req { method: "textDocument/definition", params: tdp(1, 3) }, edit(0, 0, 0, 0, "\n"), edit(0, 0, 1, 0, ""), Msg::Req { method: "glas/syntaxTree", params: json!({"textDocument": {"uri": doc_uri()}}) }], v2: None },
    ]
}

/// Thorough tier: every request kind x {request then edit, edit then request} as two-message
/// scenarios (the handlers differ in how long they hold the store and the snapshot).
fn product_scenarios() -> Vec<Scenario> {
    let v1 = "pub fn aaaa() -> Int {\n  bbbb(1)\n}\n\nfn bbbb(x) {\n  x + 1\n}\n";
    let td = || json!({"uri": doc_uri()});
    let kinds: Vec<(&'static str, &'static str, &'static str, Value)> = vec![
        ("hover|edit", "edit|hover", "textDocument/hover", tdp(4, 4)),
        ("definition|edit", "edit|definition", "textDocument/definition", tdp(1, 3)),
        ("references|edit", "edit|references", "textDocument/references", json!({"textDocument": td(), "position": {"line": 4, "character": 4}, "context": {"includeDeclaration": true}})),
        ("highlight|edit", "edit|highlight", "textDocument/documentHighlight", tdp(4, 4)),
        ("completion|edit", "edit|completion", "textDocument/completion", tdp(1, 3)),
        ("signatureHelp|edit", "edit|signatureHelp", "textDocument/signatureHelp", tdp(1, 7)),
        ("prepareRename|edit", "edit|prepareRename", "textDocument/prepareRename", tdp(4, 4)),
        ("rename|edit", "edit|rename", "textDocument/rename", json!({"textDocument": td(), "position": {"line": 4, "character": 4}, "newName": "cccc"})),
        ("tokens|edit", "edit|tokens", "textDocument/semanticTokens/full", json!({"textDocument": td()})),
        ("tokensRange|edit", "edit|tokensRange", "textDocument/semanticTokens/range", json!({"textDocument": td(), "range": {"start": {"line": 0, "character": 0}, "end": {"line": 3, "character": 0}}})),
        ("syntaxTree|edit", "edit|syntaxTree", "glas/syntaxTree", json!({"textDocument": td()})),
    ];
    let mut out = vec![];
    for (n1, n2, method, params) in kinds {
        // the edit appends a line at the end: positions of the request stay meaningful in both versions
        out.push(Scenario { name: n1, v1, msgs: vec![Msg::Req { method, params: params.clone() }, edit(7, 0, 7, 0, "// tail\n")], v2: None });
        out.push(Scenario { name: n2, v1, msgs: vec![edit(7, 0, 7, 0, "// tail\n"), Msg::Req { method, params }], v2: None });
    }
    out
}

#[derive(Clone, Debug)]
pub struct ChoicePoint {
    pub enabled: Vec<String>,
    pub chosen: usize,
    pub last_enabled: bool,
}

#[derive(Debug, Default)]
pub struct RunOut {
    pub points: Vec<ChoicePoint>,
    pub responses: BTreeMap<i64, Vec<Value>>,
    pub diags: Vec<Value>,
    pub diags2: Vec<Value>,
    pub final_text: Option<String>,
    pub problems: Vec<(String, String)>,
    pub trace: Vec<(String, String)>,
    pub salsa_points: u64,
}

static RUN_ID: AtomicU64 = AtomicU64::new(0);

fn record(v: Value, out: &mut RunOut, p: &mut Proc) {
    if let (Some(id), None) = (v["id"].as_i64(), v.get("method")) {
        out.responses.entry(id).or_default().push(v);
    } else if v["method"].as_str() == Some("textDocument/publishDiagnostics") {
        if v["params"]["uri"].as_str() == Some(doc_uri().as_str()) {
            out.diags.push(v["params"]["diagnostics"].clone());
        } else if v["params"]["uri"].as_str() == Some(doc2_uri().as_str()) {
            out.diags2.push(v["params"]["diagnostics"].clone());
        }
    } else if let (Some(_), Some(_)) = (v.get("id"), v["method"].as_str()) {
        let id = v["id"].clone();
        p.send(&json!({"jsonrpc": "2.0", "id": id, "result": null}));
    }
}

/// Pumps server output and controller events until `until` holds or the deadline passes.
fn pump(p: &mut Proc, ctl: Option<&mut Controller>, out: &mut RunOut, deadline: Instant, mut until: impl FnMut(&RunOut) -> bool) -> bool {
    let mut ctl = ctl;
    loop {
        if let Some(c) = ctl.as_deref_mut() {
            c.poll();
        }
        if until(out) {
            return true;
        }
        if Instant::now() >= deadline {
            return false;
        }
        match p.recv(Duration::from_millis(1)) {
            Ok(Some(v)) => record(v, out, p),
            Ok(None) => {
                out.problems.push(("server-died".into(), "server output closed".into()));
                return false;
            }
            Err(()) => {}
        }
    }
}

/// True when every thread of the server process is sleeping in a system call (parked at a
/// yield point = blocked reading the control socket; blocked on a lock = futex; idle main loop
/// = epoll). A thread that is computing, or runnable but not scheduled, is in state R.
pub(crate) fn server_quiet(pid: u32) -> bool {
    let Ok(rd) = std::fs::read_dir(format!("/proc/{pid}/task")) else { return true };
    for e in rd.flatten() {
        let Ok(stat) = std::fs::read_to_string(e.path().join("stat")) else { continue };
        let state = stat.rsplit(')').next().and_then(|r| r.trim_start().chars().next()).unwrap_or('S');
        if !matches!(state, 'S' | 'Z' | 'X' | 'I') {
            return false;
        }
    }
    true
}

/// Waits until the server has physically settled: no pending controller events, no pending
/// output, and all server threads asleep, observed twice in a row. `grace` is the minimum time
/// without any event; the physical criterion makes the result independent of machine load.
fn quiesce(p: &mut Proc, ctl: &mut Controller, out: &mut RunOut, grace: Duration) {
    let pid = p.child.id();
    let start = Instant::now();
    let mut last = Instant::now();
    let mut quiet_samples = 0;
    loop {
        // order matters: first observe that every server thread sleeps, then read the sockets:
        // whatever a sleeping thread wrote before going to sleep is then visible
        let quiet = server_quiet(pid);
        let mut any = ctl.poll() > 0;
        match p.recv(Duration::from_micros(200)) {
            Ok(Some(v)) => {
                record(v, out, p);
                any = true;
            }
            Ok(None) => return,
            Err(()) => {}
        }
        if any || !quiet {
            last = Instant::now();
            quiet_samples = 0;
        } else {
            quiet_samples += 1;
        }
        if quiet_samples >= 3 && last.elapsed() >= grace {
            return;
        }
        if start.elapsed() > Duration::from_secs(10) {
            out.problems.push(("machinery".into(), "server did not settle within 10 s".into()));
            return;
        }
    }
}

/// Sends message `i` of the scenario (document versions count the edits sent so far).
fn send_msg(p: &mut Proc, sc: &Scenario, i: usize) {
    match &sc.msgs[i] {
        Msg::Req { method, params } => {
            let id = 100 + i as i64;
            p.send(&json!({"jsonrpc": "2.0", "id": id, "method": method, "params": params}));
        }
        Msg::Edit { changes } => {
            let version = 2 + sc.msgs[..i].iter().filter(|m| matches!(m, Msg::Edit { .. })).count();
            p.send(&json!({"jsonrpc": "2.0", "method": "textDocument/didChange", "params": {"textDocument": {"uri": doc_uri(), "version": version}, "contentChanges": changes}}));
        }
        Msg::Edit2 { changes } => {
            let version = 2 + sc.msgs[..i].iter().filter(|m| matches!(m, Msg::Edit2 { .. })).count();
            p.send(&json!({"jsonrpc": "2.0", "method": "textDocument/didChange", "params": {"textDocument": {"uri": doc2_uri(), "version": version}, "contentChanges": changes}}));
        }
        Msg::EditUntracked => {
            p.send(&json!({"jsonrpc": "2.0", "method": "textDocument/didChange", "params": {"textDocument": {"uri": "untitled:Untitled-1", "version": 2 + i}, "contentChanges": [{"text": "fn u() { 1 }\n"}]}}));
        }
        Msg::Notify { method, params } => {
            p.send(&json!({"jsonrpc": "2.0", "method": method, "params": params}));
        }
    }
}

fn request_ids(sc: &Scenario) -> Vec<i64> {
    sc.msgs.iter().enumerate().filter(|(_, m)| matches!(m, Msg::Req { .. })).map(|(i, _)| 100 + i as i64).collect()
}

fn prologue(p: &mut Proc, sc: &Scenario) {
    p.send(&json!({"jsonrpc": "2.0", "id": 1, "method": "initialize", "params": {"processId": null, "rootUri": null, "capabilities": {}}}));
    p.send(&json!({"jsonrpc": "2.0", "method": "initialized", "params": {}}));
    p.send(&json!({"jsonrpc": "2.0", "method": "textDocument/didOpen", "params": {"textDocument": {"uri": doc_uri(), "languageId": "gleam", "version": 1, "text": sc.v1}}}));
}

/// Opens the second document (after the first one has its diagnostics: the opening itself is not
/// part of the race under test).
fn prologue2(p: &mut Proc, sc: &Scenario) {
    if let Some(v2) = sc.v2 {
        p.send(&json!({"jsonrpc": "2.0", "method": "textDocument/didOpen", "params": {"textDocument": {"uri": doc2_uri(), "languageId": "gleam", "version": 1, "text": v2}}}));
    }
}

pub fn run_schedule(sc: &Scenario, prefix: &[usize]) -> RunOut {
    let mut out = RunOut::default();
    let id = RUN_ID.fetch_add(1, Ordering::SeqCst);
    let sock = crate::core::verif_root().join(format!(".scratch/c16/s{}-{id}.sock", std::process::id()));
    let mut ctl = match Controller::new(sock.clone()) {
        Ok(c) => c,
        Err(e) => {
            out.problems.push(("machinery".into(), format!("cannot bind control socket: {e}")));
            return out;
        }
    };
    let mut p = match Proc::spawn(&[("GLAS_VERIF_SCHED", sock.to_str().unwrap())]) {
        Ok(p) => p,
        Err(e) => {
            out.problems.push(("machinery".into(), format!("cannot spawn server: {e}")));
            return out;
        }
    };
    // prologue, uncontrolled
    ctl.auto_release_all = true;
    prologue(&mut p, sc);
    let ok = pump(&mut p, Some(&mut ctl), &mut out, Instant::now() + Duration::from_secs(20), |o| o.responses.contains_key(&1) && !o.diags.is_empty());
    if !ok {
        out.problems.push(("machinery".into(), "prologue did not complete".into()));
        return out;
    }
    if sc.v2.is_some() {
        quiesce(&mut p, &mut ctl, &mut out, Duration::from_millis(20));
        prologue2(&mut p, sc);
        if !pump(&mut p, Some(&mut ctl), &mut out, Instant::now() + Duration::from_secs(20), |o| !o.diags2.is_empty()) {
            out.problems.push(("machinery".into(), "prologue (second document) did not complete".into()));
            return out;
        }
    }
    quiesce(&mut p, &mut ctl, &mut out, Duration::from_millis(20));
    if ctl.trace.is_empty() {
        out.problems.push(("machinery".into(), "no yield point reported during the prologue: hooks not compiled in?".into()));
        return out;
    }
    ctl.trace.clear();
    // controlled phase
    ctl.auto_release_all = false;
    // The client is a participant of its own: "C" = deliver the next message of the scenario.
    // After a send the client waits (a voluntary yield), so whoever runs next is not a preemption.
    let ids = request_ids(sc);
    let mut next_msg = 0usize;
    let mut last: Option<String> = None;
    let mut idle_rounds = 0;
    let grace = Duration::from_millis(2);
    // set when the client has just delivered an edit to a main loop that was free to take it
    let mut edit_delivered_to_free_loop = false;
    loop {
        quiesce(&mut p, &mut ctl, &mut out, grace);
        if edit_delivered_to_free_loop {
            edit_delivered_to_free_loop = false;
            // The main loop takes the store lock and stops at its first yield point unless some
            // task holds that lock across one of ITS yield points: then the edit waits for a
            // request instead of cancelling it.
            if !ctl.parked.contains_key("M") && !ctl.parked.is_empty() {
                let holders: Vec<String> = ctl.parked.iter().map(|(t, (_, pt))| format!("{t}@{pt}")).collect();
                out.problems.push(("change-blocked-by-request".into(), format!("a didChange delivered to an idle main loop did not get past the document store while {holders:?} were stopped at their yield points: a request holds the store lock across its analysis")));
                break;
            }
        }
        let mut enabled: Vec<String> = ctl.parked.keys().cloned().collect();
        if next_msg < sc.msgs.len() {
            enabled.push("C".into());
        }
        if enabled.is_empty() {
            idle_rounds += 1;
            let all = ids.iter().all(|i| out.responses.contains_key(i));
            if (all && idle_rounds >= 3) || idle_rounds >= 80 {
                break;
            }
            continue;
        }
        idle_rounds = 0;
        // canonical order: the thread that ran last first, then ascending names (M < T..)
        enabled.sort_by_key(|n| (Some(n) != last.as_ref(), if n == "C" { 0 } else if n == "M" { 1 } else { 2 }, n.trim_start_matches('T').parse::<u64>().unwrap_or(u64::MAX), n.clone()));
        let last_enabled = last.as_ref().map_or(false, |l| enabled.contains(l));
        let i = out.points.len();
        let choice = if i < prefix.len() { prefix[i] } else { 0 };
        if choice >= enabled.len() {
            out.problems.push(("machinery".into(), format!("schedule replay diverged at choice point {i}: prefix wants option {choice} of {enabled:?}")));
            break;
        }
        let t = enabled[choice].clone();
        out.points.push(ChoicePoint { enabled: enabled.clone(), chosen: choice, last_enabled });
        if t == "C" {
            // is the main loop free (not stopped anywhere, and past the end of its last handler)?
            let m_last = ctl.trace.iter().rev().find(|(th, _)| th == "M").map(|(_, pt)| pt.clone());
            let m_free = !ctl.parked.contains_key("M") && matches!(m_last.as_deref(), None | Some("apply:after"));
            edit_delivered_to_free_loop = m_free && matches!(sc.msgs[next_msg], Msg::Edit { .. } | Msg::Edit2 { .. });
            send_msg(&mut p, sc, next_msg);
            next_msg += 1;
            last = None;
        } else {
            ctl.release(&t);
            last = Some(t);
        }
        if out.points.len() > 200 {
            out.problems.push(("livelock".into(), "more than 200 scheduling decisions in one run".into()));
            break;
        }
    }
    // final phase: let everything go, then the canary must be answered
    ctl.flush();
    p.send(&json!({"jsonrpc": "2.0", "id": 900, "method": "glas/syntaxTree", "params": {"textDocument": {"uri": doc_uri()}}}));
    let want: Vec<i64> = ids.iter().copied().chain([900]).collect();
    let ok = pump(&mut p, Some(&mut ctl), &mut out, Instant::now() + Duration::from_secs(8), |o| want.iter().all(|i| o.responses.contains_key(i)));
    if !ok && !out.problems.iter().any(|x| x.0 == "server-died") {
        let missing: Vec<i64> = want.iter().copied().filter(|i| !out.responses.contains_key(i)).collect();
        out.problems.push(("deadlock-or-unanswered".into(), format!("with every thread released, requests {missing:?} (900 = canary after the schedule) are not answered within 8 s")));
    }
    quiesce(&mut p, &mut ctl, &mut out, Duration::from_millis(120));
    out.final_text = out.responses.get(&900).and_then(|v| v[0]["result"].as_str().map(tree_text));
    p.send(&json!({"jsonrpc": "2.0", "id": 901, "method": "shutdown", "params": null}));
    let _ = pump(&mut p, Some(&mut ctl), &mut out, Instant::now() + Duration::from_secs(3), |o| o.responses.contains_key(&901));
    p.send(&json!({"jsonrpc": "2.0", "method": "exit", "params": null}));
    p.close_stdin();
    let _ = p.wait_exit(Duration::from_secs(3));
    out.trace = ctl.trace.clone();
    out.salsa_points = ctl.salsa_points;
    out
}

/// The sequential session: every edit is followed by quiescence; the request is sent only then.
pub struct Sequential {
    /// request index -> result
    pub results: BTreeMap<usize, Value>,
    pub final_diags: Value,
    pub final_diags2: Value,
    pub final_text: String,
}

/// Physical settling without a controller (hooks inactive): reads the server's output until all
/// its threads sleep and nothing arrives, observed several times in a row.
fn settle(p: &mut Proc, out: &mut RunOut) {
    let pid = p.child.id();
    let start = Instant::now();
    let mut last = Instant::now();
    let mut quiet_samples = 0;
    loop {
        let quiet = server_quiet(pid);
        let mut any = false;
        match p.recv(Duration::from_micros(500)) {
            Ok(Some(v)) => {
                record(v, out, p);
                any = true;
            }
            Ok(None) => return,
            Err(()) => {}
        }
        if any || !quiet {
            last = Instant::now();
            quiet_samples = 0;
        } else {
            quiet_samples += 1;
        }
        if (quiet_samples >= 5 && last.elapsed() >= Duration::from_millis(30)) || start.elapsed() > Duration::from_secs(10) {
            return;
        }
    }
}

pub fn sequential(sc: &Scenario) -> Result<Sequential, String> {
    let mut results = BTreeMap::new();
    let mut p = Proc::spawn(&[]).map_err(|e| e.to_string())?;
    let mut out = RunOut::default();
    prologue(&mut p, sc);
    if !pump(&mut p, None, &mut out, Instant::now() + Duration::from_secs(20), |o| o.responses.contains_key(&1) && !o.diags.is_empty()) {
        return Err("sequential prologue failed".into());
    }
    if sc.v2.is_some() {
        settle(&mut p, &mut out);
        prologue2(&mut p, sc);
        if !pump(&mut p, None, &mut out, Instant::now() + Duration::from_secs(20), |o| !o.diags2.is_empty()) {
            // nothing was published for the second document: a verdict only if the server has
            // physically gone quiet (every thread asleep) - then nothing will ever come
            if server_quiet(p.child.id()) && out.problems.is_empty() {
                return Err("VIOLATION: with one document open, a second document is opened: no diagnostics are ever published for it (the server has gone quiet)".into());
            }
            return Err("sequential prologue (second document) failed".into());
        }
        settle(&mut p, &mut out);
    }
    let mut version = 1;
    for (i, m) in sc.msgs.iter().enumerate() {
        match m {
            Msg::Edit { changes } => {
                version += 1;
                p.send(&json!({"jsonrpc": "2.0", "method": "textDocument/didChange", "params": {"textDocument": {"uri": doc_uri(), "version": version}, "contentChanges": changes}}));
                // wait until the server has gone quiet (physically: every thread asleep, nothing to
                // read); whether this edit produced a fresh diagnostics message is not the session's
                // business - what counts is the last one published when everything is over
                settle(&mut p, &mut out);
            }
            Msg::EditUntracked => {
                p.send(&json!({"jsonrpc": "2.0", "method": "textDocument/didChange", "params": {"textDocument": {"uri": "untitled:Untitled-1", "version": 2 + i}, "contentChanges": [{"text": "fn u() { 1 }\n"}]}}));
                settle(&mut p, &mut out);
            }
            Msg::Notify { method, params } => {
                p.send(&json!({"jsonrpc": "2.0", "method": method, "params": params}));
                settle(&mut p, &mut out);
            }
            Msg::Edit2 { changes } => {
                let version2 = 2 + sc.msgs[..i].iter().filter(|m| matches!(m, Msg::Edit2 { .. })).count();
                p.send(&json!({"jsonrpc": "2.0", "method": "textDocument/didChange", "params": {"textDocument": {"uri": doc2_uri(), "version": version2}, "contentChanges": changes}}));
                settle(&mut p, &mut out);
            }
            Msg::Req { method, params } => {
                let id = 100 + i as i64;
                p.send(&json!({"jsonrpc": "2.0", "id": id, "method": method, "params": params}));
                if !pump(&mut p, None, &mut out, Instant::now() + Duration::from_secs(10), |o| o.responses.contains_key(&id)) {
                    return Err("no response in the sequential session".into());
                }
                results.insert(i, out.responses[&id][0].clone());
            }
        }
    }
    // let trailing diagnostics arrive
    let _ = pump(&mut p, None, &mut out, Instant::now() + Duration::from_millis(150), |_| false);
    p.send(&json!({"jsonrpc": "2.0", "id": 900, "method": "glas/syntaxTree", "params": {"textDocument": {"uri": doc_uri()}}}));
    if !pump(&mut p, None, &mut out, Instant::now() + Duration::from_secs(10), |o| o.responses.contains_key(&900)) {
        return Err("no canary answer in the sequential session".into());
    }
    let final_text = out.responses[&900][0]["result"].as_str().map(tree_text).unwrap_or_default();
    // the diagnostics of the final text are those a FRESH server publishes on opening that text
    // (what this session published last depends on its history, which is the thing under test)
    // the diagnostics of a final text are those a FRESH server publishes on opening that text
    // alone (what this session published last depends on its history, which is the thing under test)
    let fresh_diags = |text: String| -> Result<Value, String> {
        let text: &'static str = Box::leak(text.into_boxed_str());
        let fresh_sc = Scenario { name: "fresh", v1: text, msgs: vec![], v2: None };
        let mut q = Proc::spawn(&[]).map_err(|e| e.to_string())?;
        let mut fo = RunOut::default();
        prologue(&mut q, &fresh_sc);
        if !pump(&mut q, None, &mut fo, Instant::now() + Duration::from_secs(20), |o| o.responses.contains_key(&1) && !o.diags.is_empty()) {
            return Err("fresh session for the final text failed".into());
        }
        settle(&mut q, &mut fo);
        let d = fo.diags.last().cloned().unwrap_or(Value::Null);
        q.send(&json!({"jsonrpc": "2.0", "method": "exit", "params": null}));
        q.close_stdin();
        let _ = q.wait_exit(Duration::from_secs(2));
        Ok(d)
    };
    // a document closed at the end has its diagnostics cleared: the session's own last message counts
    let closed_at_end = sc.msgs.iter().rev().find_map(|m| match m { Msg::Notify { method, .. } => Some(*method == "textDocument/didClose"), _ => None }).unwrap_or(false);
    let final_diags = if closed_at_end { out.diags.last().cloned().unwrap_or(Value::Null) } else { fresh_diags(client_final_text(sc))? };
    let final_diags2 = match sc.v2 {
        Some(_) => fresh_diags(client_final_text2(sc))?,
        None => out.diags2.last().cloned().unwrap_or(Value::Null),
    };
    Ok(Sequential { results, final_diags, final_diags2, final_text })
}

fn norm(v: &Value) -> String {
    // set-like answers are compared sorted
    match v {
        Value::Array(a) => {
            let mut s: Vec<String> = a.iter().map(norm).collect();
            s.sort();
            format!("[{}]", s.join(","))
        }
        Value::Object(o) => {
            let mut s: Vec<String> = o.iter().map(|(k, v)| format!("{k}:{}", norm(v))).collect();
            s.sort();
            format!("{{{}}}", s.join(","))
        }
        other => other.to_string(),
    }
}


/// Server-level probes for C12: one request of each kind is stopped in the middle of its
/// analysis (its first cancellation checkpoint), then the client sends an edit. The edit must get
/// through the document store (it cancels the request; it does not wait for it), every request
/// is answered and the server stays alive. Returns (probe name, problems).
pub fn edit_during_request_probes() -> Vec<(String, Vec<(String, String)>)> {
    let v1 = "pub fn aaaa() -> Int {\n  bbbb(1)\n}\n\nfn bbbb(x) {\n  x + 1\n}\n";
    let td = || json!({"uri": doc_uri()});
    let kinds: Vec<(&'static str, Value)> = vec![
        ("textDocument/hover", tdp(0, 8)),
        ("textDocument/definition", tdp(1, 3)),
        ("textDocument/references", json!({"textDocument": td(), "position": {"line": 4, "character": 4}, "context": {"includeDeclaration": true}})),
        ("textDocument/documentHighlight", tdp(4, 4)),
        ("textDocument/completion", tdp(1, 3)),
        ("textDocument/signatureHelp", tdp(1, 7)),
        ("textDocument/prepareRename", tdp(4, 4)),
        ("textDocument/rename", json!({"textDocument": td(), "position": {"line": 4, "character": 4}, "newName": "cccc"})),
        ("textDocument/semanticTokens/full", json!({"textDocument": td()})),
        ("textDocument/semanticTokens/range", json!({"textDocument": td(), "range": {"start": {"line": 0, "character": 0}, "end": {"line": 3, "character": 0}}})),
        ("glas/syntaxTree", json!({"textDocument": td()})),
    ];
    let _ = std::fs::create_dir_all(crate::core::verif_root().join(".scratch/c16/ws"));
    // where the request's task stands when the edit arrives: inside its query (C, T, C, T: task
    // start -> store read -> in query), before it has read the document store (C, T, C), not started (C, C)
    let stages: [(&str, &[usize]); 3] = [("", &[0, 1, 0, 1]), (" [task before its store read]", &[0, 1, 0]), (" [task not started]", &[0, 0])];
    let jobs: Vec<(&'static str, Value, &str, &[usize])> = kinds.iter().flat_map(|(m, p)| stages.iter().map(move |(sn, pre)| (*m, p.clone(), *sn, *pre))).collect();
    jobs
        .into_par_iter()
        .map(|(method, params, stage, prefix)| {
            let sc = Scenario { name: "edit-during-request", v1, msgs: vec![Msg::Req { method, params }, edit(0, 0, 0, 0, "// c\n\n")], v2: None };
            let out = run_schedule(&sc, prefix);
            let reached = stage != "" || out.trace.iter().any(|(t, p)| t.starts_with('T') && p == "task:in_query");
            let mut problems: Vec<(String, String)> = out.problems.iter().filter(|(c, _)| c != "machinery").cloned().collect();
            for (c, d) in out.problems.iter().filter(|(c, _)| c == "machinery") {
                // a request that never enters a query (syntax tree) makes the fixed prefix diverge: not a finding
                if !d.contains("diverged") {
                    problems.push((c.clone(), d.clone()));
                }
            }
            // the answer itself: an error (cancelled) or what a sequential session answers for the
            // version the request was issued against - never a third thing such as `null`
            if !out.problems.iter().any(|p| p.0 == "machinery" || p.0 == "server-died") {
                match sequential(&sc) {
                    Ok(seq) => {
                        for (class, _, detail) in judge(&sc, &seq, &out) {
                            if class == "mixed-version-answer" || class == "duplicate-response" {
                                problems.push((class, detail));
                            }
                        }
                    }
                    Err(e) => problems.push(("machinery".into(), format!("sequential session for {method}: {e}"))),
                }
            }
            let id = 100;
            if !problems.iter().any(|p| p.0 == "server-died") && out.responses.get(&id).map_or(true, |r| r.len() != 1) {
                problems.push(("request-not-answered-once".into(), format!("{method}: {} responses", out.responses.get(&id).map_or(0, |r| r.len()))));
            }
            (format!("{method}{stage}{}", if reached { "" } else { " (no query checkpoint reached)" }), problems)
        })
        .collect()
}

/// The second document as the editor has it after all its edits.
fn client_final_text2(sc: &Scenario) -> String {
    client_text_after(sc.v2.unwrap_or(""), sc, true)
}

/// The first document as the editor has it after all edits of the scenario (reference client model).
fn client_final_text(sc: &Scenario) -> String {
    client_text_after(sc.v1, sc, false)
}

fn client_text_after(v: &str, sc: &Scenario, second: bool) -> String {
    let mut doc = crate::lsp::client::RefDoc::new(v);
    for m in &sc.msgs {
        let changes = match (m, second) {
            (Msg::Edit { changes }, false) => changes,
            (Msg::Edit2 { changes }, true) => changes,
            _ => continue,
        };
        for ch in changes.as_array().cloned().unwrap_or_default() {
            let text = ch["text"].as_str().unwrap_or("");
            match ch.get("range") {
                None => doc = crate::lsp::client::RefDoc::new(text),
                Some(r) => {
                    let g = |v: &Value| (v["line"].as_u64().unwrap_or(0) as u32, v["character"].as_u64().unwrap_or(0) as u32);
                    let (s, e) = (g(&r["start"]), g(&r["end"]));
                    if let (Some(so), Some(eo)) = (doc.offset_of(s.0, s.1), doc.offset_of(e.0, e.1)) {
                        doc.replace(so, eo, text);
                    }
                }
            }
        }
    }
    doc.without_cr()
}

pub fn judge(sc: &Scenario, seq: &Sequential, out: &RunOut) -> Vec<(String, String, String)> {
    let mut v = vec![];
    for (c, d) in &out.problems {
        v.push((c.clone(), c.clone(), d.clone()));
    }
    if out.problems.iter().any(|p| p.0 == "machinery" || p.0 == "server-died") {
        return v;
    }
    for (i, m) in sc.msgs.iter().enumerate() {
        let Msg::Req { method, .. } = m else { continue };
        let id = 100 + i as i64;
        match out.responses.get(&id) {
            None => {}
            Some(rs) => {
                if rs.len() != 1 {
                    v.push(("duplicate-response".into(), format!("{method}"), format!("{method} answered {} times", rs.len())));
                }
                let r = &rs[0];
                if r.get("error").is_some() {
                    continue;
                }
                let want = seq.results.get(&i).map(|w| norm(&w["result"])).unwrap_or_default();
                let got = norm(&r["result"]);
                if want != got {
                    let cut = |s: &str| s.chars().take(260).collect::<String>();
                    v.push(("mixed-version-answer".into(), format!("{method}"), format!("{method} (message {i} of {}) answered {} but the sequential session (all earlier edits applied, then the request) answers {}", sc.name, cut(&got), cut(&want))));
                }
            }
        }
    }
    // the client's own document (reference LSP client), not what another server session says
    let client_text = client_final_text(sc);
    if seq.final_text != client_text {
        v.push(("text-diverged".into(), "final-text-sequential".into(), format!("even in the sequential session the server analyses {:?}, the client's final text is {client_text:?}", seq.final_text)));
    }
    if let Some(t) = &out.final_text {
        if *t != client_text {
            v.push(("text-diverged".into(), "final-text".into(), format!("after quiescence the server analyses {t:?}, the client's final text is {client_text:?}")));
        }
    }
    let last = out.diags.last().cloned().unwrap_or(Value::Null);
    if norm(&last) != norm(&seq.final_diags) {
        let n = |v: &Value| v.as_array().map_or(0, |a| a.len());
        v.push(("stale-diagnostics".into(), "last-diagnostics".into(), format!("the last diagnostics published for the document have {} entries, those of the final text have {} (published sequence lengths: {:?})", n(&last), n(&seq.final_diags), out.diags.iter().map(n).collect::<Vec<_>>())));
    }
    if sc.v2.is_some() {
        let last2 = out.diags2.last().cloned().unwrap_or(Value::Null);
        if norm(&last2) != norm(&seq.final_diags2) {
            let n = |v: &Value| v.as_array().map_or(0, |a| a.len());
            v.push(("stale-diagnostics".into(), "last-diagnostics-of-the-other-document".into(), format!("the last diagnostics published for the second open document have {} entries, those of its final text have {} (published sequence lengths: {:?})", n(&last2), n(&seq.final_diags2), out.diags2.iter().map(n).collect::<Vec<_>>())));
        }
    }
    v
}

pub fn run(tier: Tier) -> i32 {
    let mut rep = Report::new("C16", tier);
    let _ = std::fs::create_dir_all(crate::core::verif_root().join(".scratch/c16/ws"));
    if !std::path::Path::new(&crate::lsp::proc::server_bin()).exists() {
        rep.machinery("server binary not built");
        return rep.finish();
    }
    let bound = tier.pick(1usize, 2usize);
    // the four-message scenario multiplies the schedule count by ~10: thorough tier only
    let mut scs: Vec<Scenario> = scenarios().into_iter().filter(|s| tier == Tier::Thorough || s.msgs.len() <= 3).collect();
    if tier == Tier::Thorough {
        scs.extend(product_scenarios());
    }
    let mut distinct_traces: BTreeSet<String> = BTreeSet::new();
    let mut outcome_classes: BTreeSet<String> = BTreeSet::new();
    let mut total_runs = 0u64;
    let tier_bound = bound;
    for sc in &scs {
        // the four-message scenario has ~10x the schedules per bound: it is explored to bound 1
        let bound = if sc.msgs.len() > 3 { 1 } else { tier_bound };
        let seq = match sequential(sc) {
            Ok(s) => s,
            Err(e) if e.starts_with("VIOLATION: ") => {
                rep.violation(Violation { class: "no-diagnostics-for-an-open-document".into(), key: format!("{}|sequential session", sc.name), witness: json!({"scenario": sc.name, "choices": [], "threads": []}), detail: format!("[{}] even without any race: {}", sc.name, &e["VIOLATION: ".len()..]) });
                continue;
            }
            Err(e) => {
                rep.machinery(format!("{}: {e}", sc.name));
                continue;
            }
        };
        // iterative deviation bounding, breadth by rounds so that runs are parallel
        let mut frontier: Vec<Vec<usize>> = vec![vec![]];
        let mut l = Layer { name: format!("schedules:{}", sc.name), exhaustive: true, ..Default::default() };
        let viols: Mutex<Vec<Violation>> = Mutex::new(vec![]);
        let mut max_points = 0;
        let mut rounds = 0;
        while !frontier.is_empty() {
            rounds += 1;
            let results: Vec<(Vec<usize>, RunOut)> = frontier.par_iter().map(|pre| (pre.clone(), run_schedule(sc, pre))).collect();
            let mut next = vec![];
            for (pre, out) in results {
                total_runs += 1;
                l.executions += 1;
                l.states += out.points.len() as u64 + 1;
                l.transitions += out.trace.len() as u64;
                max_points = max_points.max(out.points.len());
                distinct_traces.insert(format!("{}:{:?}", sc.name, out.trace));
                let fails = judge(sc, &seq, &out);
                if fails.is_empty() {
                    outcome_classes.insert("ok".into());
                }
                let choices: Vec<usize> = out.points.iter().map(|p| p.chosen).collect();
                for (class, key, detail) in fails {
                    outcome_classes.insert(class.clone());
                    if class == "machinery" {
                        rep.machinery(format!("{} schedule {choices:?}: {detail}", sc.name));
                        continue;
                    }
                    let sched: Vec<String> = out.points.iter().map(|p| p.enabled[p.chosen].clone()).collect();
                    viols.lock().unwrap().push(Violation { class, key: format!("{}|{key}", sc.name), witness: json!({"scenario": sc.name, "choices": choices, "threads": sched}), detail: format!("[{}] schedule {sched:?} (realised points {:?}): {detail}", sc.name, out.trace) });
                }
                // children: deviate at every later choice point within the preemption bound
                let mut pre_cost = 0usize;
                for (i, cp) in out.points.iter().enumerate() {
                    if i >= pre.len() {
                        for alt in 1..cp.enabled.len() {
                            let cost = pre_cost + if cp.last_enabled { 1 } else { 0 };
                            if cost <= bound {
                                let mut child: Vec<usize> = choices[..i].to_vec();
                                child.push(alt);
                                next.push(child);
                            }
                        }
                    }
                    if cp.chosen != 0 && cp.last_enabled {
                        pre_cost += 1;
                    }
                }
            }
            frontier = next;
            if rounds > 40 {
                rep.machinery(format!("{}: exploration did not terminate in 40 rounds", sc.name));
                break;
            }
        }
        // keep the shortest witness per key
        let mut vs = viols.into_inner().unwrap();
        vs.sort_by_key(|v| v.witness["choices"].as_array().map_or(0, |a| a.len()));
        let mut seen = BTreeSet::new();
        for v in vs {
            if seen.insert(format!("{}|{}", v.class, v.key)) {
                rep.violation(v);
            }
        }
        l.bound = format!("all interleavings of the client's sends (C), the main loop's and the blocking tasks' yield points with <= {bound} preemptions (a send is a voluntary yield of the client); {} messages ({}); longest run {max_points} scheduling decisions; {rounds} deviation rounds", sc.msgs.len(), sc.msgs.iter().map(|m| match m { Msg::Req { method, .. } => method.rsplit('/').next().unwrap_or(method).to_string(), Msg::Edit { .. } => "didChange".into(), Msg::Edit2 { .. } => "didChange(other document)".into(), Msg::EditUntracked => "didChange(untracked document)".into(), Msg::Notify { method, .. } => method.rsplit('/').next().unwrap_or(method).to_string() }).collect::<Vec<_>>().join(", "));
        rep.layer(l);
    }
    rep.distinct_nontrivial = distinct_traces.len() as u64;
    rep.distinct_outcomes = outcome_classes.len() as u64;
    rep.rule = "a schedule = sequence of thread releases at yield points; non-trivial/distinct = distinct realised point sequences".into();
    rep.sample(json!({"scenario": "hover-then-edit", "threads": ["T1", "M", "M", "T1"]}));
    rep.assumptions = vec!["scheduling points are the hook lines (store update/release, apply before/after, task start/store read/end); salsa checkpoints inside tasks are released immediately".into(), "a released thread that does not reach its next point within the grace period is treated as blocked (realised order is what is recorded)".into()];
    rep.extra.insert("runs".into(), json!(total_runs));
    rep.guard(total_runs > 20, "more than 20 schedules explored");
    rep.guard(distinct_traces.len() > 5, "more than 5 distinct realised interleavings");
    rep.finish()
}

pub fn replay(w: &Value) -> Vec<String> {
    let _ = std::fs::create_dir_all(crate::core::verif_root().join(".scratch/c16/ws"));
    let mut scs = scenarios();
    scs.extend(product_scenarios());
    let Some(sc) = scs.iter().find(|s| Some(s.name) == w["scenario"].as_str()) else { return vec!["unknown scenario".into()] };
    let choices: Vec<usize> = w["choices"].as_array().map(|a| a.iter().filter_map(|x| x.as_u64()).map(|x| x as usize).collect()).unwrap_or_default();
    let seq = match sequential(sc) {
        Ok(s) => s,
        Err(e) => return vec![format!("machinery: {e}")],
    };
    let out = run_schedule(sc, &choices);
    judge(sc, &seq, &out).into_iter().map(|(c, _, d)| format!("{c}: {d}")).collect()
}
