//! C10 (every query answers), C20 (every reported range lies inside its document) and C06
//! (references / goto / highlight are consistent views): exhaustive single-edit damage of
//! base workspaces x every nearby offset x every query, on the real `ide::Analysis`.
use crate::ana::sweep::{self, run_query, Outcome, Q, ALL_Q};
use crate::ana::ws::{FileInfo, Workspace, WsFile, WsPackage};
use crate::core::supervise;
use crate::core::{Layer, Report, Tier, Violation};
use rayon::prelude::*;
use serde_json::{json, Value};
use std::collections::{BTreeMap, BTreeSet};
use std::time::Duration;
use syntax::{SyntaxKind, TextRange};

#[derive(Clone, Copy, PartialEq, Eq, Debug)]
pub enum Which {
    C10,
    C20,
    C06,
}

impl Which {
    pub fn name(self) -> &'static str {
        match self {
            Which::C10 => "C10",
            Which::C20 => "C20",
            Which::C06 => "C06",
        }
    }
}

fn base(name: &str) -> String {
    let p = crate::core::verif_root().join("harness/bases").join(name);
    std::fs::read_to_string(&p).unwrap_or_else(|_| panic!("missing base file {}", p.display()))
}

pub fn base_workspaces() -> Vec<(String, Workspace)> {
    let w1 = Workspace {
        packages: vec![WsPackage {
            name: "app".into(),
            files: vec![
                WsFile { rel: "src/main.gleam".into(), text: base("w1_main.gleam") },
                WsFile { rel: "src/shapes.gleam".into(), text: base("w1_shapes.gleam") },
                WsFile { rel: "src/util/helpers.gleam".into(), text: base("w1_helpers.gleam") },
            ],
            deps: vec![],
            is_local: true,
        }],
    };
    let w2 = Workspace::single(&[("rec", &base("w2_rec.gleam"))]);
    let w3 = Workspace {
        packages: vec![
            WsPackage { name: "app".into(), files: vec![WsFile { rel: "src/app.gleam".into(), text: base("w3_app.gleam") }], deps: vec![1], is_local: true },
            WsPackage { name: "json".into(), files: vec![WsFile { rel: "src/json.gleam".into(), text: base("w3_dep.gleam") }], deps: vec![], is_local: false },
        ],
    };
    // a type whose fields are used in a module that never imports the declaring module
    let w4 = Workspace {
        packages: vec![WsPackage {
            name: "app".into(),
            files: vec![
                WsFile { rel: "src/app.gleam".into(), text: base("w4_app.gleam") },
                WsFile { rel: "src/factory.gleam".into(), text: base("w4_factory.gleam") },
                WsFile { rel: "src/shapes.gleam".into(), text: base("w4_shapes.gleam") },
            ],
            deps: vec![],
            is_local: true,
        }],
    };
    // non-ASCII text in comments and strings, the last character of the file is multi-byte
    let w5 = Workspace {
        packages: vec![
            WsPackage { name: "app".into(), files: vec![WsFile { rel: "src/uni.gleam".into(), text: base("w5_unicode.gleam") }], deps: vec![1], is_local: true },
            WsPackage { name: "gleam_stdlib".into(), files: vec![WsFile { rel: "src/gleam/io.gleam".into(), text: "pub fn println(s: String) -> Nil {\n  Nil\n}\n".into() }], deps: vec![], is_local: false },
        ],
    };
    vec![("w1".into(), w1), ("w2".into(), w2), ("w3".into(), w3), ("w4".into(), w4), ("w5".into(), w5)]
}

/// Hand-written pathological workspaces (each a known risk shape).
pub fn pathological() -> Vec<(String, Workspace)> {
    let s = |name: &str, mods: &[(&str, &str)]| (name.to_string(), Workspace::single(mods));
    vec![
        // byte-identical modules (copied files, generated stubs): equal content must not make two
        // files one for any query
        s(
            "byte-identical-modules",
            &[
                ("twin_a", "import lib\npub type Pt { Pt(x: Int) }\npub const unit = 1\npub fn mk(n) { let p = Pt(n) lib.show(p.x + unit) }\n"),
                ("twin_b", "import lib\npub type Pt { Pt(x: Int) }\npub const unit = 1\npub fn mk(n) { let p = Pt(n) lib.show(p.x + unit) }\n"),
                ("deep/twin_c", "import lib\npub type Pt { Pt(x: Int) }\npub const unit = 1\npub fn mk(n) { let p = Pt(n) lib.show(p.x + unit) }\n"),
                ("lib", "pub fn show(n: Int) { n }\n"),
                ("user", "import twin_a\nimport twin_b\npub fn both() { #(twin_a.mk(1), twin_b.mk(2), twin_a.Pt(3), twin_b.unit) }\n"),
            ],
        ),
        // the same names declared in two modules and used OUTSIDE function bodies (type fields,
        // alias bodies, constant initialisers) in several other modules, unqualified and qualified
        s(
            "module-level-twins",
            &[
                ("p", "pub type T { A }\npub const c = 1\npub fn f() { 1 }\n"),
                ("q", "pub type T { B }\npub const c = 2\npub fn f() { 2 }\n"),
                ("u1", "import p.{type T, c, f}\npub type U1 { U1(x: T) }\npub type Al1 = T\npub const k1 = c\npub const h1 = f\npub fn g1(t: T) { c }\n"),
                ("u2", "import q.{type T, c, f}\npub type U2 { U2(x: T) }\npub type Al2 = T\npub const k2 = c\npub const h2 = f\npub fn g2(t: T) { c }\n"),
                ("u3", "import p\nimport q\npub type U3 { U3(x: p.T, y: q.T) }\npub type Al3 = q.T\npub const k3 = q.c\npub const k4 = p.c\npub const h3 = q.f\n"),
                ("a0", "import q\npub type U4 { U4(y: q.T) }\npub type Al4 = q.T\npub const k5 = q.c\n"),
                ("z9", "import p\npub type U5 { U5(y: p.T) }\npub type Al5 = p.T\npub const k6 = p.c\n"),
            ],
        ),
        s("extra-clause-pattern", &[("m", "fn f() { case 1 { x, y -> y } }")]),
        s("missing-clause-pattern", &[("m", "fn f() { case 1, 2 { x -> x } }")]),
        s("unequal-alternatives", &[("m", "fn f(v) { case v { #(a, _) | #(_, b) -> a } }")]),
        s("self-import", &[("a", "import a\npub fn f() { a.f() }")]),
        s("self-import-unqualified", &[("a", "import a.{f}\npub fn f() { f() }")]),
        s("cycle-2", &[("a", "import b\npub fn f() { b.g() }"), ("b", "import a\npub fn g() { a.f() }")]),
        s("cycle-2-unqualified", &[("a", "import b.{g}\npub fn f() { g() }"), ("b", "import a.{f}\npub fn g() { f() }")]),
        s("cycle-3", &[("a", "import b\npub fn f() { b.g() }"), ("b", "import c\npub fn g() { c.h() }"), ("c", "import a\npub fn h() { a.f() }")]),
        s("cycle-types", &[("a", "import b\npub type A { A(x: b.B) }"), ("b", "import a\npub type B { B(y: a.A) }")]),
        s("unknown-import", &[("a", "import nope\nimport nope2.{x, type Y}\npub fn f(y: Y) { nope.g(x) }")]),
        s("duplicate-import", &[("a", "import b\nimport b\nimport b as c\npub fn f() { b.g() c.g() }"), ("b", "pub fn g() { 1 }")]),
        s("private-import", &[("a", "import b.{g, type T, K}\npub fn f(t: T) { g() K }"), ("b", "fn g() { 1 }\ntype T { K }")]),
        s("duplicate-defs", &[("m", "fn f() { 1 }\nfn f() { \"s\" }\ntype T { A }\ntype T { A }\nconst c = 1\nconst c = 2\nfn g() { f() c A }")]),
        s("duplicate-type-visibility", &[("a", "import m.{type S, type L}\npub fn g(x: S, y: L) { #(x, y) }"), ("m", "pub type S { A }\ntype S\npub fn f(s: S) { s }\ntype L = Int\npub type L = Float\npub fn h(l: L) { l }")]),
        s("duplicate-params", &[("m", "fn f(a, a, l a: Int, l b: Int) { a + b }\nfn g() { f(1, 2, l: 3, l: 4) }")]),
        s("alias-cycle", &[("m", "type A = B\ntype B = A\ntype C = C\nfn f(x: A, y: C) { x }")]),
        s("alias-generic", &[("m", "type A(t) = List(t)\nfn f(x: A(Int), y: A) { x }")]),
        s("wrong-arity", &[("m", "fn f(a) { f() f(1, 2) f(a: 1) }\ntype T { T(x: Int) }\nfn g() { T() T(1, 2) T(y: 1) T(..T) }")]),
        s("field-access-nonsense", &[("m", "fn f(a) { a.b.c 1.x \"s\".y f.z f().w a.0.1 #(1).5 }")]),
        s("labels-everywhere", &[("m", "fn f(a b, c d) { f(b: 1, d: 2) f(d: 2, b: 1) f(x: 1) }")]),
        s("use-shapes", &[("m", "fn f(g) { use <- g use a <- g() use a, b, c <- g(1) use #(x, y) <- g a }")]),
        s("pipe-shapes", &[("m", "fn f(a) { a |> f |> f() |> f(_) |> f(1, _) |> fn(x) { x } |> a.b |> Ok }")]),
        s("pattern-shapes", &[("m", "type T { A(x: Int, y: Int) }\nfn f(v) { let A(x: ..) = v let A(..) = v let A(y: 1, x: a) = v let [..] = v let [.., a] = v let \"a\" <> _ = v let #() = v let <<>> = v v }")]),
        s("empty", &[("m", "")]),
        s("only-trivia", &[("m", "// c\n/// d\n//// m\n\n")]),
        s("unterminated", &[("m", "fn f() { \"abc\n")]),
        s("non-ascii", &[("m", "// é😀\nfn f() { let é = \"€😀\" 😀 f }")]),
        s("const-shapes", &[("m", "const a = b\nconst b = a\nconst c: Int = \"s\"\nconst d = #(1, [2], f)\nfn f() { a }")]),
        s("type-var-shapes", &[("m", "type T(a, a) { T(a, b) }\nfn f(x: T(Int), y: T(Int, Int, Int), z: a) -> b { x }")]),
        s("recursion-generic", &[("m", "fn a(x) { b(x) }\nfn b(y) { a(y) }\nfn c(z) { #(a(z), b(z), c) }")]),
        s("toplevel-junk", &[("m", "let x = 1\ncase x { }\n1 + 2\npub pub fn\n@external(erlang)\n@target\nfn")]),
        s("gleam-toml-queries", &[("m", "pub fn f() { 1 }")]),
    ]
}

const QUICK_SYMS: &[&str] = &["(", ")", "{", "}", ",", ".", ":", "->", "=", "|", "#", "..", "a", "A", "1", "fn", "case", "$"];

pub struct Variant {
    pub desc: String,
    pub ws: Workspace,
    pub pkg: usize,
    pub file: usize,
    pub focus: usize,
}

fn with_text(ws: &Workspace, pkg: usize, file: usize, text: String) -> Workspace {
    let mut w = ws.clone();
    w.packages[pkg].files[file].text = text;
    w
}

/// All single-edit variants of one file of a workspace.
pub fn variants_of(name: &str, ws: &Workspace, pkg: usize, file: usize, tier: Tier, chars: bool) -> Vec<Variant> {
    let text = ws.packages[pkg].files[file].text.clone();
    let rel = ws.packages[pkg].files[file].rel.clone();
    let mut out = vec![];
    let sigma_full = crate::core::alphabet::sigma();
    let syms: Vec<&str> = if tier == Tier::Thorough { sigma_full } else { QUICK_SYMS.to_vec() };
    let toks: Vec<(usize, usize)> = syntax::lexer::GleamLexer::new(&text)
        .filter(|t| !t.kind.is_trivia())
        .map(|t| (usize::from(t.range.start()), usize::from(t.range.end())))
        .collect();
    let mut push = |desc: String, t: String, focus: usize| {
        out.push(Variant { desc: format!("{name}:{rel}: {desc}"), ws: with_text(ws, pkg, file, t), pkg, file, focus });
    };
    for (i, &(s, e)) in toks.iter().enumerate() {
        push(format!("delete token {i} {:?}", &text[s..e]), format!("{}{}", &text[..s], &text[e..]), s);
        push(format!("truncate before token {i}"), text[..s].to_string(), s);
        for sym in &syms {
            push(format!("insert {sym:?} before token {i}"), format!("{} {sym} {}", &text[..s], &text[s..]), s + 1);
            push(format!("replace token {i} {:?} by {sym:?}", &text[s..e]), format!("{} {sym} {}", &text[..s], &text[e..]), s + 1);
        }
    }
    for sym in &syms {
        push(format!("append {sym:?}"), format!("{text} {sym}"), text.len());
    }
    // duplicate each top-level item
    let p = syntax::parse_module(&text);
    for (i, st) in p.root().statements().enumerate() {
        use syntax::ast::AstNode;
        let r = st.syntax().text_range();
        let (s, e) = (usize::from(r.start()), usize::from(r.end()));
        push(format!("duplicate item {i}"), format!("{}\n{}\n{}", &text[..e], &text[s..e], &text[e..]), e + 1);
        push(format!("remove item {i}"), format!("{}{}", &text[..s], &text[e..]), s);
    }
    push("empty file".into(), String::new(), 0);
    // the file as some editors save it: with a byte order mark in front
    push("byte order mark prepended".into(), format!("{}{text}", '\u{feff}'), 3);
    if chars {
        let bounds: Vec<usize> = (0..text.len()).filter(|&i| text.is_char_boundary(i)).collect();
        for &b in &bounds {
            let c = text[b..].chars().next().unwrap();
            push(format!("delete char at {b}"), format!("{}{}", &text[..b], &text[b + c.len_utf8()..]), b);
            // every prefix of the file (the text while it is being typed)
            push(format!("prefix of {} bytes", b + c.len_utf8()), text[..b + c.len_utf8()].to_string(), b);
            // one multi-byte character at every boundary in both tiers (after a backslash, inside
            // identifiers, between operators ...), the longer list in the thorough tier
            if tier != Tier::Thorough {
                push(format!("insert char \"€\" at {b}"), format!("{}€{}", &text[..b], &text[b..]), b);
            }
            if tier == Tier::Thorough {
                for ch in ["\"", "/", "😀", "é", "€", "\\", "\n", "0", "_", "A", ".", "-", "<"] {
                    push(format!("insert char {ch:?} at {b}"), format!("{}{ch}{}", &text[..b], &text[b..]), b);
                }
            }
        }
    }
    out
}

/// Offsets to query: all token boundaries of the focus file near the focus, a stride elsewhere.
fn offsets_for(files: &[FileInfo], focus_file: usize, focus: usize, tier: Tier) -> Vec<(usize, u32)> {
    let mut out = vec![];
    let near = tier.pick(10usize, 24usize);
    for (fi, f) in files.iter().enumerate() {
        if !f.is_module {
            out.push((fi, 0));
            continue;
        }
        let b = sweep::token_boundaries(&f.text);
        if fi == focus_file {
            let idx = b.iter().position(|&o| o as usize >= focus).unwrap_or(b.len().saturating_sub(1));
            let lo = idx.saturating_sub(near);
            let hi = (idx + near).min(b.len());
            for (i, &o) in b.iter().enumerate() {
                if (i >= lo && i < hi) || i % tier.pick(9, 3) == 0 || i + 1 == b.len() {
                    out.push((fi, o));
                }
            }
        } else {
            for (i, &o) in b.iter().enumerate() {
                if i % tier.pick(11, 4) == 0 || i + 1 == b.len() {
                    out.push((fi, o));
                }
            }
        }
    }
    out
}

pub struct Finding {
    pub class: String,
    pub key: String,
    pub detail: String,
    pub query: String,
    pub file: usize,
    pub off: u32,
}

fn occurrence_kind(text: &str, start: u32) -> String {
    let p = syntax::parse_module(text);
    let Some(t) = p.syntax_node().token_at_offset(start.into()).right_biased() else { return "?".into() };
    t.parent_ancestors().take(3).map(|n| format!("{:?}", n.kind())).collect::<Vec<_>>().join("<")
}

fn ident_occurrences(text: &str) -> Vec<(u32, u32, String)> {
    let p = syntax::parse_module(text);
    p.syntax_node()
        .descendants_with_tokens()
        .filter_map(|e| e.into_token())
        .filter(|t| matches!(t.kind(), SyntaxKind::IDENT | SyntaxKind::U_IDENT))
        .filter(|t| t.parent().map_or(false, |p| matches!(p.kind(), SyntaxKind::NAME | SyntaxKind::NAME_REF | SyntaxKind::TYPE_NAME | SyntaxKind::LABEL)))
        .map(|t| (u32::from(t.text_range().start()), u32::from(t.text_range().end()), t.text().to_string()))
        .collect()
}

/// Evaluates one workspace: (queries run, findings for the selected property).
pub fn eval(which: Which, ws: &Workspace, focus_file_global: Option<(usize, usize)>, tier: Tier) -> (u64, u64, Vec<Finding>) {
    let files = ws.files();
    let mut findings = vec![];
    let host = match crate::core::catch(|| ws.host()) {
        Ok(h) => h,
        Err(m) => {
            if which == Which::C10 {
                findings.push(Finding { class: "panic".into(), key: format!("apply_change|{}", crate::core::panic_class(&m)), detail: format!("building the workspace panicked: {m}"), query: "apply_change".into(), file: 0, off: 0 });
            }
            return (0, 0, findings);
        }
    };
    let an = host.snapshot();
    let tb = sweep::tok_bounds(&files);
    let mut n = 0u64;
    let mut ranges_checked = 0u64;
    match which {
        Which::C10 | Which::C20 => {
            let (ff, fo) = focus_file_global.unwrap_or((0, 0));
            for (fi, off) in offsets_for(&files, ff, fo, tier) {
                let f = &files[fi];
                for &q in ALL_Q {
                    if !sweep::positional(q) && off != 0 {
                        continue;
                    }
                    n += 1;
                    let a = run_query(&an, q, f.id, off);
                    match which {
                        Which::C10 => {
                            if let Outcome::Panic(m) = &a.outcome {
                                findings.push(Finding { class: "panic".into(), key: m.chars().take(90).collect::<String>(), detail: format!("{q:?} at {}:{off} panicked: {m}", f.rel), query: format!("{q:?}"), file: fi, off });
                            }
                        }
                        _ => {
                            for r in &a.ranges {
                                ranges_checked += 1;
                                if let Some(v) = sweep::range_violation(&files, &tb, r) {
                                    findings.push(Finding { class: "range".into(), key: format!("{}|{}", r.what, {
                                        // the kind of defect, without the offsets of this particular witness
                                        let tail = v.split(':').nth(1).unwrap_or("").trim();
                                        let words: Vec<&str> = tail.split(' ').filter(|w| !w.chars().next().map_or(false, |c| c.is_ascii_digit() || c == '(' || c == '"')).take(4).collect();
                                        words.join(" ")
                                    }), detail: format!("{q:?} at {}:{off}: {v}", f.rel), query: format!("{q:?}"), file: fi, off });
                                }
                            }
                        }
                    }
                }
            }
        }
        Which::C06 => {
            // relational invariants over every identifier occurrence
            type Tgt = (ide::FileId, TextRange);
            let mut goto: BTreeMap<(usize, u32), Option<Tgt>> = BTreeMap::new();
            let mut refs: BTreeMap<(usize, u32), Option<Vec<(ide::FileId, u32, u32)>>> = BTreeMap::new();
            let mut occs: Vec<(usize, u32, u32, String)> = vec![];
            for (fi, f) in files.iter().enumerate() {
                if !f.is_module {
                    continue;
                }
                for (s, e, t) in ident_occurrences(&f.text) {
                    occs.push((fi, s, e, t));
                }
            }
            let mut bad = |class: &str, _name: String, detail: String, fi: usize, off: u32, findings: &mut Vec<Finding>| {
                // key: the syntactic position of the occurrence (node-kind chain), not its spelling
                let key = occurrence_kind(&files[fi].text, off);
                findings.push(Finding { class: class.into(), key, detail, query: "refs/goto/highlight".into(), file: fi, off });
            };
            for (fi, s, _e, _t) in &occs {
                let f = &files[*fi];
                n += 3;
                let pos = ide::FilePos::new(f.id, (*s).into());
                let g = crate::core::catch(|| an.goto_definition(pos));
                let r = crate::core::catch(|| an.references(pos));
                let (Ok(Ok(g)), Ok(Ok(r))) = (g, r) else { continue };
                let gt = match g {
                    Some(ide::GotoDefinitionResult::Targets(ts)) if ts.len() == 1 => Some((ts[0].file_id, ts[0].focus_range)),
                    _ => None,
                };
                goto.insert((*fi, *s), gt);
                refs.insert((*fi, *s), r.map(|v| {
                    let mut v: Vec<_> = v.into_iter().map(|fr| (fr.file_id, u32::from(fr.range.start()), u32::from(fr.range.end()))).collect();
                    v.sort();
                    v
                }));
            }
            let occ_at = |file: ide::FileId, s: u32, e: u32| -> Option<&(usize, u32, u32, String)> { occs.iter().find(|o| files[o.0].id == file && o.1 == s && o.2 == e) };
            for (fi, s, e, t) in &occs {
                let f = &files[*fi];
                let Some(Some(rs)) = refs.get(&(*fi, *s)) else { continue };
                // (3) no duplicates
                let set: BTreeSet<_> = rs.iter().collect();
                if set.len() != rs.len() {
                    bad("refs-duplicate", format!("{t}"), format!("references at {}:{s} lists an occurrence twice: {rs:?}", f.rel), *fi, *s, &mut findings);
                }
                // (6) every element is an identifier occurrence token
                for &(rf, a, b) in rs {
                    if occ_at(rf, a, b).is_none() {
                        let txt = files.iter().find(|x| x.id == rf).map(|x| x.text.get(a as usize..b as usize).unwrap_or("?").to_string()).unwrap_or_default();
                        bad("refs-not-identifier", format!("{:?}", txt.chars().take(12).collect::<String>()), format!("references at {}:{s} ({t}) lists {a}..{b} = {txt:?}, which is not one identifier token", f.rel), *fi, *s, &mut findings);
                    }
                }
                // (4) asking from any listed occurrence gives the same set
                for &(rf, a, b) in rs {
                    if let Some(o2) = occ_at(rf, a, b) {
                        if let Some(r2) = refs.get(&(o2.0, o2.1)) {
                            if r2.as_ref() != Some(rs) {
                                bad("refs-not-stable", format!("{t}"), format!("references from {}:{s} ({t}) = {rs:?} but from listed occurrence {}:{a} = {r2:?}", f.rel, files[o2.0].rel), *fi, *s, &mut findings);
                                break;
                            }
                        }
                    }
                }
                // (5) highlight = references restricted to this file
                n += 1;
                if let Ok(Ok(h)) = crate::core::catch(|| an.highlight_related(ide::FilePos::new(f.id, (*s).into()))) {
                    let mut hs: Vec<(u32, u32)> = h.iter().map(|x| (u32::from(x.range.start()), u32::from(x.range.end()))).collect();
                    hs.sort();
                    let hdup = hs.windows(2).any(|w| w[0] == w[1]);
                    let want: Vec<(u32, u32)> = rs.iter().filter(|x| x.0 == f.id).map(|x| (x.1, x.2)).collect();
                    if hs != want || hdup {
                        bad("highlight-mismatch", format!("{t}"), format!("highlight at {}:{s} ({t}) = {hs:?}, references in this file = {want:?}", f.rel), *fi, *s, &mut findings);
                    }
                }
                // (1),(2) with the declaration this occurrence resolves to
                if let Some(Some((tf, focus))) = goto.get(&(*fi, *s)) {
                    // the declaration's own name: an occurrence with this spelling inside the focus range
                    let decl = occs.iter().find(|o| files[o.0].id == *tf && o.3 == *t && focus.contains_range(TextRange::new(o.1.into(), o.2.into())));
                    if let Some(d) = decl {
                        // "that declaration's references" = what references answers at the declaration's
                        // own name; no answer there means nothing is listed
                        let empty = vec![];
                        if let Some(rd) = refs.get(&(d.0, d.1)).map(|r| r.as_ref().unwrap_or(&empty)) {
                            let ro = refs.get(&(*fi, *s)).and_then(|r| r.as_ref()).unwrap_or(&empty);
                            if ro != rd {
                                bad("refs-differ-from-declaration", format!("{t}"), format!("references asked at {}:{s} ({t}) = {ro:?} but asked at its declaration {}:{} = {rd:?}", f.rel, files[d.0].rel, d.1), *fi, *s, &mut findings);
                            }
                            if !rd.contains(&(f.id, *s, *e)) {
                                bad("goto-without-reference", format!("{t}"), format!("{}:{s} ({t}) resolves to the declaration at {}:{} but is not among its references {rd:?}", f.rel, files[d.0].rel, d.1), *fi, *s, &mut findings);
                            }
                            if !rd.contains(&(files[d.0].id, d.1, d.2)) {
                                bad("declaration-not-in-own-references", format!("{t}"), format!("declaration {} at {}:{} is missing from its own references {rd:?}", t, files[d.0].rel, d.1), d.0, d.1, &mut findings);
                            }
                            for &(rf, a, b) in rd {
                                if let Some(o2) = occ_at(rf, a, b) {
                                    if o2.3 == *t {
                                        if let Some(g2) = goto.get(&(o2.0, o2.1)) {
                                            if g2.as_ref() != Some(&(*tf, *focus)) {
                                                bad("reference-without-goto", format!("{t}"), format!("{}:{a} ({t}) is listed as a reference of the declaration at {}:{} but go-to-definition from it gives {g2:?}", files[o2.0].rel, files[d.0].rel, d.1), o2.0, o2.1, &mut findings);
                                            }
                                        }
                                    }
                                }
                            }
                        }
                    }
                }
            }
        }
    }
    (n, ranges_checked, findings)
}

fn case_json(v: &Variant) -> Value {
    json!({"desc": v.desc, "ws": v.ws.to_json(), "pkg": v.pkg, "file": v.file, "focus": v.focus})
}

fn global_file_index(ws: &Workspace, pkg: usize, file: usize) -> usize {
    let mut idx = 0;
    for (pi, p) in ws.packages.iter().enumerate() {
        if pi == pkg {
            return idx + file;
        }
        idx += p.files.len() + 1;
    }
    idx
}

pub fn run_inner(which: Which, tier: Tier) -> i32 {
    let prop = which.name();
    let mut rep = Report::new(prop, tier);
    supervise::start_watchdog(Duration::from_secs(tier.pick(30, 60)));
    let bases = base_workspaces();
    let mut all = all_variants(which, tier);
    if which != Which::C10 {
        // variants that abort the process are C10's business (its known findings); skip them here
        let ka = known_aborting();
        all.retain(|v| !ka.contains(&v.desc));
    }
    let skips = skip_list();
    for sk in &skips {
        let desc = sk["desc"].as_str().unwrap_or("");
        all.retain(|v| v.desc != desc);
        if which == Which::C10 {
            let how = sk["how"].as_str().unwrap_or("");
            let kind = if how.contains("signal") { "process killed (stack overflow / abort)" } else { how };
            rep.violation(Violation { class: "abort-or-hang".into(), key: format!("{}|{}", desc, kind), witness: json!({"case": sk["case"]}), detail: format!("[{desc}] evaluating all queries on this workspace: {how}") });
        }
    }
    let total = all.len() as u64;
    let res: Vec<(u64, u64, Vec<Violation>, bool)> = all
        .par_iter()
        .map(|v| {
            let cj = case_json(v);
            supervise::begin(prop, &cj);
            let gf = global_file_index(&v.ws, v.pkg, v.file);
            let (n, rc, fs) = eval(which, &v.ws, Some((gf, v.focus)), tier);
            supervise::end(prop);
            let any = !fs.is_empty();
            let viol = fs
                .into_iter()
                .take(6)
                .map(|f| Violation {
                    class: f.class.clone(),
                    key: format!("{}|{}", f.key, if v.desc.starts_with("pathological:") { v.desc.clone() } else if v.desc.starts_with("gen:") { "generated scoping program".to_string() } else if v.desc.starts_with("grammar:") { "grammar program".to_string() } else { format!("edit of {}", v.desc.split(':').next().unwrap_or("")) }),
                    witness: json!({"case": cj, "query": f.query, "file": f.file, "off": f.off}),
                    detail: format!("[{}] {}", v.desc, f.detail),
                })
                .collect();
            (n, rc, viol, any)
        })
        .collect();
    let gen_count = all.iter().filter(|v| v.desc.starts_with("gen:")).count();
    let mut l = Layer { name: "single-edit-variants".into(), states: total, exhaustive: true, ..Default::default() };
    let mut ranges = 0;
    let mut failing_variants = 0u64;
    for (n, rc, viol, any) in res {
        l.transitions += n;
        l.executions += n;
        ranges += rc;
        if any {
            failing_variants += 1;
        }
        for x in viol {
            rep.violation(x);
        }
    }
    l.bound = format!(
        "{} base workspaces ({} files) x every single token edit (delete / truncate / insert+replace over {} symbols / duplicate+remove item / empty{}) + {} pathological workspaces + {gen_count} generated scoping programs (C05's generator) + {} programs of the reference grammar (C04's generator: every production between two neighbours); offsets: token boundaries near the edit + stride elsewhere; queries: {}",
        bases.len(),
        bases.iter().map(|b| b.1.packages.iter().map(|p| p.files.len()).sum::<usize>()).sum::<usize>(),
        if tier == Tier::Thorough { crate::core::alphabet::sigma().len() } else { QUICK_SYMS.len() },
        if tier == Tier::Thorough { " / char insert+delete" } else { "" },
        pathological().len(),
        grammar_programs(tier).len(),
        if which == Which::C06 { "goto+references+highlight at every identifier occurrence".to_string() } else { format!("all {} query kinds", ALL_Q.len()) }
    );
    l.extra.insert("ranges_checked".into(), json!(ranges));
    l.extra.insert("variants_with_findings".into(), json!(failing_variants));
    rep.layer(l);
    if which == Which::C20 {
        lsp_ranges_layer(&mut rep, tier);
    }
    rep.distinct_nontrivial = total;
    rep.distinct_outcomes = 1 + rep.violations.iter().map(|v| v.key.clone()).collect::<BTreeSet<_>>().len() as u64;
    rep.rule = "each variant is a distinct (workspace, edit); non-trivial = every variant (each differs from its base by one edit or is a pathological shape)".into();
    rep.sample(json!({"desc": all[all.len() / 3].desc}));
    rep.sample(json!({"desc": all[all.len() - 3].desc}));
    rep.assumptions = vec!["workspaces are built through the public Change/SourceRoot/PackageGraph API the way the server does".into()];
    rep.guard(total > 1000, "more than 1000 variants");
    if which == Which::C20 {
        rep.guard(ranges > 10_000, "more than 10000 ranges checked");
    }
    rep.finish()
}

/// Problems of one LSP range against the client's copy of the document.
fn lsp_range_problem(doc: &crate::lsp::client::RefDoc, r: &Value) -> Option<String> {
    let g = |v: &Value| Some((v["line"].as_u64()? as u32, v["character"].as_u64()? as u32));
    let (Some(s), Some(e)) = (g(&r["start"]), g(&r["end"])) else { return Some("not a range".into()) };
    let lines = doc.lines();
    for (what, p) in [("start", s), ("end", e)] {
        let Some((ls, le)) = lines.get(p.0 as usize) else { return Some(format!("{what} {p:?}: the document has {} lines", lines.len())) };
        let len16: u32 = doc.text[*ls..*le].chars().map(|c| c.len_utf16() as u32).sum();
        if p.1 > len16 {
            return Some(format!("{what} {p:?}: line {} has {len16} UTF-16 code units", p.0));
        }
        if doc.offset_of(p.0, p.1).is_none() {
            return Some(format!("{what} {p:?} is inside a character"));
        }
    }
    if s > e {
        return Some(format!("start {s:?} after end {e:?}"));
    }
    None
}

/// Server-level layer of C20: what the client receives after the conversion to LSP positions.
/// Every document over an alphabet with multi-byte error characters and unterminated strings is
/// opened on the real binary; every range of the published diagnostics and of the hover answers
/// at every position must lie inside the client's copy of the document, on character boundaries.
fn lsp_ranges_layer(rep: &mut Report, tier: Tier) {
    use crate::lsp::client::RefDoc;
    use crate::lsp::proc::Proc;
    if !std::path::Path::new(&crate::lsp::proc::server_bin()).exists() {
        rep.machinery("server binary not built");
        return;
    }
    let syms: &[&str] = &["a", " ", "\n", "é", "😀", "\"", "(", "1"];
    let n = tier.pick(4usize, 5usize);
    let mut docs = vec![String::new()];
    let mut frontier = vec![String::new()];
    for _ in 0..n {
        let mut next = vec![];
        for f in &frontier {
            for sy in syms {
                next.push(format!("{f}{sy}"));
            }
        }
        docs.extend(next.iter().cloned());
        frontier = next;
    }
    let dir = crate::core::verif_root().join(".scratch/c20lsp");
    let _ = std::fs::create_dir_all(&dir);
    let chunks: Vec<(usize, &[String])> = docs.chunks(docs.len() / 32 + 1).enumerate().collect();
    let res: Vec<(u64, u64, Vec<Violation>, Option<String>)> = chunks
        .par_iter()
        .map(|(ci, chunk)| {
            let mut viol = vec![];
            let (mut ranges, mut execs) = (0u64, 0u64);
            let Ok(mut p) = Proc::spawn(&[]) else { return (0, 0, vec![], Some("cannot spawn the server".to_string())) };
            p.send(&json!({"jsonrpc": "2.0", "id": 1, "method": "initialize", "params": {"processId": null, "rootUri": null, "capabilities": {}}}));
            p.send(&json!({"jsonrpc": "2.0", "method": "initialized", "params": {}}));
            let mut next_id = 10i64;
            // waits for a message satisfying `want`; server requests are answered with null
            let mut wait = |p: &mut Proc, want: &dyn Fn(&Value) -> bool| -> Option<Value> {
                let deadline = std::time::Instant::now() + Duration::from_secs(20);
                while std::time::Instant::now() < deadline {
                    match p.recv(Duration::from_millis(50)) {
                        Ok(Some(v)) => {
                            if v.get("id").is_some() && v.get("method").is_some() {
                                p.send(&json!({"jsonrpc": "2.0", "id": v["id"], "result": null}));
                                continue;
                            }
                            if want(&v) {
                                return Some(v);
                            }
                        }
                        Ok(None) => return None,
                        Err(()) => {}
                    }
                }
                None
            };
            for (di, text) in chunk.iter().enumerate() {
                let uri = format!("file://{}/c{ci}d{di}.gleam", dir.display());
                let doc = RefDoc::new(text.clone());
                execs += 1;
                p.send(&json!({"jsonrpc": "2.0", "method": "textDocument/didOpen", "params": {"textDocument": {"uri": uri, "languageId": "gleam", "version": 1, "text": text}}}));
                let Some(d) = wait(&mut p, &|v| v["method"].as_str() == Some("textDocument/publishDiagnostics") && v["params"]["uri"].as_str() == Some(uri.as_str())) else {
                    return (ranges, execs, viol, Some(format!("no diagnostics published for {text:?}")));
                };
                let mut bad = |what: &str, r: &Value, why: String, viol: &mut Vec<Violation>| {
                    if viol.len() < 6 {
                        let astral = text.contains('😀');
                        viol.push(Violation { class: "lsp-range-outside-document".into(), key: format!("lsp|{what}|{}", if astral { "document with a 4-byte character" } else if !text.is_ascii() { "document with a 2-byte character" } else { "ASCII document" }), witness: json!({"lsp_document": text, "what": what}), detail: format!("document {text:?}: {what} range {r} - {why}") });
                    }
                };
                for dg in d["params"]["diagnostics"].as_array().cloned().unwrap_or_default() {
                    ranges += 1;
                    if let Some(why) = lsp_range_problem(&doc, &dg["range"]) {
                        bad("diagnostic", &dg["range"], why, &mut viol);
                    }
                }
                for ((l, c), _) in doc.valid_positions() {
                    next_id += 1;
                    let id = next_id;
                    p.send(&json!({"jsonrpc": "2.0", "id": id, "method": "textDocument/hover", "params": {"textDocument": {"uri": uri}, "position": {"line": l, "character": c}}}));
                    let Some(h) = wait(&mut p, &|v| v["id"].as_i64() == Some(id) && v.get("method").is_none()) else {
                        return (ranges, execs, viol, Some(format!("hover not answered for {text:?}")));
                    };
                    if let Some(r) = h["result"].get("range") {
                        if !r.is_null() {
                            ranges += 1;
                            if let Some(why) = lsp_range_problem(&doc, r) {
                                bad("hover", r, why, &mut viol);
                            }
                        }
                    }
                }
                // the same after edits: every valid single edit (replacement <= 2 symbols) of the small
                // documents over a reduced alphabet; ranges are resolved in the client's edited copy
                let small = text.chars().count() <= 3 && text.chars().all(|c| matches!(c, 'a' | '\n' | 'é' | '😀' | '('));
                if small {
                    let reps = ["", "a", "é", "😀", "aa", "aé", "éa", "a😀", "aaaa", "("];
                    let positions = doc.valid_positions();
                    let mut version = 1;
                    for (i, (ps, so)) in positions.iter().enumerate() {
                        for (pe, eo) in positions.iter().skip(i) {
                            for r in reps {
                                if so == eo && r.is_empty() {
                                    continue;
                                }
                                version += 1;
                                p.send(&json!({"jsonrpc": "2.0", "method": "textDocument/didChange", "params": {"textDocument": {"uri": uri, "version": version}, "contentChanges": [{"text": text}]}}));
                                if wait(&mut p, &|v| v["method"].as_str() == Some("textDocument/publishDiagnostics") && v["params"]["uri"].as_str() == Some(uri.as_str())).is_none() {
                                    return (ranges, execs, viol, Some(format!("no diagnostics after resetting {text:?}")));
                                }
                                version += 1;
                                p.send(&json!({"jsonrpc": "2.0", "method": "textDocument/didChange", "params": {"textDocument": {"uri": uri, "version": version}, "contentChanges": [{"range": {"start": {"line": ps.0, "character": ps.1}, "end": {"line": pe.0, "character": pe.1}}, "text": r}]}}));
                                let Some(d) = wait(&mut p, &|v| v["method"].as_str() == Some("textDocument/publishDiagnostics") && v["params"]["uri"].as_str() == Some(uri.as_str())) else {
                                    return (ranges, execs, viol, Some(format!("no diagnostics after an edit of {text:?}")));
                                };
                                let mut edited = doc.clone();
                                edited.replace(*so, *eo, r);
                                execs += 1;
                                let mut bad2 = |what: &str, rg: &Value, why: String, viol: &mut Vec<Violation>| {
                                    if viol.len() < 6 {
                                        viol.push(Violation { class: "lsp-range-outside-document".into(), key: format!("lsp-after-edit|{what}|{}", if r.len() == eo - so && !r.is_empty() { "replacement of equal byte length" } else if r.is_empty() { "deletion" } else if so == eo { "insertion" } else { "replacement" }), witness: json!({"lsp_document": text, "edit": {"start": [ps.0, ps.1], "end": [pe.0, pe.1], "text": r}, "what": what}), detail: format!("document {text:?} after replacing {ps:?}..{pe:?} by {r:?} (client copy {:?}): {what} range {rg} - {why}", edited.text) });
                                    }
                                };
                                for dg in d["params"]["diagnostics"].as_array().cloned().unwrap_or_default() {
                                    ranges += 1;
                                    if let Some(why) = lsp_range_problem(&edited, &dg["range"]) {
                                        bad2("diagnostic", &dg["range"], why, &mut viol);
                                    }
                                }
                                for ((l, c), _) in edited.valid_positions() {
                                    next_id += 1;
                                    let id = next_id;
                                    p.send(&json!({"jsonrpc": "2.0", "id": id, "method": "textDocument/hover", "params": {"textDocument": {"uri": uri}, "position": {"line": l, "character": c}}}));
                                    let Some(h) = wait(&mut p, &|v| v["id"].as_i64() == Some(id) && v.get("method").is_none()) else {
                                        return (ranges, execs, viol, Some(format!("hover not answered after an edit of {text:?}")));
                                    };
                                    if let Some(rg) = h["result"].get("range") {
                                        if !rg.is_null() {
                                            ranges += 1;
                                            if let Some(why) = lsp_range_problem(&edited, rg) {
                                                bad2("hover", rg, why, &mut viol);
                                            }
                                        }
                                    }
                                }
                            }
                        }
                    }
                }
                p.send(&json!({"jsonrpc": "2.0", "method": "textDocument/didClose", "params": {"textDocument": {"uri": uri}}}));
            }
            p.send(&json!({"jsonrpc": "2.0", "id": 2, "method": "shutdown", "params": null}));
            let _ = wait(&mut p, &|v| v["id"].as_i64() == Some(2));
            p.send(&json!({"jsonrpc": "2.0", "method": "exit", "params": null}));
            p.close_stdin();
            let _ = p.wait_exit(Duration::from_secs(3));
            (ranges, execs, viol, None)
        })
        .collect();
    let mut l = Layer { name: "lsp-ranges-on-the-wire".into(), states: docs.len() as u64, exhaustive: true, ..Default::default() };
    let mut seen = BTreeSet::new();
    for (ranges, execs, viol, mach) in res {
        l.transitions += ranges;
        l.executions += execs;
        if let Some(m) = mach {
            rep.machinery(format!("lsp-ranges layer: {m}"));
        }
        for v in viol {
            if seen.insert(v.key.clone()) {
                rep.violation(v);
            }
        }
    }
    rep.guard(l.transitions > 100, "more than 100 ranges seen on the wire");
    l.bound = format!("all documents <= {n} symbols over {{a, space, LF, 2-byte and 4-byte characters (lexer errors), an unterminated string quote, `(`, a digit}} opened on the real binary: every range of the published diagnostics and of the hover answer at every position, resolved in the client's copy of the document (line exists, column within the line's UTF-16 length, not inside a character, start <= end); for the documents <= 3 symbols over {{a, LF, 2-byte, 4-byte, `(`}} the same after every valid single edit with a replacement from 10 strings (<= 2 symbols, incl. replacements of equal byte length and other UTF-16 length)");
    rep.layer(l);
}

/// Descriptions of variants that C10's known findings list as killing the process.
fn known_aborting() -> Vec<String> {
    crate::core::load_known()
        .into_iter()
        .filter(|k| k.property == "C10" && k.status == "known" && k.key.starts_with("abort-or-hang|"))
        .filter_map(|k| k.key.split('|').nth(1).map(|s| s.to_string()))
        .collect()
}

/// Well-formed programs from the reference grammar: a small cross-section (every production once)
/// in the quick tier, all derivations of depth 1 in the thorough tier.
fn grammar_programs(tier: Tier) -> Vec<String> {
    use crate::gleam::ast::{Expr, Item, Module, Stmt};
    use crate::gleam::print::{print_module, Layout};
    let items = if tier == Tier::Thorough { crate::gleam::enumerate::items(1) } else { crate::gleam::enumerate::items_small() };
    let nb = |name: &str| Item::Fn { public: true, external: false, target: None, name: name.into(), params: vec![], ret: None, body: Some(vec![Stmt::Expr(Expr::Int("0".into()))]) };
    items.into_iter().map(|i| print_module(&Module { items: vec![nb("before"), i, nb("after")] }, Layout::Space).text).collect()
}

fn all_variants(which: Which, tier: Tier) -> Vec<Variant> {
    let bases = base_workspaces();
    let mut all: Vec<Variant> = vec![];
    for (name, ws) in pathological() {
        all.push(Variant { desc: format!("pathological:{name}"), ws, pkg: 0, file: 0, focus: 0 });
    }
    for (name, ws) in &bases {
        all.push(Variant { desc: format!("{name}: unchanged"), ws: ws.clone(), pkg: 0, file: 0, focus: 0 });
        for (pi, p) in ws.packages.iter().enumerate() {
            for fi in 0..p.files.len() {
                let chars = (which == Which::C10 && (tier == Tier::Thorough || (name == "w3"))) || (name == "w5" && pi == 0);
                all.extend(variants_of(name, ws, pi, fi, tier, chars));
            }
        }
    }
    // every production of the reference grammar (C04's generator) as a one-module workspace: each
    // syntactic construct goes through lowering, inference and every query
    for (i, text) in grammar_programs(tier).into_iter().enumerate() {
        all.push(Variant { desc: format!("grammar:{i}"), ws: Workspace::single(&[("g", &text)]), pkg: 0, file: 0, focus: 0 });
    }
    // shadowing-heavy generated programs (C05's generator) as further workspaces
    if which == Which::C06 || tier == Tier::Thorough {
        for (desc, ws) in crate::props::scoping::generated_workspaces(tier, which != Which::C06) {
            all.push(Variant { desc, ws, pkg: 0, file: 0, focus: 0 });
        }
    }
    all
}

pub fn run(which: Which, tier: Tier) -> i32 {
    // Crash containment loop: a case that kills the sweep process is confirmed in isolation,
    // put on the skip list (and reported by the next round's report), and the sweep restarts.
    let skip_path = crate::core::verif_root().join(".scratch").join(format!("skip-{}.json", which.name()));
    let mut skipped: Vec<Value> = vec![];
    if which == Which::C10 {
        // the variants listed as aborting are tried first, each in its own process, so that the
        // main sweep does not have to die on them (they are still reported from what is observed)
        let ka = known_aborting();
        if !ka.is_empty() {
            let dir = crate::core::verif_root().join(".scratch/journal/C10-pre");
            let _ = std::fs::remove_dir_all(&dir);
            let _ = std::fs::create_dir_all(&dir);
            let exe = std::env::current_exe().unwrap();
            for (i, v) in all_variants(which, tier).into_iter().filter(|v| ka.contains(&v.desc)).enumerate() {
                let cj = case_json(&v);
                let p = dir.join(format!("{i}.json"));
                let _ = std::fs::write(&p, cj.to_string());
                let st = std::process::Command::new(&exe).args(["worker", "one", "C10"]).arg(&p).stdout(std::process::Stdio::null()).stderr(std::process::Stdio::null()).status();
                if let Ok(st) = st {
                    use std::os::unix::process::ExitStatusExt;
                    if let Some(sig) = st.signal() {
                        skipped.push(json!({"desc": v.desc, "how": format!("killed by signal {sig}"), "case": cj}));
                    }
                }
            }
        }
    }
    let _ = std::fs::write(&skip_path, serde_json::to_string(&skipped).unwrap());
    std::env::set_var("GMC_SKIP_FILE", &skip_path);
    let mut unexplained = 0;
    for _round in 0..12 {
        match supervise::supervise(which.name(), tier.name(), Duration::from_secs(300)) {
            Ok(c) => return c,
            Err(culprits) => {
                if culprits.is_empty() {
                    // nothing reproduces in isolation: the watchdog fired on a case that was only
                    // slow because the machine was busy. Run the sweep again (twice at most).
                    unexplained += 1;
                    if unexplained > 2 {
                        let mut rep = Report::new(which.name(), tier);
                        rep.machinery("sweep process died three times but no journaled case reproduces the crash in isolation");
                        return rep.finish();
                    }
                    continue;
                }
                for c in culprits {
                    skipped.push(json!({"desc": c.case["desc"], "how": c.how, "case": c.case}));
                }
                let _ = std::fs::write(&skip_path, serde_json::to_string(&skipped).unwrap());
            }
        }
    }
    // Every round died on a further case. The confirmed crashes are violations of C10 in their
    // own right: report them (coverage is capped: the sweep never ran to its end).
    let mut rep = Report::new(which.name(), tier);
    if which == Which::C10 && !skipped.is_empty() {
        let mut l = Layer { name: "crash-containment-only".into(), exhaustive: false, ..Default::default() };
        for sk in &skipped {
            let desc = sk["desc"].as_str().unwrap_or("");
            let how = sk["how"].as_str().unwrap_or("");
            let kind = if how.contains("signal") { "process killed (stack overflow / abort)" } else { how };
            l.states += 1;
            l.executions += 1;
            l.transitions += 1;
            rep.violation(Violation { class: "abort-or-hang".into(), key: format!("{}|{}", desc, kind), witness: json!({"case": sk["case"]}), detail: format!("[{desc}] evaluating all queries on this workspace: {how}") });
        }
        l.bound = format!("the sweep process died in each of 12 rounds; {} workspaces confirmed in isolation to take the process down", skipped.len());
        rep.layer(l);
        rep.caps.push(json!({"layer": "crash-containment-only", "cap": "12 crash-containment rounds; the sweep itself never completed"}));
        rep.distinct_nontrivial = skipped.len() as u64;
        rep.distinct_outcomes = 1;
        rep.rule = "workspaces on which evaluating the query set kills the process, each confirmed in its own process".into();
        rep.sample(json!({"desc": skipped[0]["desc"]}));
        return rep.finish();
    }
    rep.machinery("more than 12 crash-containment rounds");
    rep.finish()
}

fn skip_list() -> Vec<Value> {
    std::env::var_os("GMC_SKIP_FILE")
        .and_then(|p| std::fs::read_to_string(p).ok())
        .and_then(|s| serde_json::from_str::<Vec<Value>>(&s).ok())
        .unwrap_or_default()
}

fn eval_case(which: Which, c: &Value, tier: Tier) -> Vec<Finding> {
    let Some(ws) = Workspace::from_json(&c["ws"]) else { return vec![] };
    let gf = global_file_index(&ws, c["pkg"].as_u64().unwrap_or(0) as usize, c["file"].as_u64().unwrap_or(0) as usize);
    eval(which, &ws, Some((gf, c["focus"].as_u64().unwrap_or(0) as usize)), tier).2
}

/// `gmc worker one <prop> <journal file>`: evaluate one journaled case, exit 0.
pub fn worker_one(which: Which, path: &str) -> i32 {
    let Ok(s) = std::fs::read_to_string(path) else { return 2 };
    let Ok(c) = serde_json::from_str::<Value>(&s) else { return 2 };
    let _ = eval_case(which, &c, Tier::Thorough);
    0
}

pub fn replay(which: Which, w: &Value) -> Vec<String> {
    eval_case(which, &w["case"], Tier::Thorough).into_iter().map(|f| format!("{}: {}", f.class, f.detail)).collect()
}
