//! C04 — well-formed programs parse error-free with Gleam's structure.
//! Exhaustive derivation enumeration over the reference grammar (E2) x layouts; operator
//! tables; the tree is read back through the typed accessors and compared with the AST.
use crate::core::{catch, panic_class, Layer, Report, Tier, Violation};
use crate::gleam::ast::*;
use crate::gleam::enumerate::{self, group_chain, BINOPS, BINOPS_REP};
use crate::gleam::extract::x_module;
use crate::gleam::print::{print_module, Layout, LAYOUTS};
use rayon::prelude::*;
use serde_json::{json, Value};
use std::collections::BTreeSet;

fn neighbour(name: &str) -> Item {
    Item::Fn { public: false, external: false, target: None, name: name.into(), params: vec![], ret: None, body: Some(vec![Stmt::Expr(Expr::Int("0".into()))]) }
}

/// Context of the first difference: the innermost form that is open in the expected
/// S-expression at the point where the two strings diverge.
fn diff_context(want: &str, got: &str) -> String {
    let n = want.bytes().zip(got.bytes()).take_while(|(a, b)| a == b).count();
    let mut stack: Vec<&str> = vec![];
    let b = want.as_bytes();
    let mut i = 0;
    while i < n.min(b.len()) {
        if b[i] == b'(' {
            let s = i + 1;
            let mut e = s;
            while e < b.len() && !matches!(b[e], b' ' | b')' | b'(') {
                e += 1;
            }
            stack.push(&want[s..e]);
        } else if b[i] == b')' {
            stack.pop();
        }
        i += 1;
    }
    let next: String = want[n.min(want.len())..].chars().take_while(|c| !matches!(c, ' ' | ')')).take(16).collect();
    let tail: Vec<&str> = stack.iter().rev().take(2).rev().copied().collect();
    format!("{} @ expected {:?}", tail.join(">"), next)
}

pub fn check_module(m: &Module, layout: Layout) -> Option<(String, String, String)> {
    check_module_eol(m, layout, false)
}

/// `crlf`: every line break of the printed program is CR LF (legal whitespace like LF).
pub fn check_module_eol(m: &Module, layout: Layout, crlf: bool) -> Option<(String, String, String)> {
    let mut printed = print_module(m, layout);
    if crlf {
        printed.text = printed.text.replace('\n', "\r\n");
    }
    let want = sx_module(m);
    let r = catch(|| {
        let p = syntax::parse_module(&printed.text);
        let errs: Vec<String> = p.errors().iter().map(|e| format!("{:?}@{:?}", e.kind, e.range)).collect();
        (errs, x_module(&p.root()))
    });
    match r {
        Err(msg) => Some(("panic".into(), panic_class(&msg), format!("parser panicked on {:?}: {msg}", printed.text))),
        Ok((errs, got)) => {
            if !errs.is_empty() {
                // where in the AST? use the shape of the item under test
                let key = m.items.get(1).map(|i| sx_item(i)).unwrap_or_default();
                let key: String = key.split(' ').filter(|w| w.starts_with('(')).take(6).collect::<Vec<_>>().join("");
                Some(("syntax-errors-on-wellformed".into(), format!("{key} {}", errs[0].split('@').next().unwrap_or("")), format!("well-formed program {:?} reports {errs:?}", printed.text)))
            } else if got != want {
                Some(("structure-differs".into(), diff_context(&want, &got), format!("program {:?}: tree (via accessors) = {got}\n    expected by Gleam's grammar = {want}", printed.text)))
            } else {
                None
            }
        }
    }
}

fn run_layer(rep: &mut Report, name: &str, mods: &[Module], layouts: &[Layout], bound: String, distinct: &mut BTreeSet<u64>) {
    let res: Vec<(u64, Vec<Violation>)> = mods
        .par_iter()
        .map(|m| {
            let mut v = vec![];
            let mut n = 0;
            for &l in layouts {
                n += 1;
                if let Some((class, key, detail)) = check_module(m, l) {
                    v.push(Violation { class, key, witness: json!({"module_sexp": sx_module(m), "layout": format!("{l:?}"), "text": print_module(m, l).text}), detail: format!("[{l:?}] {detail}") });
                }
                // the layouts that break lines, once more with CR LF line breaks
                if matches!(l, Layout::Lines | Layout::Comments) {
                    n += 1;
                    if let Some((class, key, detail)) = check_module_eol(m, l, true) {
                        if v.len() < 4 {
                            v.push(Violation { class, key, witness: json!({"module_sexp": sx_module(m), "layout": format!("{l:?}"), "crlf": true, "text": print_module(m, l).text.replace('\n', "\r\n")}), detail: format!("[{l:?}, CR LF line breaks] {detail}") });
                        }
                    }
                }
            }
            (n, v)
        })
        .collect();
    let mut l = Layer { name: name.into(), states: mods.len() as u64, exhaustive: true, bound, ..Default::default() };
    for (n, v) in res {
        l.executions += n;
        l.transitions += n;
        for x in v {
            rep.violation(x);
        }
    }
    for m in mods {
        let s = sx_module(m);
        let mut h = 0u64;
        for b in s.bytes() {
            h = crate::core::mix(h, b as u64);
        }
        distinct.insert(h);
    }
    rep.layer(l);
}

fn chain_module(operands: Vec<Expr>, ops: Vec<&'static str>) -> Module {
    let body = group_chain(&operands, &ops);
    Module { items: vec![neighbour("before"), Item::Fn { public: false, external: false, target: None, name: "h".into(), params: ["a", "b", "c", "d"].iter().map(|n| Param { label: None, name: n.to_string(), ty: None }).collect(), ret: None, body: Some(vec![Stmt::Let { assert: false, pat: Pattern::Var("r".into()), ann: None, value: body }, Stmt::Expr(Expr::Var("r".into()))]) }, neighbour("after")] }
}

pub fn run(tier: Tier) -> i32 {
    let mut rep = Report::new("C04", tier);
    let mut distinct: BTreeSet<u64> = BTreeSet::new();
    let depth = tier.pick(1usize, 2usize);
    // G1: every item derivation between two fixed neighbours
    let items = enumerate::items(depth);
    let mods: Vec<Module> = items.iter().map(|i| Module { items: vec![neighbour("before"), i.clone(), neighbour("after")] }).collect();
    let small: Vec<Module> = enumerate::items(1).iter().map(|i| Module { items: vec![neighbour("before"), i.clone(), neighbour("after")] }).collect();
    run_layer(&mut rep, "derivations-depth1-all-layouts", &small, LAYOUTS, "all item / statement / expression / pattern / type derivations of path depth <= 1 (full product over leaves), each between two fixed neighbours, in all five layouts".into(), &mut distinct);
    let deep_layouts: &[Layout] = if tier == Tier::Thorough { &[Layout::Space, Layout::Comments] } else { &[Layout::Space] };
    run_layer(&mut rep, &format!("derivations-depth{depth}"), &mods, deep_layouts, format!("all derivations of path depth <= {depth} (one-hole discipline from depth 2: every (production, slot, sub-derivation) chain), layouts Space and Comments"), &mut distinct);
    // G2: operator tables
    let var = |n: &str| Expr::Var(n.into());
    let mut all_ops: Vec<&'static str> = BINOPS.to_vec();
    all_ops.push("|>");
    let mut chains = vec![];
    for a in &all_ops {
        for b in &all_ops {
            chains.push(chain_module(vec![var("a"), var("b"), var("c")], vec![a, b]));
        }
    }
    let mut reps: Vec<&'static str> = BINOPS_REP.to_vec();
    reps.push("|>");
    reps.push("-");
    for a in &reps {
        for b in &reps {
            for c in &reps {
                chains.push(chain_module(vec![var("a"), var("b"), var("c"), var("d")], vec![a, b, c]));
            }
        }
    }
    // prefix and postfix operands inside chains
    let specials: Vec<Expr> = vec![
        Expr::Neg(Box::new(var("a"))),
        Expr::Not(Box::new(var("a"))),
        Expr::Neg(Box::new(Expr::Field(Box::new(var("a")), "f".into()))),
        Expr::Not(Box::new(Expr::Call(Box::new(var("a")), vec![]))),
        Expr::Field(Box::new(var("a")), "f".into()),
        Expr::Call(Box::new(var("a")), vec![Arg { label: None, value: ArgValue::Expr(var("b")) }]),
        Expr::TupleIndex(Box::new(var("a")), 0),
        Expr::Call(Box::new(Expr::Field(Box::new(var("a")), "f".into())), vec![]),
        Expr::Field(Box::new(Expr::Call(Box::new(var("a")), vec![])), "f".into()),
        Expr::Call(Box::new(Expr::Call(Box::new(var("a")), vec![])), vec![]),
        Expr::Field(Box::new(Expr::Field(Box::new(var("a")), "f".into())), "g".into()),
        Expr::Field(Box::new(Expr::TupleIndex(Box::new(var("a")), 0)), "f".into()),
        Expr::Neg(Box::new(Expr::Int("1".into()))),
        Expr::Not(Box::new(Expr::Not(Box::new(var("a"))))),
        // operands that end in a closing brace: case, block, anonymous function
        Expr::Case(vec![var("a")], vec![Clause { alts: vec![vec![Pattern::Int("1".into())]], guard: None, body: var("b") }, Clause { alts: vec![vec![Pattern::Discard("_".into())]], guard: None, body: var("c") }]),
        Expr::Block(vec![Stmt::Expr(var("a"))]),
        Expr::Lambda(vec![], None, vec![Stmt::Expr(var("a"))]),
        Expr::Call(Box::new(Expr::Block(vec![Stmt::Expr(var("a"))])), vec![]),
    ];
    for s in &specials {
        for op in &all_ops {
            chains.push(chain_module(vec![s.clone(), var("b")], vec![op]));
            chains.push(chain_module(vec![var("b"), s.clone()], vec![op]));
            chains.push(chain_module(vec![var("b"), s.clone(), var("c")], vec![op, "+"]));
        }
    }
    run_layer(&mut rep, "operator-tables", &chains, &[Layout::Space, Layout::Tight, Layout::Lines], format!("all {}x{} infix pairs, all triples over one representative per precedence level, prefix / postfix / brace-ended (case, block, anonymous function) operands on either side of every operator; expected grouping by reference precedence climbing", all_ops.len(), all_ops.len()), &mut distinct);
    // G3: string literals - every sequence of <= 3 units over {a, \\, \", \n, é} in expression,
    // let, constant, pattern and argument position, followed by an item that contains a string
    // of its own (so that a literal running past its closing quote is visible)
    {
        let units = ["a", "\\\\", "\\\"", "\\n", "é"];
        let mut lits: Vec<String> = vec![String::new()];
        let mut frontier = vec![String::new()];
        for _ in 0..3 {
            let mut next = vec![];
            for f in &frontier {
                for u in units {
                    next.push(format!("{f}{u}"));
                }
            }
            lits.extend(next.iter().cloned());
            frontier = next;
        }
        let after = Item::Fn { public: false, external: false, target: None, name: "after".into(), params: vec![], ret: None, body: Some(vec![Stmt::Expr(Expr::Str("\"z\"".into()))]) };
        let mut mods = vec![];
        for l in &lits {
            let lit = format!("\"{l}\"");
            let e = Expr::Str(lit.clone());
            let f = |body: Vec<Stmt>| Item::Fn { public: false, external: false, target: None, name: "h".into(), params: vec![Param { label: None, name: "x".into(), ty: None }], ret: None, body: Some(body) };
            let hosts = vec![
                f(vec![Stmt::Expr(e.clone())]),
                f(vec![Stmt::Let { assert: false, pat: Pattern::Var("r".into()), ann: None, value: e.clone() }, Stmt::Expr(var("r"))]),
                Item::Const { public: false, name: "k".into(), ann: None, value: e.clone() },
                f(vec![Stmt::Expr(Expr::Case(vec![var("x")], vec![Clause { alts: vec![vec![Pattern::Str(lit.clone())]], guard: None, body: Expr::Int("1".into()) }, Clause { alts: vec![vec![Pattern::Discard("_".into())]], guard: None, body: Expr::Int("2".into()) }]))]),
                f(vec![Stmt::Expr(Expr::Call(Box::new(var("x")), vec![Arg { label: None, value: ArgValue::Expr(e.clone()) }, Arg { label: None, value: ArgValue::Expr(Expr::Str("\"y\"".into())) }]))]),
            ];
            for h in hosts {
                mods.push(Module { items: vec![neighbour("before"), h, after.clone()] });
            }
        }
        run_layer(&mut rep, "string-literals", &mods, &[Layout::Space, Layout::Tight], format!("{} string literals (every sequence of <= 3 units over {{a, escaped backslash, escaped quote, \\n, é}}) x 5 positions (statement, let value, constant, pattern, call argument next to another string), followed by an item with a string of its own", lits.len()), &mut distinct);
    }
    rep.distinct_nontrivial = distinct.len() as u64;
    rep.distinct_outcomes = 1 + rep.violations.iter().map(|v| v.class.clone()).collect::<BTreeSet<_>>().len() as u64;
    rep.rule = "programs generated from the reference grammar; distinct = distinct ASTs (S-expression hash); every one is a well-formed Gleam program by construction".into();
    rep.sample(json!({"text": print_module(&mods[mods.len() / 2], Layout::Space).text}));
    rep.sample(json!({"text": print_module(&chains[37], Layout::Space).text}));
    rep.assumptions = vec!["the reference grammar is the harness' reading of Gleam's surface syntax; constructs outside it are listed in DESIGN.md".into()];
    rep.guard(distinct.len() > 2000, "more than 2000 distinct programs");
    rep.finish()
}

pub fn replay(w: &Value) -> Vec<String> {
    let Some(text) = w["text"].as_str() else { return vec!["bad witness".into()] };
    let Some(want) = w["module_sexp"].as_str() else { return vec!["bad witness".into()] };
    match catch(|| {
        let p = syntax::parse_module(text);
        (p.errors().len(), x_module(&p.root()))
    }) {
        Ok((0, got)) if got == want => vec![],
        Ok((n, got)) => vec![format!("{n} syntax errors; tree {got}; expected {want}")],
        Err(m) => vec![format!("panic: {m}")],
    }
}
