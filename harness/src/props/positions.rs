//! C14 (positions mean the same to server and client) and C13 (document tracking):
//! exhaustive document/position enumeration and explicit-state search (stateright BFS) over
//! the real `Vfs`, `LineMap` and `convert` functions, against the reference client model.
use crate::core::alphabet::{decode, pow};
use crate::core::{catch, panic_class, Layer, Report, Tier, Violation};
use crate::lsp::client::RefDoc;
use crate::lsp::inproc::InProc;
use glas::verif::{self as gv, LineMap, Vfs};
use ide::VfsPath;
use lsp_types::{Position, Range};
use rayon::prelude::*;
use serde_json::json;
use stateright::{Checker, Model, Property};
use std::sync::atomic::{AtomicU64, Ordering};
use std::sync::{Arc, Mutex};
use text_size::{TextRange, TextSize};

pub fn line_map_of(text: &str) -> (Arc<str>, Arc<LineMap>) {
    let mut vfs = Vfs::new();
    let f = vfs.set_path_content(VfsPath::new("/doc.gleam"), text.to_owned());
    (vfs.content_for_file(f), vfs.line_map_for_file(f))
}

fn boundaries(t: &str) -> Vec<usize> {
    (0..=t.len()).filter(|&i| t.is_char_boundary(i)).collect()
}

/// C14 oracle for one (CR-free) document; `offsets` = boundaries to check, `pairs` = check all
/// ordered pairs among them.
pub fn c14_doc(text: &str, offsets: &[usize], pairs: bool) -> Vec<(String, String)> {
    c14_doc_with(text, offsets, pairs, None)
}

/// The same oracle on a given (text, line map) pair - the server's stored copy after edits.
pub fn c14_doc_with(text: &str, offsets: &[usize], pairs: bool, stored: Option<(Arc<str>, Arc<LineMap>)>) -> Vec<(String, String)> {
    let mut out = vec![];
    let r = catch(|| {
        let mut out = vec![];
        let (norm, lm) = stored.clone().unwrap_or_else(|| line_map_of(text));
        if &*norm != text {
            out.push(("normalize".to_string(), format!("normalised text differs from CR-free input {text:?}")));
            return out;
        }
        let doc = RefDoc::new(text);
        let mut prev: Option<(u32, u32)> = None;
        let mut lcs = vec![];
        for &o in offsets {
            let lc = lm.line_col_for_pos(TextSize::from(o as u32));
            lcs.push(lc);
            let back = u32::from(lm.pos_for_line_col(lc.0, lc.1)) as usize;
            if back != o {
                out.push(("roundtrip".into(), format!("offset {o} -> {lc:?} -> {back} in {text:?}")));
            }
            if let Some(p) = prev {
                if !(p < lc) {
                    out.push(("monotone".into(), format!("positions {p:?} then {lc:?} not strictly increasing at offset {o} in {text:?}")));
                }
            }
            prev = Some(lc);
            let cl = doc.pos_of(o);
            if cl != lc {
                out.push(("client-mismatch".into(), format!("offset {o}: server {lc:?}, client {cl:?} in {text:?}")));
            }
            match gv::from_pos(&lm, Position::new(cl.0, cl.1)) {
                Ok(p) if u32::from(p) as usize == o => {}
                other => out.push(("from-pos".into(), format!("client position {cl:?} -> {other:?}, expected {o} in {text:?}"))),
            }
        }
        if pairs {
            for (i, &a) in offsets.iter().enumerate() {
                for (j, &b) in offsets.iter().enumerate().skip(i) {
                    let r = gv::to_range(&lm, TextRange::new((a as u32).into(), (b as u32).into()));
                    let s = doc.offset_of(r.start.line, r.start.character);
                    let e = doc.offset_of(r.end.line, r.end.character);
                    if s != Some(a) || e != Some(b) {
                        out.push(("to-range".into(), format!("range {a}..{b} -> {r:?} selects {s:?}..{e:?} in the client document {text:?}")));
                    }
                    let _ = (i, j);
                }
            }
        }
        // line lengths used by the token encoder and the formatter
        for (li, (s, e)) in doc.lines().into_iter().enumerate() {
            let want: usize = text[s..e].chars().map(|c| c.len_utf16()).sum();
            let got = lm.end_col_for_line(li as u32);
            if got as usize != want {
                out.push(("end-col".into(), format!("line {li}: end column {got}, client line length {want} in {text:?}")));
            }
        }
        if lm.last_line() as usize + 1 != doc.lines().len() {
            out.push(("last-line".into(), format!("last_line {} vs client {} lines in {text:?}", lm.last_line(), doc.lines().len())));
        }
        out
    });
    match r {
        Ok(v) => out.extend(v),
        Err(m) => out.push(("panic".into(), format!("{} in {text:?}", panic_class(&m)))),
    }
    out
}

const C14_SYMS: &[&str] = &["a", "\n", "é", "€", "😀"];

/// One character for every UTF-8 lead byte (0xC2..=0xF4), at both ends of the lead byte's range.
pub fn lead_byte_chars() -> Vec<char> {
    let mut out: Vec<char> = vec![];
    let mut seen = std::collections::BTreeSet::new();
    let mut push = |c: u32, out: &mut Vec<char>| {
        if let Some(ch) = char::from_u32(c) {
            if seen.insert(ch) {
                out.push(ch);
            }
        }
    };
    // first and last scalar value of every lead byte
    let mut c = 0x80u32;
    let mut prev_lead = 0u8;
    let mut last = 0x80u32;
    while c <= 0x10FFFF {
        if let Some(ch) = char::from_u32(c) {
            let mut b = [0u8; 4];
            let lead = ch.encode_utf8(&mut b).as_bytes()[0];
            if lead != prev_lead {
                if prev_lead != 0 {
                    push(last, &mut out);
                }
                push(c, &mut out);
                prev_lead = lead;
            }
            last = c;
        }
        // step: within a lead byte the scalar values are contiguous (surrogates aside)
        c += if c < 0x800 { 0x40 } else if c < 0x10000 { 0x1000 } else { 0x40000 } / 0x40;
    }
    push(last, &mut out);
    out
}

/// Lead-byte classes: the width of a character in UTF-16 follows from its UTF-8 lead byte; one
/// 2-, 3- and 4-byte representative does not reach every branch of a lead-byte classification.
fn lead_bytes_layer(rep: &mut Report) {
    let chars = lead_byte_chars();
    let res: Vec<(u64, u64, Vec<Violation>)> = chars
        .par_iter()
        .map(|ch| {
            let cs = ch.to_string();
            let syms: [&str; 3] = ["a", "\n", &cs];
            let docs = words_upto(&syms, 4);
            let mut viol = vec![];
            let mut n = 0u64;
            for d in &docs {
                if !d.contains(*ch) {
                    continue;
                }
                n += 1;
                let b = boundaries(d);
                for (class, detail) in c14_doc(d, &b, true) {
                    if viol.len() < 2 {
                        let mut buf = [0u8; 4];
                        let lead = ch.encode_utf8(&mut buf).as_bytes()[0];
                        viol.push(Violation { class: class.clone(), key: format!("lead-byte 0x{lead:02X}|{class}"), witness: json!({"text": d, "pairs": true}), detail: format!("character U+{:04X} (UTF-8 lead byte 0x{lead:02X}): {detail}", *ch as u32) });
                    }
                }
            }
            (docs.len() as u64, n, viol)
        })
        .collect();
    let mut l = Layer { name: "lead-byte-classes".into(), exhaustive: true, ..Default::default() };
    for (s, n, v) in res {
        l.states += s;
        l.executions += n;
        l.transitions += n;
        for x in v {
            rep.violation(x);
        }
    }
    l.bound = format!("{} characters (the first and the last scalar value of every UTF-8 lead byte 0xC2..0xF4) x all documents <= 4 symbols over {{a, LF, that character}} x every boundary x every ordered pair: the full oracle", chars.len());
    rep.layer(l);
}

/// Documents reached through edits: every document <= n symbols, every valid single edit
/// (replacement <= 1 symbol) and, below that, every second edit - applied to the real Vfs; the
/// STORED line map of the result must satisfy the whole C14 oracle (round trip, monotonicity,
/// agreement with the client, to_range) like the line map of a freshly opened document.
fn after_edits_layer(rep: &mut Report, tier: Tier) {
    let n1 = tier.pick(4usize, 5usize);
    let n2 = tier.pick(3usize, 3usize);
    let docs = words_upto(C14_SYMS, n1);
    let reps = words_upto(C14_SYMS, 1);
    let edits_of = |t: &str| -> Vec<Act> {
        let d = RefDoc::new(t);
        let pos = d.valid_positions();
        let mut v = vec![];
        for (i, (ps, _)) in pos.iter().enumerate() {
            for (pe, _) in pos.iter().skip(i) {
                for r in &reps {
                    v.push(Act::Edit { start: *ps, end: *pe, text: r.clone() });
                }
            }
        }
        v
    };
    let res: Vec<(u64, Vec<Violation>)> = docs
        .par_iter()
        .map(|d0| {
            let mut n = 0u64;
            let mut viol: Vec<Violation> = vec![];
            let two = sym_count(d0) <= n2;
            let apply = |vfs: &mut Vfs, f: ide::FileId, a: &Act| -> Result<(), String> {
                let Act::Edit { start, end, text } = a else { return Ok(()) };
                let range = Range::new(Position::new(start.0, start.1), Position::new(end.0, end.1));
                let (_, r) = gv::from_range(vfs, f, range).map_err(|e| e.to_string())?;
                vfs.change_file_content(f, Some(r), text).map_err(|e| e.to_string())
            };
            for a1 in edits_of(d0) {
                let Some(t1) = ref_step(d0, &a1) else { continue };
                let seconds: Vec<Option<Act>> = if two { std::iter::once(None).chain(edits_of(&t1).into_iter().map(Some)).collect() } else { vec![None] };
                for a2 in seconds {
                    let t2 = match &a2 {
                        None => t1.clone(),
                        Some(a) => match ref_step(&t1, a) {
                            Some(t) => t,
                            None => continue,
                        },
                    };
                    n += 1;
                    let r = catch(|| {
                        let mut vfs = Vfs::new();
                        let f = vfs.set_path_content(VfsPath::new("/doc.gleam"), d0.clone());
                        apply(&mut vfs, f, &a1)?;
                        if let Some(a) = &a2 {
                            apply(&mut vfs, f, a)?;
                        }
                        Ok::<_, String>((vfs.content_for_file(f), vfs.line_map_for_file(f)))
                    });
                    let fails: Vec<(String, String)> = match r {
                        Ok(Ok(stored)) => {
                            let b = boundaries(&t2);
                            c14_doc_with(&t2, &b, true, Some(stored))
                        }
                        Ok(Err(e)) => vec![("edit-rejected".into(), e)],
                        Err(m) => vec![("panic".into(), panic_class(&m))],
                    };
                    for (class, detail) in fails {
                        if viol.len() < 4 {
                            let acts: Vec<serde_json::Value> = std::iter::once(&a1).chain(a2.iter()).map(act_json).collect();
                            viol.push(Violation { class: class.clone(), key: format!("after-edits|{class}|{} edit(s)", acts.len()), witness: json!({"open": d0, "edits": acts}), detail: format!("open {d0:?}, edits {acts:?} (client document now {t2:?}): {detail}") });
                        }
                    }
                }
            }
            (n, viol)
        })
        .collect();
    let mut n = 0;
    for (k, v) in res {
        n += k;
        for x in v {
            rep.violation(x);
        }
    }
    rep.layer(Layer {
        name: "documents-reached-through-edits".into(),
        states: docs.len() as u64,
        transitions: n,
        executions: n,
        exhaustive: true,
        bound: format!("all documents <= {n1} symbols over {{a, LF, 2/3/4-byte}} x every valid single edit (replacement <= 1 symbol), and for documents <= {n2} symbols every second edit, applied to the real Vfs; the stored line map of the result x every boundary x every ordered pair: the full C14 oracle"),
        ..Default::default()
    });
}

pub fn run_c14(tier: Tier) -> i32 {
    let mut rep = Report::new("C14", tier);
    let l = tier.pick(7usize, 9usize);
    let k = C14_SYMS.len() as u64;
    let mut total_docs = 0u64;
    let mut total_checks = 0u64;
    let nontrivial = AtomicU64::new(0);
    for n in 0..=l {
        let total = pow(k, n);
        let chunk = 512u64;
        let res: Vec<(u64, Vec<Violation>)> = (0..(total + chunk - 1) / chunk)
            .into_par_iter()
            .map(|c| {
                let mut idx = vec![];
                let mut viol = vec![];
                let mut checks = 0u64;
                for i in c * chunk..((c + 1) * chunk).min(total) {
                    decode(i, k, n, &mut idx);
                    let text: String = idx.iter().map(|&s| C14_SYMS[s]).collect();
                    let offs = boundaries(&text);
                    checks += (offs.len() * (offs.len() + 1) / 2) as u64 + offs.len() as u64;
                    if text.contains('\n') && !text.is_ascii() {
                        nontrivial.fetch_add(1, Ordering::Relaxed);
                    }
                    for (class, detail) in c14_doc(&text, &offs, true) {
                        if viol.len() < 16 {
                            viol.push(Violation { class: class.clone(), key: class, witness: json!({"text": text}), detail });
                        }
                    }
                }
                (checks, viol)
            })
            .collect();
        let mut checks = 0;
        for (c, v) in res {
            checks += c;
            for x in v {
                rep.violation(x);
            }
        }
        total_docs += total;
        total_checks += checks;
        rep.layer(Layer {
            name: format!("docs-len{n}"),
            states: total,
            transitions: checks,
            executions: total,
            exhaustive: true,
            bound: format!("all documents of exactly {n} symbols over {{a, LF, 2-byte, 3-byte, 4-byte}} x all boundaries x all ordered pairs"),
            ..Default::default()
        });
    }
    // Long documents: every pattern of <=3 symbols repeated to 2^16 symbols (capped layer).
    if tier == Tier::Thorough {
        let mut pats = vec![];
        for n in 1..=3 {
            for i in 0..pow(k, n) {
                let mut idx = vec![];
                decode(i, k, n, &mut idx);
                pats.push(idx.iter().map(|&s| C14_SYMS[s]).collect::<String>());
            }
        }
        let res: Vec<(u64, Vec<Violation>)> = pats
            .par_iter()
            .map(|p| {
                let syms = p.chars().count();
                let text = p.repeat((1 << 16) / syms);
                let b = boundaries(&text);
                let mut offs: Vec<usize> = vec![];
                let edge = 2 * syms + 1;
                offs.extend(b.iter().take(edge));
                offs.extend(b.iter().skip(edge).step_by(1021).take_while(|&&o| o + edge < text.len()));
                offs.extend(b.iter().skip(b.len().saturating_sub(edge)));
                offs.sort();
                offs.dedup();
                let v = c14_doc(&text, &offs, false)
                    .into_iter()
                    .take(4)
                    .map(|(class, detail)| Violation { class: class.clone(), key: format!("long|{class}"), witness: json!({"pattern": p, "repeat_to_symbols": 1 << 16}), detail: detail.chars().take(300).collect() })
                    .collect();
                (offs.len() as u64, v)
            })
            .collect();
        let mut checks = 0;
        for (c, v) in res {
            checks += c;
            for x in v {
                rep.violation(x);
            }
        }
        rep.layer(Layer {
            name: "long-docs".into(),
            states: pats.len() as u64,
            transitions: checks,
            executions: pats.len() as u64,
            exhaustive: false,
            bound: "every pattern of <=3 symbols repeated to 2^16 symbols; boundaries of the first/last two periods and every 1021st in between (capped layer)".into(),
            ..Default::default()
        });
        rep.caps.push(json!({"layer": "long-docs", "cap": "sampled boundaries (every 1021st)", "completed": "all 155 periodic documents"}));
    }
    server_locations_layer(&mut rep, tier);
    after_edits_layer(&mut rep, tier);
    lead_bytes_layer(&mut rep);
    rep.distinct_nontrivial = nontrivial.load(Ordering::Relaxed);
    rep.distinct_outcomes = 1 + rep.violations.iter().map(|v| v.class.clone()).collect::<std::collections::BTreeSet<_>>().len() as u64;
    rep.rule = "documents enumerated exhaustively; non-trivial = distinct documents containing both a line break and a multi-byte character".into();
    rep.sample(json!({"text": "a😀\né€", "checked": "all 7 boundaries, 28 ordered pairs"}));
    rep.assumptions = vec!["LineMap is obtained through the real Vfs::set_path_content (same constructor the server uses)".into()];
    rep.extra.insert("documents".into(), json!(total_docs));
    rep.extra.insert("position_checks".into(), json!(total_checks));
    rep.guard(rep.distinct_nontrivial > 100, "documents with line breaks and multi-byte characters");
    rep.finish()
}

/// Identifier runs (maximal `[A-Za-z0-9_]+`) of `text` touching byte offset `o`.
fn names_touching(text: &str, o: usize) -> Vec<String> {
    let b = text.as_bytes();
    let isw = |c: u8| c.is_ascii_alphanumeric() || c == b'_';
    let mut out = vec![];
    let mut i = 0;
    while i < b.len() {
        if isw(b[i]) {
            let s = i;
            while i < b.len() && isw(b[i]) {
                i += 1;
            }
            if s <= o && o <= i {
                out.push(text[s..i].to_string());
            }
        } else {
            i += 1;
        }
    }
    out
}

/// Column units of `c` in a position encoding ("utf-8" bytes, "utf-32" characters, else UTF-16 units).
fn units(c: char, enc: &str) -> u32 {
    match enc {
        "utf-8" => c.len_utf8() as u32,
        "utf-32" => 1,
        _ => c.len_utf16() as u32,
    }
}

/// (line, column) of a byte offset, the column counted in `enc`.
fn pos_in(doc: &RefDoc, off: usize, enc: &str) -> (u32, u32) {
    let (line, _) = doc.pos_of(off);
    let (ls, _) = doc.lines()[line as usize];
    (line, doc.text[ls..off].chars().map(|c| units(c, enc)).sum())
}

/// Byte offset of (line, column) with the column counted in `enc`; None when it is not a character boundary of the line.
fn offset_in(doc: &RefDoc, line: u32, col: u32, enc: &str) -> Option<usize> {
    let (ls, le) = *doc.lines().get(line as usize)?;
    let mut acc = 0u32;
    if col == 0 {
        return Some(ls);
    }
    for (i, c) in doc.text[ls..le].char_indices() {
        acc += units(c, enc);
        if acc == col {
            return Some(ls + i + c.len_utf8());
        }
        if acc > col {
            return None;
        }
    }
    None
}

const LOC_PREFIXES: &[&str] = &["", "// é\n", "// 😀😀\n\n", "/// €€\n// x\n// y\n"];

/// The two modules of the locations workspace; `inline` puts a string with astral and 2-/3-byte
/// characters before the identifiers on their lines.
fn loc_files(pa: &str, pb: &str, inline: bool) -> (String, String) {
    let (sa, sb) = if inline { ("pub const s = \"😀é€\" ", "let s = \"€😀\" ") } else { ("", "") };
    let a = format!(
        "{pa}pub type T {{ K(v: Int) }}\n{sa}pub const c = 1\n{sa}pub fn target(x) {{ x }}\nfn own(k: T) {{ target(c) K(c) k.v }}\n"
    );
    let b = format!(
        "{pb}import a\npub fn use_it() {{ {sb}a.target(a.c) }}\npub fn more(t: a.T) {{ {sb}a.K(1) a.target(2) t.v }}\n"
    );
    (a, b)
}

/// Server-level layer: a two-module package served by the real router; every range of every
/// location, highlight and rename edit the server sends, for a request at every character
/// boundary of both documents, must select in the *client's* copy of the addressed document an
/// identifier spelled like the one under the cursor.
fn server_locations_layer(rep: &mut Report, tier: Tier) {
    let base = crate::core::verif_root().join(".scratch/c14");
    let _ = std::fs::remove_dir_all(&base);
    let mut cfgs = vec![];
    for (ia, pa) in LOC_PREFIXES.iter().enumerate() {
        for (ib, pb) in LOC_PREFIXES.iter().enumerate() {
            for inline in [false, true] {
                if tier == Tier::Quick && !(ia == 0 || ib == 0 || ia == ib) {
                    continue;
                }
                for edited in [false, true] {
                    // the client of the last variant offers UTF-8 positions in `initialize` and then
                    // counts columns in whatever encoding the server announces
                    for offers_utf8 in [false, true] {
                        if offers_utf8 && (edited || !inline) {
                            continue;
                        }
                        cfgs.push((ia, ib, *pa, *pb, inline, edited, offers_utf8));
                    }
                }
            }
        }
    }
    let res: Vec<(u64, u64, Vec<Violation>)> = cfgs
        .par_iter()
        .map(|(ia, ib, pa, pb, inline, edited, offers_utf8)| {
            let root = base.join(format!("w{ia}{ib}{}{}{}", *inline as u8, *edited as u8, *offers_utf8 as u8));
            let (ta, tb) = loc_files(pa, pb, *inline);
            let _ = std::fs::create_dir_all(root.join("src"));
            let _ = std::fs::write(root.join("gleam.toml"), "name = \"p\"\n");
            let _ = std::fs::write(root.join("src/a.gleam"), &ta);
            let _ = std::fs::write(root.join("src/b.gleam"), &tb);
            let ua = format!("file://{}", root.join("src/a.gleam").display());
            let ub = format!("file://{}", root.join("src/b.gleam").display());
            // `edited`: both documents then receive ONE notification with two changes, the second
            // addressed in the document as it is after the first (a line inserted above it)
            let changes = json!([
                {"range": {"start": {"line": 0, "character": 0}, "end": {"line": 0, "character": 0}}, "text": "// é\n"},
                {"range": {"start": {"line": 1, "character": 0}, "end": {"line": 1, "character": 0}}, "text": "/// 😀 €\n"},
            ]);
            let client_text = |t: &str| if *edited { format!("// é\n/// 😀 €\n{t}") } else { t.to_string() };
            let docs = [(ua.clone(), RefDoc::new(client_text(&ta))), (ub.clone(), RefDoc::new(client_text(&tb)))];
            let mut viol: Vec<Violation> = vec![];
            let mut n = 0u64;
            let mut located = 0u64;
            let enc = std::cell::RefCell::new("utf-16".to_string());
            let start = |srv: &mut InProc| {
                if *offers_utf8 {
                    let r = srv.request("initialize", json!({"processId": null, "rootUri": null, "capabilities": {"general": {"positionEncodings": ["utf-8", "utf-16"]}}}));
                    if let Ok(Ok(v)) = r {
                        if let Some(e) = v["capabilities"]["positionEncoding"].as_str() {
                            *enc.borrow_mut() = e.to_string();
                        }
                    }
                    let _ = srv.notify("initialized", json!({}));
                }
                let _ = srv.open(&ua, &ta);
                let _ = srv.open(&ub, &tb);
                if *edited {
                    for u in [&ua, &ub] {
                        let _ = srv.notify("textDocument/didChange", json!({"textDocument": {"uri": u, "version": 2}, "contentChanges": changes}));
                    }
                }
            };
            let mut srv = InProc::new();
            start(&mut srv);
            let wit = |kind: &str, uri: &str, pos: (u32, u32)| json!({"prefix_a": pa, "prefix_b": pb, "inline": inline, "edited": edited, "offers_utf8": offers_utf8, "request": kind, "document": if uri == ua { "a" } else { "b" }, "position": [pos.0, pos.1]});
            for (uri, doc) in &docs {
                for (_, off) in doc.valid_positions() {
                    let names = names_touching(&doc.text, off);
                    if names.is_empty() {
                        continue;
                    }
                    let enc = enc.borrow().clone();
                    let pos = pos_in(doc, off, &enc);
                    let upper = names.iter().any(|w| w.chars().next().map_or(false, |c| c.is_ascii_uppercase()));
                    let tdp = json!({"textDocument": {"uri": uri}, "position": {"line": pos.0, "character": pos.1}});
                    let mut reqs = vec![
                        ("references", "textDocument/references", { let mut p = tdp.clone(); p["context"] = json!({"includeDeclaration": true}); p }),
                        ("definition", "textDocument/definition", tdp.clone()),
                        ("documentHighlight", "textDocument/documentHighlight", tdp.clone()),
                        ("prepareRename", "textDocument/prepareRename", tdp.clone()),
                    ];
                    let mut rn = tdp.clone();
                    rn["newName"] = json!(if upper { "Zz9" } else { "zz9" });
                    reqs.push(("rename", "textDocument/rename", rn));
                    for (kind, method, params) in reqs {
                        n += 1;
                        let v = match srv.request(method, params) {
                            Err(m) => {
                                viol.push(Violation { class: "query-panic".into(), key: format!("server-locations|{kind}|{}", panic_class(&m)), witness: wit(kind, uri, pos), detail: format!("{kind} at {pos:?} panicked: {}", panic_class(&m)) });
                                srv = InProc::new();
                                start(&mut srv);
                                continue;
                            }
                            Ok(Err(_)) => continue,
                            Ok(Ok(v)) => v,
                        };
                        // (uri, range) pairs of the answer
                        let mut locs: Vec<(String, serde_json::Value)> = vec![];
                        match kind {
                            "references" | "definition" => {
                                let arr = if v.is_array() { v.as_array().cloned().unwrap() } else if v.is_object() { vec![v.clone()] } else { vec![] };
                                for l in arr {
                                    let u = l["uri"].as_str().or(l["targetUri"].as_str()).unwrap_or("").to_string();
                                    let r = if l["range"].is_object() { l["range"].clone() } else { l["targetSelectionRange"].clone() };
                                    locs.push((u, r));
                                }
                            }
                            "documentHighlight" => {
                                for h in v.as_array().cloned().unwrap_or_default() {
                                    locs.push((uri.clone(), h["range"].clone()));
                                }
                            }
                            "prepareRename" => {
                                if v["start"].is_object() {
                                    locs.push((uri.clone(), v.clone()));
                                } else if v["range"].is_object() {
                                    locs.push((uri.clone(), v["range"].clone()));
                                }
                            }
                            _ => {
                                if let Some(ch) = v["changes"].as_object() {
                                    for (u, edits) in ch {
                                        for e in edits.as_array().cloned().unwrap_or_default() {
                                            locs.push((u.clone(), e["range"].clone()));
                                        }
                                    }
                                }
                                for dc in v["documentChanges"].as_array().cloned().unwrap_or_default() {
                                    let u = dc["textDocument"]["uri"].as_str().unwrap_or("").to_string();
                                    for e in dc["edits"].as_array().cloned().unwrap_or_default() {
                                        locs.push((u.clone(), e["range"].clone()));
                                    }
                                }
                            }
                        }
                        for (u, r) in locs {
                            located += 1;
                            let Some((_, target)) = docs.iter().find(|d| d.0 == u) else {
                                viol.push(Violation { class: "location-outside-workspace".into(), key: format!("server-locations|{kind}"), witness: wit(kind, uri, pos), detail: format!("{kind} at {pos:?}: location in unknown document {u}") });
                                continue;
                            };
                            let p = |k: &str| (r[k]["line"].as_u64().unwrap_or(u64::MAX) as u32, r[k]["character"].as_u64().unwrap_or(u64::MAX) as u32);
                            let (s, e) = (p("start"), p("end"));
                            let sel = match (offset_in(target, s.0, s.1, &enc), offset_in(target, e.0, e.1, &enc)) {
                                (Some(so), Some(eo)) if so <= eo => Some(target.text[so..eo].to_string()),
                                _ => None,
                            };
                            // a module is located at the start of its file (empty range at 0:0)
                            let module_target = kind == "definition" && s == (0, 0) && e == (0, 0) && names.iter().any(|w| w == "a");
                            // a definition may be located at its whole declaration, which contains its name
                            let declaration = kind == "definition"
                                && sel.as_ref().map_or(false, |t| (0..=t.len()).any(|o| names_touching(t, o).iter().any(|w| names.contains(w))));
                            let ok = module_target || declaration || sel.as_ref().map_or(false, |t| names.contains(t));
                            if !ok && viol.len() < 8 {
                                let same = if u == *uri { "same document" } else { "other document" };
                                viol.push(Violation {
                                    class: "range-selects-other-text".into(),
                                    key: format!("server-locations|{kind}|{same}"),
                                    witness: wit(kind, uri, pos),
                                    detail: format!("{kind} at {pos:?} on {names:?}: the range {s:?}..{e:?} selects {sel:?} in the client's copy of {}", if u == ua { "a.gleam" } else { "b.gleam" }),
                                });
                            }
                        }
                    }
                }
            }
            let _ = std::fs::remove_dir_all(&root);
            (n, located, viol)
        })
        .collect();
    let mut n = 0;
    let mut located = 0;
    for (a, b, v) in res {
        n += a;
        located += b;
        for x in v {
            rep.violation(x);
        }
    }
    rep.guard(located > 1000, "server-locations: ranges received and checked");
    rep.extra.insert("server_location_ranges_checked".into(), json!(located));
    rep.layer(Layer {
        name: "server-locations".into(),
        states: cfgs.len() as u64,
        transitions: located,
        executions: n,
        exhaustive: true,
        bound: format!("two-module package (real directory, real router): {} combinations of 4 leading-comment prefixes per module (different line counts, 2-/3-/4-byte characters) x multi-byte string before the identifiers on their lines or not x as opened, or after one didChange with two changes (two lines inserted at the top, the second addressed after the first), or with a client that offers UTF-8 positions in `initialize` and counts columns in the encoding the server announces; references / definition / documentHighlight / prepareRename / rename at every character boundary touching an identifier in both documents; every returned range resolved in the client's copy of the addressed document", cfgs.len()),
        ..Default::default()
    });
}

pub fn replay_c14(w: &serde_json::Value) -> Vec<String> {
    if let (Some(open), Some(edits)) = (w["open"].as_str(), w["edits"].as_array()) {
        let mut vfs = Vfs::new();
        let f = vfs.set_path_content(VfsPath::new("/doc.gleam"), open.to_owned());
        let mut t = open.to_string();
        for e in edits {
            let Some(a) = act_from_json(e) else { return vec!["bad witness".into()] };
            let Some(nt) = ref_step(&t, &a) else { return vec!["invalid edit in witness".into()] };
            t = nt;
            if let Act::Edit { start, end, text } = &a {
                let range = Range::new(Position::new(start.0, start.1), Position::new(end.0, end.1));
                let r = catch(|| gv::from_range(&vfs, f, range).map(|x| x.1).map_err(|e| e.to_string()));
                match r {
                    Ok(Ok(r)) => {
                        if let Err(e) = vfs.change_file_content(f, Some(r), text) {
                            return vec![format!("edit-rejected: {e}")];
                        }
                    }
                    other => return vec![format!("edit-rejected: {other:?}")],
                }
            }
        }
        let b = boundaries(&t);
        return c14_doc_with(&t, &b, true, Some((vfs.content_for_file(f), vfs.line_map_for_file(f)))).into_iter().map(|(c, d)| format!("{c}: {d}")).collect();
    }
    if w.get("prefix_a").is_some() {
        // server-locations layer: re-run it and report what it finds for the same configuration and request
        let mut rep = Report::new("C14", Tier::Thorough);
        server_locations_layer(&mut rep, Tier::Thorough);
        let same = |v: &Violation| ["prefix_a", "prefix_b", "inline", "edited", "offers_utf8", "request", "document"].iter().all(|k| v.witness[*k] == w[*k]);
        return rep.violations.iter().filter(|v| same(v)).map(|v| format!("{}: {}", v.class, v.detail)).collect();
    }
    let text = if let Some(t) = w["text"].as_str() {
        t.to_string()
    } else if let Some(p) = w["pattern"].as_str() {
        p.repeat((1 << 16) / p.chars().count().max(1))
    } else {
        return vec!["bad witness".into()];
    };
    let offs = boundaries(&text);
    let offs: Vec<usize> = if offs.len() > 64 { offs.iter().copied().step_by(1021).collect() } else { offs };
    c14_doc(&text, &offs, offs.len() <= 64).into_iter().map(|(c, d)| format!("{c}: {d}")).collect()
}

// ---------------------------------------------------------------------------------------
// C13
// ---------------------------------------------------------------------------------------

const C13_SYMS: &[&str] = &["a", "\n", "\r\n", "é", "€", "😀"];

fn sym_count(t: &str) -> usize {
    t.chars().filter(|&c| c != '\r').count()
}

#[derive(Clone, Debug, PartialEq, Eq, Hash)]
pub enum Act {
    Edit { start: (u32, u32), end: (u32, u32), text: String },
    Full(String),
}

pub struct DocModel {
    max_syms: usize,
    reps: Vec<String>,
    sink: Arc<Mutex<Vec<Violation>>>,
    transitions: Arc<AtomicU64>,
    crlf_states: Arc<AtomicU64>,
}

/// One step on the real code: start from the server state for `before` (fresh normalisation —
/// sound because the checked invariant says every reachable server state equals it), apply
/// the change through `convert::from_range` + `Vfs::change_file_content`.
pub fn real_step(before: &str, act: &Act) -> Result<(String, bool), String> {
    catch(|| {
        let mut vfs = Vfs::new();
        let f = vfs.set_path_content(VfsPath::new("/doc.gleam"), before.to_owned());
        match act {
            Act::Full(t) => vfs.change_file_content(f, None, t).map_err(|e| e.to_string())?,
            Act::Edit { start, end, text } => {
                let range = Range::new(Position::new(start.0, start.1), Position::new(end.0, end.1));
                let (_, r) = gv::from_range(&vfs, f, range).map_err(|e| e.to_string())?;
                vfs.change_file_content(f, Some(r), text).map_err(|e| e.to_string())?;
            }
        }
        let content = vfs.content_for_file(f).to_string();
        let lm = vfs.line_map_for_file(f);
        let (_, fresh) = line_map_of(&content);
        Ok::<_, String>((content, *lm == *fresh))
    })
    .map_err(|m| format!("panic: {}", panic_class(&m)))?
}

pub fn ref_step(before: &str, act: &Act) -> Option<String> {
    let mut d = RefDoc::new(before);
    match act {
        Act::Full(t) => d.text = t.clone(),
        Act::Edit { start, end, text } => {
            let s = d.offset_of(start.0, start.1)?;
            let e = d.offset_of(end.0, end.1)?;
            if s > e {
                return None;
            }
            d.replace(s, e, text);
        }
    }
    Some(d.text)
}

fn c13_check(before: &str, act: &Act) -> Option<(String, String)> {
    let after = ref_step(before, act)?;
    let want = RefDoc::new(after.clone()).without_cr();
    match real_step(before, act) {
        Ok((got, lm_ok)) => {
            if got != want {
                Some(("text-diverged".into(), format!("client {before:?} --{act:?}--> {after:?}; server has {got:?}")))
            } else if !lm_ok {
                Some(("stale-line-map".into(), format!("client {before:?} --{act:?}--> {after:?}; server line map differs from a fresh one")))
            } else {
                None
            }
        }
        Err(e) => Some(("rejected-valid-edit".into(), format!("client {before:?} --{act:?}--> {after:?}; server: {e}"))),
    }
}

impl Model for DocModel {
    type State = String;
    type Action = Act;

    fn init_states(&self) -> Vec<String> {
        vec![String::new()]
    }

    fn actions(&self, state: &String, actions: &mut Vec<Act>) {
        let d = RefDoc::new(state.clone());
        let pos = d.valid_positions();
        for (i, (ps, _)) in pos.iter().enumerate() {
            for (pe, _) in pos.iter().skip(i) {
                for r in &self.reps {
                    actions.push(Act::Edit { start: *ps, end: *pe, text: r.clone() });
                }
            }
        }
        for r in &self.reps {
            actions.push(Act::Full(r.clone()));
        }
    }

    fn next_state(&self, state: &String, action: Act) -> Option<String> {
        self.transitions.fetch_add(1, Ordering::Relaxed);
        if let Some((class, detail)) = c13_check(state, &action) {
            let mut s = self.sink.lock().unwrap();
            if s.len() < 10_000 {
                s.push(Violation { class: class.clone(), key: class, witness: json!({"before": state, "action": act_json(&action)}), detail });
            }
        }
        let after = ref_step(state, &action)?;
        if sym_count(&after) > self.max_syms {
            return None;
        }
        if after.contains('\r') {
            self.crlf_states.fetch_add(1, Ordering::Relaxed);
        }
        Some(after)
    }

    fn properties(&self) -> Vec<Property<Self>> {
        // Violations are collected in the sink by next_state so that the search always runs to
        // completion and reports every violation; this property only keeps the checker going.
        vec![Property::always("explore", |_, _| true)]
    }
}

pub fn act_json(a: &Act) -> serde_json::Value {
    match a {
        Act::Full(t) => json!({"full": t}),
        Act::Edit { start, end, text } => json!({"start": [start.0, start.1], "end": [end.0, end.1], "text": text}),
    }
}

pub fn act_from_json(v: &serde_json::Value) -> Option<Act> {
    if let Some(t) = v["full"].as_str() {
        return Some(Act::Full(t.to_string()));
    }
    let p = |x: &serde_json::Value| Some((x[0].as_u64()? as u32, x[1].as_u64()? as u32));
    Some(Act::Edit { start: p(&v["start"])?, end: p(&v["end"])?, text: v["text"].as_str()?.to_string() })
}

fn words_upto(syms: &[&str], n: usize) -> Vec<String> {
    let mut out = vec![String::new()];
    let mut frontier = vec![String::new()];
    for _ in 0..n {
        let mut next = vec![];
        for f in &frontier {
            for s in syms {
                next.push(format!("{f}{s}"));
            }
        }
        out.extend(next.iter().cloned());
        frontier = next;
    }
    out
}

/// Router layer: the real per-change loop of `on_did_change`, two changes in one notification.
fn router_layer(rep: &mut Report, tier: Tier) {
    let docs = words_upto(C13_SYMS, tier.pick(2, 3));
    let reps = words_upto(C13_SYMS, 1);
    let uri = "file:///verif/doc.gleam";
    let res: Vec<(u64, Vec<Violation>)> = docs
        .par_iter()
        .map(|d0| {
            let mut viol: Vec<Violation> = vec![];
            let mut n = 0u64;
            let mut srv = InProc::new();
            let mut version = 1;
            let all_edits = |t: &str| -> Vec<Act> {
                let d = RefDoc::new(t);
                let pos = d.valid_positions();
                let mut v = vec![];
                for (i, (ps, _)) in pos.iter().enumerate() {
                    for (pe, _) in pos.iter().skip(i) {
                        for r in &reps {
                            v.push(Act::Edit { start: *ps, end: *pe, text: r.clone() });
                        }
                    }
                }
                v.push(Act::Full("a\r\n😀".into()));
                v
            };
            let _ = srv.open(uri, d0);
            for a1 in all_edits(d0) {
                let Some(t1) = ref_step(d0, &a1) else { continue };
                for a2 in all_edits(&t1) {
                    let Some(t2) = ref_step(&t1, &a2) else { continue };
                    n += 1;
                    // reset the document to d0 with a full-text change, then send both edits in ONE notification
                    version += 1;
                    let chg = |a: &Act| match a {
                        Act::Full(t) => json!({"text": t}),
                        Act::Edit { start, end, text } => json!({"range": {"start": {"line": start.0, "character": start.1}, "end": {"line": end.0, "character": end.1}}, "text": text}),
                    };
                    let r0 = srv.notify("textDocument/didChange", json!({"textDocument": {"uri": uri, "version": version}, "contentChanges": [{"text": d0}]}));
                    version += 1;
                    let r1 = srv.notify("textDocument/didChange", json!({"textDocument": {"uri": uri, "version": version}, "contentChanges": [chg(&a1), chg(&a2)]}));
                    let got = srv.server_text(uri);
                    let want = RefDoc::new(t2.clone()).without_cr();
                    let bad = match (&r0, &r1, &got) {
                        (Ok(_), Ok(_), Ok(Some(g))) if *g == want => None,
                        (Ok(_), Ok(_), Ok(Some(g))) => Some(("router-text-diverged", format!("server has {g:?}, client {t2:?}"))),
                        (Ok(_), Ok(_), Ok(None)) => Some(("router-document-lost", "server no longer knows the document".to_string())),
                        (a, b, c) => Some(("router-panic", format!("{a:?} {b:?} {c:?}"))),
                    };
                    if let Some((class, d)) = bad {
                        if viol.len() < 8 {
                            viol.push(Violation { class: class.into(), key: class.into(), witness: json!({"open": d0, "changes": [act_json(&a1), act_json(&a2)]}), detail: format!("open {d0:?}, one notification with {a1:?} then {a2:?}: {d}") });
                        }
                        // a panicking handler poisons the store lock: start over with a fresh server
                        srv = InProc::new();
                        let _ = srv.open(uri, d0);
                    }
                }
            }
            (n, viol)
        })
        .collect();
    let mut n = 0;
    for (c, v) in res {
        n += c;
        for x in v {
            rep.violation(x);
        }
    }
    rep.layer(Layer {
        name: "router-two-changes".into(),
        states: docs.len() as u64,
        transitions: n,
        executions: n,
        exhaustive: true,
        bound: format!("all documents <= {} symbols x all ordered pairs of valid edits (replacement <= 1 symbol, plus one full-text change) sent in ONE didChange to the real Server::on_did_change; text read back via glas/syntaxTree", tier.pick(2, 3)),
        ..Default::default()
    });
}

/// Disk layer: documents that exist on disk with a content different from the editor's
/// buffer (unsaved changes), in three layouts; didOpen then every valid single edit.
fn disk_layer(rep: &mut Report, tier: Tier) {
    let base = crate::core::verif_root().join(".scratch/c13");
    let _ = std::fs::remove_dir_all(&base);
    let layouts: Vec<(&str, Vec<(&str, &str)>, &str)> = vec![
        ("free-standing", vec![("loose/doc.gleam", "pub fn on_disk() { 1 }\n")], "loose/doc.gleam"),
        ("project-src", vec![("proj/gleam.toml", "name = \"proj\"\n"), ("proj/src/doc.gleam", "pub fn on_disk() { 1 }\n"), ("proj/src/other.gleam", "pub fn o() { 2 }\n")], "proj/src/doc.gleam"),
        ("project-test-dir", vec![("proj2/gleam.toml", "name = \"proj2\"\n"), ("proj2/test/doc.gleam", "pub fn on_disk() { 1 }\n")], "proj2/test/doc.gleam"),
    ];
    let editor_texts = ["pub fn in_editor() { 2 }\n", "", "a\r\n😀", "pub fn on_disk() { 1 }\n"];
    let reps = words_upto(C13_SYMS, tier.pick(1, 1));
    let mut n = 0u64;
    let mut states = 0u64;
    for (lname, files, doc) in &layouts {
        for (ti, et) in editor_texts.iter().enumerate() {
            let root = base.join(format!("{lname}-{ti}"));
            for (rel, content) in files {
                let p = root.join(rel);
                let _ = std::fs::create_dir_all(p.parent().unwrap());
                let _ = std::fs::write(&p, content);
            }
            let uri = format!("file://{}", root.join(doc).display());
            states += 1;
            let mut srv = InProc::new();
            let r0 = srv.open(&uri, et);
            let got = srv.server_text(&uri);
            n += 1;
            let want = RefDoc::new(*et).without_cr();
            let mut fail = |what: String, rep: &mut Report| {
                rep.violation(Violation { class: "open-text-diverged".into(), key: format!("{lname}"), witness: json!({"layout": lname, "editor_text": et, "disk_text": files.iter().find(|f| f.0 == *doc).map(|f| f.1)}), detail: format!("layout {lname}: file on disk differs from the editor buffer; after didOpen {what}") });
            };
            match (&r0, &got) {
                (Ok(_), Ok(Some(g))) if *g == want => {}
                (a, b) => {
                    fail(format!("the server analyses {b:?} (open: {a:?}) but the editor has {et:?}"), rep);
                    continue;
                }
            }
            // file-watcher events for the open document (created / changed / deleted, and the
            // delete + create pair of an atomic save): the editor's buffer stays the truth
            for events in [vec![1], vec![2], vec![3], vec![3, 1], vec![2, 3]] {
                let mut srv2 = InProc::new();
                let _ = srv2.open(&uri, et);
                let changes: Vec<serde_json::Value> = events.iter().map(|t| json!({"uri": uri, "type": t})).collect();
                let r = srv2.notify("workspace/didChangeWatchedFiles", json!({"changes": changes}));
                let _ = srv2.notify("textDocument/didChange", json!({"textDocument": {"uri": uri, "version": 2}, "contentChanges": [{"range": {"start": {"line": 0, "character": 0}, "end": {"line": 0, "character": 0}}, "text": "a"}]}));
                n += 1;
                let got = srv2.server_text(&uri);
                let want_after = RefDoc::new(format!("a{et}")).without_cr();
                if !matches!((&r, &got), (Ok(_), Ok(Some(g))) if *g == want_after) {
                    let names: Vec<&str> = events.iter().map(|t| match t { 1 => "created", 2 => "changed", _ => "deleted" }).collect();
                    rep.violation(Violation { class: "watched-file-event-changed-open-document".into(), key: format!("{lname}|{}", names.join("+")), witness: json!({"layout": lname, "editor_text": et, "watched_events": events}), detail: format!("layout {lname}: didOpen, watched-file events {names:?} for the open document, then an edit inserting \"a\" at 0:0: the server has {got:?}, the editor {:?}", format!("a{et}")) });
                }
            }
            // every valid single edit afterwards
            let d = RefDoc::new(*et);
            let pos = d.valid_positions();
            let mut version = 1;
            'edits: for (i, (ps, _)) in pos.iter().enumerate() {
                for (pe, _) in pos.iter().skip(i) {
                    for r in &reps {
                        let act = Act::Edit { start: *ps, end: *pe, text: r.clone() };
                        let Some(after) = ref_step(et, &act) else { continue };
                        version += 1;
                        let _ = srv.notify("textDocument/didChange", json!({"textDocument": {"uri": uri, "version": version}, "contentChanges": [{"text": et}]}));
                        version += 1;
                        let r1 = srv.notify("textDocument/didChange", json!({"textDocument": {"uri": uri, "version": version}, "contentChanges": [{"range": {"start": {"line": ps.0, "character": ps.1}, "end": {"line": pe.0, "character": pe.1}}, "text": r}]}));
                        n += 1;
                        let got = srv.server_text(&uri);
                        let want = RefDoc::new(after.clone()).without_cr();
                        if !matches!((&r1, &got), (Ok(_), Ok(Some(g))) if *g == want) {
                            rep.violation(Violation { class: "router-text-diverged".into(), key: format!("disk|{lname}"), witness: json!({"layout": lname, "editor_text": et, "edit": act_json(&act)}), detail: format!("layout {lname}: after {act:?} the server has {got:?}, the editor {after:?}") });
                            break 'edits;
                        }
                    }
                }
            }
        }
    }
    rep.layer(Layer {
        name: "disk-backed-documents".into(),
        states,
        transitions: n,
        executions: n,
        exhaustive: true,
        bound: "3 project layouts (free-standing file, <pkg>/src, <pkg>/test; real directories) x 4 editor buffers differing from the file on disk x didOpen + every valid single edit with a <=1-symbol replacement; and didOpen + watched-file events for the open document (created, changed, deleted, deleted+created, changed+deleted) + an edit".into(),
        ..Default::default()
    });
}

/// Columns past the end of a line mean the end of that line (LSP 3.17, Position: "if the
/// character value is greater than the line length it defaults back to the line length").
/// Every document x every line x columns 1, 2, 7 and u32::MAX past the line's UTF-16 length, as
/// end of a range (with every valid start before it) and as both ends; replacements <= 1 symbol.
fn overlong_layer(rep: &mut Report, tier: Tier) {
    let docs = words_upto(C13_SYMS, tier.pick(3, 4));
    let reps = words_upto(C13_SYMS, 1);
    let res: Vec<(u64, Vec<Violation>)> = docs
        .par_iter()
        .map(|doc| {
            let d = RefDoc::new(doc.clone());
            let lines = d.lines();
            let valid = d.valid_positions();
            let mut n = 0u64;
            let mut viol = vec![];
            for (li, (ls, le)) in lines.iter().enumerate() {
                let len16: u32 = doc[*ls..*le].chars().map(|c| c.len_utf16() as u32).sum();
                for extra in [1u32, 2, 7, u32::MAX] {
                    let col = if extra == u32::MAX { u32::MAX } else { len16 + extra };
                    let over = (li as u32, col);
                    // starts: every valid position at or before the line end, and the over-long position itself
                    let mut starts: Vec<((u32, u32), usize)> = valid.iter().filter(|(_, o)| *o <= *le).cloned().collect();
                    starts.push((over, *le));
                    for (sp, so) in starts {
                        for r in &reps {
                            n += 1;
                            let act = Act::Edit { start: sp, end: over, text: r.clone() };
                            let mut after = d.clone();
                            after.replace(so, *le, r);
                            let want = after.without_cr();
                            let outcome = real_step(doc, &act);
                            let bad = match &outcome {
                                Ok((got, lm_ok)) if *got == want && *lm_ok => None,
                                Ok((got, true)) => Some(("overlong-column-text-diverged", format!("server has {got:?}, the client (column clamped to the line end) {:?}", after.text))),
                                Ok((_, false)) => Some(("stale-line-map", "server line map differs from a fresh one".to_string())),
                                Err(e) => Some(("overlong-column-rejected", format!("server: {e}"))),
                            };
                            if let Some((class, what)) = bad {
                                if viol.len() < 4 {
                                    let kind = if doc[*ls..*le].is_ascii() { "ASCII line" } else { "line with multi-byte characters" };
                                    viol.push(Violation { class: class.into(), key: format!("{kind}|{}", if sp == over { "both ends past the line end" } else { "end past the line end" }), witness: json!({"before": doc, "action": act_json(&act), "overlong": true}), detail: format!("client {doc:?} --{act:?}--> {what}") });
                                }
                            }
                        }
                    }
                }
            }
            (n, viol)
        })
        .collect();
    let mut n = 0;
    for (k, v) in res {
        n += k;
        for x in v {
            rep.violation(x);
        }
    }
    rep.layer(Layer {
        name: "columns-past-the-line-end".into(),
        states: docs.len() as u64,
        transitions: n,
        executions: n,
        exhaustive: true,
        bound: format!("all documents <= {} symbols over {{a, LF, CRLF, 2/3/4-byte}} x every line x end column 1, 2, 7 code units and u32::MAX past the line's UTF-16 length x every valid start up to the line end (and the same over-long position as start) x replacements <= 1 symbol; reference: the column defaults back to the line length", tier.pick(3, 4)),
        ..Default::default()
    });
}

/// Operations of the multi-document histories layer (what a well-behaved client and a file
/// watcher can send about one document).
#[derive(Clone, Copy, Debug, PartialEq, Eq)]
enum HOp {
    OpenA,
    OpenB,
    Close,
    Ins,
    Del,
    Full,
    Save,
    WChanged,
    WDeleted,
}

const HOPS: [HOp; 9] = [HOp::OpenA, HOp::OpenB, HOp::Close, HOp::Ins, HOp::Del, HOp::Full, HOp::Save, HOp::WChanged, HOp::WDeleted];

fn hop_name(o: HOp) -> &'static str {
    match o {
        HOp::OpenA => "open-A",
        HOp::OpenB => "open-B",
        HOp::Close => "close",
        HOp::Ins => "insert",
        HOp::Del => "delete",
        HOp::Full => "full-text",
        HOp::Save => "save",
        HOp::WChanged => "watched-changed",
        HOp::WDeleted => "watched-deleted",
    }
}

const HDOCS: [&str; 5] = ["loose/d1.gleam", "app/src/d2.gleam", "app/src/d3.gleam", "lib/src/d4.gleam", "app/test/nested/src/d5.gleam"];

fn h_text(doc: usize, o: HOp) -> String {
    match o {
        HOp::OpenA => format!("pub fn editor_a{doc}() {{ 1 }}\n"),
        HOp::OpenB => format!("// é😀\r\npub fn editor_b{doc}() {{ 2 }}\r\n"),
        _ => format!("pub fn full{doc}() {{ 3 }}\n"),
    }
}

fn h_tree(base: &std::path::Path) {
    let w = |rel: &str, c: &str| {
        let p = base.join(rel);
        let _ = std::fs::create_dir_all(p.parent().unwrap());
        let _ = std::fs::write(p, c);
    };
    w("loose/d1.gleam", "pub fn on_disk1() { 0 }\n");
    w("app/gleam.toml", "name = \"app\"\nversion = \"1.0.0\"\n\n[dependencies]\nlib = { path = \"../lib\" }\n");
    w("app/src/d2.gleam", "import d3\npub fn on_disk2() { d3.on_disk3() }\n");
    w("app/src/d3.gleam", "pub fn on_disk3() { 0 }\n");
    w("lib/gleam.toml", "name = \"lib\"\nversion = \"1.0.0\"\n");
    w("lib/src/d4.gleam", "pub fn on_disk4() { 0 }\n");
    // a package nested in another one's test directory (a fixture project)
    w("app/test/nested/gleam.toml", "name = \"nested\"\nversion = \"1.0.0\"\n");
    w("app/test/nested/src/d5.gleam", "pub fn on_disk5() { 0 }\n");
}

/// Runs one history on a fresh server; returns the documents whose server text differs from the
/// client's (None = the server does not know the document), or a panic message.
fn h_run(base: &std::path::Path, hist: &[(usize, HOp)]) -> Result<Vec<(usize, String, Option<String>)>, String> {
    let uri = |d: usize| format!("file://{}", base.join(HDOCS[d]).display());
    let mut client: Vec<Option<RefDoc>> = vec![None; HDOCS.len()];
    let mut version = vec![0i32; HDOCS.len()];
    let mut srv = InProc::new();
    for &(d, o) in hist {
        let r = match o {
            HOp::OpenA | HOp::OpenB => {
                let t = h_text(d, o);
                client[d] = Some(RefDoc::new(t.clone()));
                version[d] += 1;
                srv.notify("textDocument/didOpen", json!({"textDocument": {"uri": uri(d), "languageId": "gleam", "version": version[d], "text": t}}))
            }
            HOp::Close => {
                client[d] = None;
                srv.notify("textDocument/didClose", json!({"textDocument": {"uri": uri(d)}}))
            }
            HOp::Ins => {
                let doc = client[d].as_mut().unwrap();
                // at the start of the last line: exercises the line table of the stored copy
                let (l, _) = doc.pos_of(doc.text.len());
                let off = doc.offset_of(l, 0).unwrap();
                doc.replace(off, off, "é\n");
                version[d] += 1;
                srv.notify("textDocument/didChange", json!({"textDocument": {"uri": uri(d), "version": version[d]}, "contentChanges": [{"range": {"start": {"line": l, "character": 0}, "end": {"line": l, "character": 0}}, "text": "é\n"}]}))
            }
            HOp::Del => {
                let doc = client[d].as_mut().unwrap();
                // the first character of the document, if there is one
                let end = doc.text.chars().next().map_or(0, |c| c.len_utf8());
                let (el, ec) = doc.pos_of(end);
                doc.replace(0, end, "");
                version[d] += 1;
                srv.notify("textDocument/didChange", json!({"textDocument": {"uri": uri(d), "version": version[d]}, "contentChanges": [{"range": {"start": {"line": 0, "character": 0}, "end": {"line": el, "character": ec}}, "text": ""}]}))
            }
            HOp::Full => {
                let t = h_text(d, o);
                client[d] = Some(RefDoc::new(t.clone()));
                version[d] += 1;
                srv.notify("textDocument/didChange", json!({"textDocument": {"uri": uri(d), "version": version[d]}, "contentChanges": [{"text": t}]}))
            }
            HOp::Save => srv.notify("textDocument/didSave", json!({"textDocument": {"uri": uri(d)}})),
            HOp::WChanged => srv.notify("workspace/didChangeWatchedFiles", json!({"changes": [{"uri": uri(d), "type": 2}]})),
            HOp::WDeleted => srv.notify("workspace/didChangeWatchedFiles", json!({"changes": [{"uri": uri(d), "type": 3}]})),
        };
        r.map_err(|e| format!("panic in {} of {}: {}", hop_name(o), HDOCS[d], panic_class(&e)))?;
    }
    let mut bad = vec![];
    for d in 0..HDOCS.len() {
        let Some(doc) = &client[d] else { continue };
        let want = doc.without_cr();
        let got = srv.server_text(&uri(d)).map_err(|e| format!("panic in glas/syntaxTree: {}", panic_class(&e)))?;
        if got.as_deref() != Some(want.as_str()) {
            bad.push((d, want, got));
        }
    }
    Ok(bad)
}

fn h_valid(open: &[bool], d: usize, o: HOp) -> bool {
    match o {
        HOp::OpenA | HOp::OpenB => !open[d],
        HOp::Close | HOp::Ins | HOp::Del | HOp::Full | HOp::Save => open[d],
        HOp::WChanged | HOp::WDeleted => true,
    }
}

fn h_enumerate(n: usize) -> Vec<Vec<(usize, HOp)>> {
    fn go(n: usize, open: &mut Vec<bool>, cur: &mut Vec<(usize, HOp)>, out: &mut Vec<Vec<(usize, HOp)>>) {
        // a history is worth running when some document is open at its end
        if open.iter().any(|&o| o) {
            out.push(cur.clone());
        }
        if cur.len() == n {
            return;
        }
        for d in 0..HDOCS.len() {
            for o in HOPS {
                if !h_valid(open, d, o) {
                    continue;
                }
                let was = open[d];
                match o {
                    HOp::OpenA | HOp::OpenB => open[d] = true,
                    HOp::Close => open[d] = false,
                    _ => {}
                }
                cur.push((d, o));
                go(n, open, cur, out);
                cur.pop();
                open[d] = was;
            }
        }
    }
    let mut out = vec![];
    go(n, &mut vec![false; HDOCS.len()], &mut vec![], &mut out);
    out
}

fn h_json(h: &[(usize, HOp)]) -> serde_json::Value {
    json!(h.iter().map(|(d, o)| json!([HDOCS[*d], hop_name(*o)])).collect::<Vec<_>>())
}

/// Multi-document histories layer: every history of <= n client / watcher operations over five
/// documents (a free-standing file, two modules of one package, a module of a path dependency of
/// that package, a module of a package nested in that package's test directory; all present on
/// disk with other contents), each on a fresh server through the
/// real router. After the history every document the client holds open must be analysed with the
/// client's text. Starts the store from non-initial states: vacated and re-used slots, packages
/// loaded by another document's didOpen, documents known from disk before they are opened.
fn histories_layer(rep: &mut Report, tier: Tier) {
    let base = crate::core::verif_root().join(".scratch/c13h");
    let _ = std::fs::remove_dir_all(&base);
    h_tree(&base);
    let n = tier.pick(3, 4);
    let hists = h_enumerate(n);
    let res: Vec<Violation> = hists
        .par_iter()
        .filter_map(|h| {
            let ops: Vec<String> = h.iter().map(|(d, o)| format!("{}:{}", HDOCS[*d], hop_name(*o))).collect();
            match h_run(&base, h) {
                Ok(bad) if bad.is_empty() => None,
                Ok(bad) => {
                    let (d, want, got) = &bad[0];
                    // key: the kind of the last operation on the diverged document and whether other documents were involved
                    let last = h.iter().rev().find(|(x, _)| x == d).map(|(_, o)| hop_name(*o)).unwrap_or("-");
                    let others = h.iter().any(|(x, _)| x != d);
                    Some(Violation { class: "history-text-diverged".into(), key: format!("{}|last op on it: {last}|{}", HDOCS[*d], if others { "other documents involved" } else { "alone" }), witness: json!({"history": h_json(h)}), detail: format!("history {ops:?}: the server analyses {got:?} for {}, the client has {want:?}", HDOCS[*d]) })
                }
                Err(e) => Some(Violation { class: "history-panic".into(), key: e.clone(), witness: json!({"history": h_json(h)}), detail: format!("history {ops:?}: {e}") }),
            }
        })
        .collect();
    // shortest witness per key
    let mut vs = res;
    vs.sort_by_key(|v| (v.witness["history"].as_array().map_or(0, |a| a.len()), v.detail.clone()));
    let mut seen = std::collections::BTreeSet::new();
    for v in vs {
        if seen.insert(v.key.clone()) {
            rep.violation(v);
        }
    }
    rep.layer(Layer {
        name: "multi-document-histories".into(),
        states: hists.len() as u64,
        transitions: hists.iter().map(|h| h.len() as u64).sum(),
        executions: hists.len() as u64,
        exhaustive: true,
        bound: format!("every history of <= {n} operations from {{open with text A, open with text B (CRLF, multi-byte), close, insert at the last line start, delete the first character, full-text change, save, watched-file changed, watched-file deleted}} x 5 documents (free-standing file, two modules of package app, a module of app's path dependency lib, a module of a package nested in app's test directory; all on disk with other contents), only sequences a well-behaved client can send (open when closed, edit / close / save when open); each on a fresh real Server through the router; afterwards every open document's text is read back via glas/syntaxTree"),
        ..Default::default()
    });
}

/// Every UTF-8 lead byte: all single edits of all documents <= 3 symbols over {a, LF, one
/// character of that lead byte} on the real Vfs (text and stored line map).
fn c13_lead_bytes_layer(rep: &mut Report) {
    let chars = lead_byte_chars();
    let res: Vec<(u64, Vec<Violation>)> = chars
        .par_iter()
        .map(|ch| {
            let cs = ch.to_string();
            let syms: [&str; 3] = ["a", "\n", &cs];
            let docs = words_upto(&syms, 3);
            let reps = words_upto(&syms, 1);
            let mut viol = vec![];
            let mut n = 0u64;
            for d in docs.iter().filter(|d| d.contains(*ch)) {
                let rd = RefDoc::new(d.clone());
                let pos = rd.valid_positions();
                for (i, (ps, _)) in pos.iter().enumerate() {
                    for (pe, _) in pos.iter().skip(i) {
                        for r in &reps {
                            n += 1;
                            let act = Act::Edit { start: *ps, end: *pe, text: r.clone() };
                            if let Some((class, detail)) = c13_check(d, &act) {
                                if viol.len() < 2 {
                                    let mut buf = [0u8; 4];
                                    let lead = ch.encode_utf8(&mut buf).as_bytes()[0];
                                    viol.push(Violation { class: class.clone(), key: format!("lead-byte 0x{lead:02X}|{class}"), witness: json!({"before": d, "action": act_json(&act)}), detail: format!("character U+{:04X} (UTF-8 lead byte 0x{lead:02X}): {detail}", *ch as u32) });
                                }
                            }
                        }
                    }
                }
            }
            (n, viol)
        })
        .collect();
    let mut l = Layer { name: "lead-byte-classes".into(), states: chars.len() as u64, exhaustive: true, ..Default::default() };
    for (n, v) in res {
        l.executions += n;
        l.transitions += n;
        for x in v {
            rep.violation(x);
        }
    }
    l.bound = format!("{} characters (first and last scalar value of every UTF-8 lead byte) x all documents <= 3 symbols over {{a, LF, that character}} x every valid single edit with a replacement <= 1 symbol, on the real Vfs: text and stored line map against the reference client", chars.len());
    rep.layer(l);
}

pub fn run_c13(tier: Tier) -> i32 {
    let mut rep = Report::new("C13", tier);
    let max_syms = tier.pick(4usize, 5usize);
    let sink = Arc::new(Mutex::new(vec![]));
    let transitions = Arc::new(AtomicU64::new(0));
    let crlf = Arc::new(AtomicU64::new(0));
    let model = DocModel { max_syms, reps: words_upto(C13_SYMS, 2), sink: sink.clone(), transitions: transitions.clone(), crlf_states: crlf.clone() };
    let checker = model.checker().threads(rayon::current_num_threads()).spawn_bfs().join();
    let unique = checker.unique_state_count() as u64;
    let expected_states: u64 = (0..=max_syms).map(|n| pow(C13_SYMS.len() as u64, n)).sum();
    rep.guard(checker.is_done(), "stateright search ran to completion");
    rep.guard(unique == expected_states, &format!("BFS reached all {expected_states} documents (got {unique})"));
    for v in sink.lock().unwrap().drain(..) {
        rep.violation(v);
    }
    rep.layer(Layer {
        name: "stateright-bfs".into(),
        states: unique,
        transitions: transitions.load(Ordering::Relaxed),
        executions: transitions.load(Ordering::Relaxed),
        exhaustive: true,
        bound: format!("explicit-state BFS: states = client documents <= {max_syms} symbols over {{a, LF, CRLF, 2/3/4-byte}}; transitions = all valid (start,end) x all replacements <= 2 symbols + full-text replacements; max depth {}", checker.max_depth()),
        ..Default::default()
    });
    router_layer(&mut rep, tier);
    disk_layer(&mut rep, tier);
    overlong_layer(&mut rep, tier);
    histories_layer(&mut rep, tier);
    c13_lead_bytes_layer(&mut rep);
    rep.distinct_nontrivial = crlf.load(Ordering::Relaxed).min(unique);
    rep.distinct_nontrivial = unique.saturating_sub(pow(1, 1));
    rep.distinct_outcomes = 1 + rep.violations.iter().map(|v| v.class.clone()).collect::<std::collections::BTreeSet<_>>().len() as u64;
    rep.rule = "state = client document, deduplicated by stateright; canonicalisation argument: the checked invariant (server text = client text minus CR and line map = fresh line map) holds in every state, so states with equal client text have equal futures; non-trivial = non-empty documents".into();
    rep.sample(json!({"before": "a\r\n😀", "action": {"start": [1, 0], "end": [1, 2], "text": "é\n"}}));
    rep.assumptions = vec!["a server state is reconstructed per transition by fresh normalisation of the predecessor's client text (justified by the checked line-map invariant)".into()];
    rep.guard(crlf.load(Ordering::Relaxed) > 0, "states with CRLF reached");
    rep.finish()
}

pub fn replay_c13(w: &serde_json::Value) -> Vec<String> {
    if let Some(h) = w["history"].as_array() {
        let base = crate::core::verif_root().join(".scratch/c13h");
        let _ = std::fs::remove_dir_all(&base);
        h_tree(&base);
        let mut hist = vec![];
        for step in h {
            let (Some(d), Some(o)) = (HDOCS.iter().position(|x| Some(*x) == step[0].as_str()), HOPS.iter().find(|o| Some(hop_name(**o)) == step[1].as_str())) else { return vec!["bad witness".into()] };
            hist.push((d, *o));
        }
        return match h_run(&base, &hist) {
            Ok(bad) => bad.into_iter().map(|(d, want, got)| format!("history-text-diverged: {}: server {got:?}, client {want:?}", HDOCS[d])).collect(),
            Err(e) => vec![format!("history-panic: {e}")],
        };
    }
    if let (Some(b), Some(a), Some(true)) = (w["before"].as_str(), act_from_json(&w["action"]), w["overlong"].as_bool()) {
        let mut rep = Report::new("C13", Tier::Quick);
        overlong_layer(&mut rep, Tier::Thorough);
        return rep.violations.iter().filter(|v| v.witness["before"].as_str() == Some(b) && act_from_json(&v.witness["action"]).map_or(false, |x| x == a)).map(|v| format!("{}: {}", v.class, v.detail)).collect();
    }
    if let (Some(b), Some(a)) = (w["before"].as_str(), act_from_json(&w["action"])) {
        return c13_check(b, &a).into_iter().map(|(c, d)| format!("{c}: {d}")).collect();
    }
    if let (Some(open), Some(changes)) = (w["open"].as_str(), w["changes"].as_array()) {
        let uri = "file:///verif/doc.gleam";
        let mut srv = InProc::new();
        let _ = srv.open(uri, open);
        let mut t = open.to_string();
        let mut cs = vec![];
        for c in changes {
            let Some(a) = act_from_json(c) else { return vec!["bad witness".into()] };
            let Some(n) = ref_step(&t, &a) else { return vec!["invalid edit in witness".into()] };
            t = n;
            cs.push(match &a {
                Act::Full(t) => json!({"text": t}),
                Act::Edit { start, end, text } => json!({"range": {"start": {"line": start.0, "character": start.1}, "end": {"line": end.0, "character": end.1}}, "text": text}),
            });
        }
        let r = srv.notify("textDocument/didChange", json!({"textDocument": {"uri": uri, "version": 2}, "contentChanges": cs}));
        let got = srv.server_text(uri);
        let want = RefDoc::new(t).without_cr();
        return match (r, got) {
            (Ok(_), Ok(Some(g))) if g == want => vec![],
            (r, g) => vec![format!("server {g:?} / {r:?}, client {want:?}")],
        };
    }
    vec!["bad witness".into()]
}
