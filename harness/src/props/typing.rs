//! C09 — inferred types agree with Gleam's typing on well-typed programs.
//! Type-directed enumeration: expressions are constructed by typing rules against a finite
//! universe of target types, so the type of every binder is known by construction; call graphs
//! on <= 3 functions x all item orders are typed by a small reference Hindley-Milner.
use crate::core::{catch, panic_class, Layer, Report, Tier, Violation};
use ide::{AnalysisHost, FilePos};
use rayon::prelude::*;
use serde_json::{json, Value};
use std::collections::{BTreeMap, BTreeSet, HashMap};

#[derive(Clone, Debug, PartialEq, Eq, Hash, PartialOrd, Ord)]
pub enum RTy {
    Int,
    Float,
    Str,
    Bool,
    Nil,
    List(Box<RTy>),
    Tuple(Vec<RTy>),
    Result(Box<RTy>, Box<RTy>),
    Fn(Vec<RTy>, Box<RTy>),
    Named(String, Vec<RTy>),
    Var(String),
}

use RTy::*;

pub fn show(t: &RTy) -> String {
    match t {
        Int => "Int".into(),
        Float => "Float".into(),
        Str => "String".into(),
        Bool => "Bool".into(),
        Nil => "Nil".into(),
        List(a) => format!("List({})", show(a)),
        Tuple(v) => format!("#({})", v.iter().map(show).collect::<Vec<_>>().join(", ")),
        Result(a, b) => format!("Result({}, {})", show(a), show(b)),
        Fn(p, r) => format!("fn({}) -> {}", p.iter().map(show).collect::<Vec<_>>().join(", "), show(r)),
        Named(n, a) if a.is_empty() => n.clone(),
        Named(n, a) => format!("{n}({})", a.iter().map(show).collect::<Vec<_>>().join(", ")),
        Var(v) => v.clone(),
    }
}

/// Parses the type syntax glas displays.
pub fn parse_ty(s: &str) -> Option<RTy> {
    fn ty(b: &[u8], i: &mut usize) -> Option<RTy> {
        ws(b, i);
        if b[*i..].starts_with(b"fn(") {
            *i += 3;
            let ps = list(b, i, b')')?;
            ws(b, i);
            if !b[*i..].starts_with(b"->") {
                return None;
            }
            *i += 2;
            let r = ty(b, i)?;
            return Some(Fn(ps, Box::new(r)));
        }
        if b[*i..].starts_with(b"#(") {
            *i += 2;
            return Some(Tuple(list(b, i, b')')?));
        }
        let s = *i;
        while *i < b.len() && (b[*i].is_ascii_alphanumeric() || b[*i] == b'_' || b[*i] == b'?') {
            *i += 1;
        }
        if *i == s {
            return None;
        }
        let name = std::str::from_utf8(&b[s..*i]).ok()?.to_string();
        let mut args = vec![];
        if *i < b.len() && b[*i] == b'(' {
            *i += 1;
            args = list(b, i, b')')?;
        }
        Some(match (name.as_str(), args.len()) {
            ("Int", 0) => Int,
            ("Float", 0) => Float,
            ("String", 0) => Str,
            ("Bool", 0) => Bool,
            ("Nil", 0) => Nil,
            ("List", 1) => List(Box::new(args[0].clone())),
            ("Result", 2) => Result(Box::new(args[0].clone()), Box::new(args[1].clone())),
            (n, 0) if n.chars().next().map_or(false, |c| c.is_lowercase() || c == '?') => Var(name),
            _ => Named(name, args),
        })
    }
    fn ws(b: &[u8], i: &mut usize) {
        while *i < b.len() && b[*i] == b' ' {
            *i += 1;
        }
    }
    fn list(b: &[u8], i: &mut usize, close: u8) -> Option<Vec<RTy>> {
        let mut v = vec![];
        loop {
            ws(b, i);
            if *i < b.len() && b[*i] == close {
                *i += 1;
                return Some(v);
            }
            v.push(ty(b, i)?);
            ws(b, i);
            if *i < b.len() && b[*i] == b',' {
                *i += 1;
            }
        }
    }
    let b = s.as_bytes();
    let mut i = 0;
    let t = ty(b, &mut i)?;
    ws(b, &mut i);
    if i == b.len() {
        Some(t)
    } else {
        None
    }
}

/// Equality up to a bijective renaming of type variables.
pub fn alpha_eq(a: &RTy, b: &RTy) -> bool {
    fn go(a: &RTy, b: &RTy, f: &mut HashMap<String, String>, g: &mut HashMap<String, String>) -> bool {
        match (a, b) {
            (Var(x), Var(y)) => {
                let ok1 = f.entry(x.clone()).or_insert_with(|| y.clone()) == y;
                let ok2 = g.entry(y.clone()).or_insert_with(|| x.clone()) == x;
                ok1 && ok2
            }
            (List(x), List(y)) => go(x, y, f, g),
            (Tuple(x), Tuple(y)) => x.len() == y.len() && x.iter().zip(y).all(|(p, q)| go(p, q, f, g)),
            (Result(a1, a2), Result(b1, b2)) => go(a1, b1, f, g) && go(a2, b2, f, g),
            (Fn(p, r), Fn(q, s)) => p.len() == q.len() && p.iter().zip(q).all(|(x, y)| go(x, y, f, g)) && go(r, s, f, g),
            (Named(n, x), Named(m, y)) => n == m && x.len() == y.len() && x.iter().zip(y).all(|(p, q)| go(p, q, f, g)),
            (x, y) => x == y && !matches!(x, Var(_)),
        }
    }
    go(a, b, &mut HashMap::new(), &mut HashMap::new())
}

const PRELUDE: &str = "pub type Color { Red Green }
pub type Pair { Pair(first: Int, second: String) }
pub type Box(a) { Box(inner: a) }
pub type Triple { Triple(ta: Int, tb: String, tc: Float) }
pub type G(a, b, c) { G(ga: a, gb: b, gc: c) }
pub type U3 { U3(Int, String, Float) }
pub type M4(d) { M4(Int, mb: String, mc: Float, md: d) }
pub type N(a, b) { N(nl: List(a), nt: #(b, a), nf: fn(a) -> b, nb: Box(a)) }
type Ints = List(Int)
fn inc(n: Int) -> Int { n + 1 }
fn add(a: Int, b: Int) -> Int { a + b }
fn labelled(x x: Int, y y: String) -> Int { x }
fn id(v) { v }
fn first(a, b) { a }
fn mk(a, b) { #(a, b) }
fn try_(r: Result(a, e), k: fn(a) -> Result(b, e)) -> Result(b, e) { case r { Ok(v) -> k(v) Error(e) -> Error(e) } }
fn map(l: List(a), f: fn(a) -> b) -> List(b) { case l { [] -> [] [h, ..t] -> [f(h), ..map(t, f)] } }
fn apply(v: a, k: fn(a) -> b) -> b { k(v) }
fn show(n: Int) -> String { todo }
fn both(x: a, y: b, k: fn(a, b) -> c) -> c { k(x, y) }
";

const PARAMS: &str = "i: Int, f: Float, s: String, b: Bool, l: List(Int), t: #(Int, String), r: Result(Int, String), g: fn(Int) -> Int, c: Color, p: Pair, bx: Box(Int), ls: List(String), tr: Triple, gg: G(Int, String, Float), u3: U3, m4: M4(Bool), nn: N(Int, String)";

fn pair() -> RTy {
    Named("Pair".into(), vec![])
}
fn color() -> RTy {
    Named("Color".into(), vec![])
}
fn boxed(t: RTy) -> RTy {
    Named("Box".into(), vec![t])
}
fn it() -> RTy {
    Tuple(vec![Int, Str])
}
fn ris() -> RTy {
    Result(Box::new(Int), Box::new(Str))
}
fn fii() -> RTy {
    Fn(vec![Int], Box::new(Int))
}

/// Leaves: expressions of each type available without sub-expressions.
fn leaves(t: &RTy) -> Vec<String> {
    let v: &[&str] = match t {
        Int => &["1", "i"],
        Float => &["1.5", "f"],
        Str => &["\"s\"", "s"],
        Bool => &["True", "b"],
        Nil => &["Nil"],
        List(x) if **x == Int => &["l", "[1]"],
        List(x) if **x == Str => &["ls"],
        Tuple(_) if *t == it() => &["t"],
        Result(..) if *t == ris() => &["r"],
        Fn(..) if *t == fii() => &["g", "inc"],
        Named(n, _) if n == "Color" => &["c", "Red"],
        Named(n, _) if n == "Pair" => &["p"],
        Named(n, a) if n == "Box" && a[0] == Int => &["bx"],
        _ => &[],
    };
    v.iter().map(|s| s.to_string()).collect()
}

/// Typing rules: every production yielding type `t`, with holes filled by `sub(hole type)`.
/// `first` selects which alternative of a hole is varied (one-hole discipline): all holes take
/// their first candidate except the hole currently enumerated.
fn productions(t: &RTy, sub: &dyn std::ops::Fn(&RTy) -> Vec<String>) -> Vec<String> {
    let mut out = vec![];
    // helper: enumerate a production with holes h1..hn: vary each hole in turn
    let mut prod = |holes: &[RTy], build: &dyn std::ops::Fn(&[String]) -> String| {
        let firsts: Vec<String> = holes.iter().map(|h| leaves(h).into_iter().next().unwrap_or_else(|| "todo".into())).collect();
        out.push(build(&firsts));
        for (k, h) in holes.iter().enumerate() {
            for cand in sub(h) {
                let mut args = firsts.clone();
                args[k] = cand;
                out.push(build(&args));
            }
        }
    };
    match t {
        Int => {
            for op in ["+", "-", "*", "/", "%"] {
                prod(&[Int, Int], &|a| format!("{} {op} {}", grp(&a[0]), grp(&a[1])));
            }
            prod(&[Int], &|a| format!("-{}", grp(&a[0])));
            prod(&[it()], &|a| format!("{}.0", post(&a[0])));
            prod(&[pair()], &|a| format!("{}.first", post(&a[0])));
            prod(&[boxed(Int)], &|a| format!("{}.inner", post(&a[0])));
            prod(&[Int], &|a| format!("inc({})", a[0]));
            prod(&[Int, Int], &|a| format!("add({}, {})", a[0], a[1]));
            prod(&[fii(), Int], &|a| format!("{}({})", post(&a[0]), a[1]));
            prod(&[Int], &|a| format!("{} |> inc", grp(&a[0])));
            prod(&[Int, Int], &|a| format!("{} |> add({})", grp(&a[0]), a[1]));
            prod(&[Int, Int], &|a| format!("{} |> add(_, {})", grp(&a[0]), a[1]));
            prod(&[Int, Int], &|a| format!("{} |> add({}, _)", grp(&a[0]), a[1]));
            prod(&[Int], &|a| format!("{{ {} }}", a[0]));
            prod(&[Bool, Int, Int], &|a| format!("case {} {{ True -> {} False -> {} }}", a[0], a[1], a[2]));
            prod(&[ris(), Int], &|a| format!("case {} {{ Ok(ok) -> ok Error(_) -> {} }}", a[0], a[1]));
            prod(&[Int, Str], &|a| format!("labelled(x: {}, y: {})", a[0], a[1]));
            prod(&[Int, Str], &|a| format!("labelled(y: {}, x: {})", a[1], a[0]));
            prod(&[Int, Str], &|a| format!("labelled({}, y: {})", a[0], a[1]));
            prod(&[Int], &|a| format!("id({})", a[0]));
            prod(&[Int, Str], &|a| format!("first({}, {})", a[0], a[1]));
            prod(&[Int], &|a| format!("fn(z) {{ z + 1 }}({})", a[0]));
            prod(&[it(), Bool, Int], &|a| format!("case {}, {} {{ #(ca, _), True -> ca _, _ -> {} }}", a[0], a[1], a[2]));
            prod(&[Int], &|a| format!("{{ let q = {} q }}", a[0]));
        }
        Float => {
            for op in ["+.", "-.", "*.", "/."] {
                prod(&[Float, Float], &|a| format!("{} {op} {}", grp(&a[0]), grp(&a[1])));
            }
            prod(&[Float], &|a| format!("id({})", a[0]));
            prod(&[Float], &|a| format!("-.{}", grp(&a[0])).replace("-.", "0.0 -. "));
        }
        Str => {
            prod(&[Str, Str], &|a| format!("{} <> {}", grp(&a[0]), grp(&a[1])));
            prod(&[it()], &|a| format!("{}.1", post(&a[0])));
            prod(&[pair()], &|a| format!("{}.second", post(&a[0])));
            prod(&[Str], &|a| format!("id({})", a[0]));
            prod(&[Str, Int], &|a| format!("first({}, {})", a[0], a[1]));
            prod(&[Bool, Str, Str], &|a| format!("case {} {{ True -> {} _ -> {} }}", a[0], a[1], a[2]));
        }
        Bool => {
            for op in ["<", "<=", ">", ">=", "==", "!="] {
                prod(&[Int, Int], &|a| format!("{} {op} {}", grp(&a[0]), grp(&a[1])));
            }
            for op in ["<.", "<=.", ">.", ">=."] {
                prod(&[Float, Float], &|a| format!("{} {op} {}", grp(&a[0]), grp(&a[1])));
            }
            prod(&[Str, Str], &|a| format!("{} == {}", grp(&a[0]), grp(&a[1])));
            prod(&[Str, Str], &|a| format!("{} != {}", grp(&a[0]), grp(&a[1])));
            prod(&[Bool, Bool], &|a| format!("{} && {}", grp(&a[0]), grp(&a[1])));
            prod(&[Bool, Bool], &|a| format!("{} || {}", grp(&a[0]), grp(&a[1])));
            prod(&[Bool], &|a| format!("!{}", grp(&a[0])));
        }
        Nil => {}
        List(x) if **x == Int => {
            prod(&[Int], &|a| format!("[{}]", a[0]));
            prod(&[Int, Int], &|a| format!("[{}, {}]", a[0], a[1]));
            prod(&[Int, List(Box::new(Int))], &|a| format!("[{}, ..{}]", a[0], a[1]));
            prod(&[List(Box::new(Int))], &|a| format!("map({}, inc)", a[0]));
            prod(&[List(Box::new(Int))], &|a| format!("map({}, fn(e) {{ e + 1 }})", a[0]));
            prod(&[List(Box::new(Int))], &|a| format!("{} |> map(inc)", grp(&a[0])));
        }
        List(x) if **x == Str => {
            prod(&[Str], &|a| format!("[{}]", a[0]));
            prod(&[List(Box::new(Str)), Str], &|a| format!("[{}, ..{}]", a[1], a[0]));
        }
        Tuple(_) if *t == it() => {
            prod(&[Int, Str], &|a| format!("#({}, {})", a[0], a[1]));
            prod(&[Int, Str], &|a| format!("mk({}, {})", a[0], a[1]));
        }
        Result(..) if *t == ris() => {
            prod(&[Bool, Int, Str], &|a| format!("case {} {{ True -> Ok({}) False -> Error({}) }}", a[0], a[1], a[2]));
            prod(&[ris()], &|a| format!("try_({}, fn(v) {{ Ok(v + 1) }})", a[0]));
            prod(&[ris()], &|a| format!("{{ use uv <- try_({}) Ok(uv) }}", a[0]));
        }
        Fn(..) if *t == fii() => {
            prod(&[Int], &|a| format!("fn(z) {{ z + {} }}", a[0]));
            prod(&[Int], &|a| format!("add(_, {})", a[0]));
            prod(&[Int], &|a| format!("add({}, _)", a[0]));
            prod(&[], &|_| "fn(z: Int) { z }".to_string());
        }
        Named(n, _) if n == "Pair" => {
            prod(&[Int, Str], &|a| format!("Pair({}, {})", a[0], a[1]));
            prod(&[Int, Str], &|a| format!("Pair(first: {}, second: {})", a[0], a[1]));
            prod(&[Int, Str], &|a| format!("Pair(second: {}, first: {})", a[1], a[0]));
            prod(&[pair(), Int], &|a| format!("Pair(..{}, first: {})", a[0], a[1]));
        }
        Named(n, a) if n == "Box" && a[0] == Int => {
            prod(&[Int], &|a| format!("Box({})", a[0]));
            prod(&[Int], &|a| format!("Box(inner: {})", a[0]));
        }
        Named(n, a) if n == "Box" && a[0] == Str => {
            prod(&[Str], &|a| format!("Box({})", a[0]));
        }
        Named(n, a) if n == "Box" && a[0] == boxed(Int) => {
            prod(&[boxed(Int)], &|a| format!("Box({})", a[0]));
        }
        Named(n, _) if n == "Color" => {
            prod(&[Bool], &|a| format!("case {} {{ True -> Red False -> Green }}", a[0]));
        }
        _ => {}
    }
    out
}

/// operands of binary/prefix operators: anything that is not an atom goes into a block
fn grp(e: &str) -> String {
    let atom = e.chars().all(|c| c.is_alphanumeric() || c == '_' || c == '.' || c == '"') || ((e.starts_with('[') || e.starts_with("#(")) && balanced_one(e)) || is_call(e);
    if atom {
        e.to_string()
    } else {
        format!("{{ {e} }}")
    }
}

fn balanced_one(e: &str) -> bool {
    let mut d = 0i32;
    for (i, c) in e.char_indices() {
        match c {
            '(' | '[' | '{' => d += 1,
            ')' | ']' | '}' => {
                d -= 1;
                if d == 0 && i + 1 != e.len() {
                    return false;
                }
            }
            _ => {}
        }
    }
    d == 0
}

fn is_call(e: &str) -> bool {
    let Some(p) = e.find('(') else { return false };
    e[..p].chars().all(|c| c.is_alphanumeric() || c == '_' || c == '.') && !e[..p].is_empty() && balanced_one(e) && e.ends_with(')')
}

/// base of a postfix operation
fn post(e: &str) -> String {
    grp(e)
}

fn universe() -> Vec<RTy> {
    vec![Int, Float, Str, Bool, Nil, List(Box::new(Int)), List(Box::new(Str)), it(), ris(), fii(), color(), pair(), boxed(Int), boxed(Str), boxed(boxed(Int))]
}

/// All (expression, type) pairs up to the depth.
fn typed_exprs(depth: usize) -> Vec<(String, RTy)> {
    let mut by_ty: BTreeMap<RTy, Vec<String>> = BTreeMap::new();
    for t in universe() {
        by_ty.insert(t.clone(), leaves(&t));
    }
    let mut all: Vec<(String, RTy)> = by_ty.iter().flat_map(|(t, es)| es.iter().map(move |e| (e.clone(), t.clone()))).collect();
    let mut prev = by_ty.clone();
    for _ in 0..depth {
        let mut next: BTreeMap<RTy, Vec<String>> = BTreeMap::new();
        for t in universe() {
            let sub = |h: &RTy| prev.get(h).cloned().unwrap_or_default();
            let mut es = productions(&t, &sub);
            es.sort();
            es.dedup();
            next.insert(t.clone(), es);
        }
        for (t, es) in &next {
            for e in es {
                all.push((e.clone(), t.clone()));
            }
        }
        prev = next;
    }
    let mut seen = BTreeSet::new();
    all.into_iter().filter(|x| seen.insert(x.0.clone())).collect()
}

/// Pattern bindings: (statement text, [(binder, type)])
fn pattern_cases() -> Vec<(String, Vec<(&'static str, RTy)>)> {
    let li = List(Box::new(Int));
    vec![
        ("let #(pa, pb) = t".into(), vec![("pa", Int), ("pb", Str)]),
        ("let [ph, ..ptl] = l".into(), vec![("ph", Int), ("ptl", li.clone())]),
        ("let [pe1, pe2] = l".into(), vec![("pe1", Int), ("pe2", Int)]),
        ("let Pair(first: pf, second: ps) = p".into(), vec![("pf", Int), ("ps", Str)]),
        ("let Pair(second: ps2, first: pf2) = p".into(), vec![("pf2", Int), ("ps2", Str)]),
        ("let Pair(pf3, ..) = p".into(), vec![("pf3", Int)]),
        ("let Pair(pf4, ps4) = p".into(), vec![("pf4", Int), ("ps4", Str)]),
        ("let Box(inner: pbi) = bx".into(), vec![("pbi", Int)]),
        ("let Box(pbj) = bx".into(), vec![("pbj", Int)]),
        ("let assert Ok(pok) = r".into(), vec![("pok", Int)]),
        ("let assert Error(per) = r".into(), vec![("per", Str)]),
        ("let #(px, _) as pwh = t".into(), vec![("px", Int), ("pwh", it())]),
        ("let \"a\" <> prest = s".into(), vec![("prest", Str)]),
        ("let pan: Int = i".into(), vec![("pan", Int)]),
        ("let pal: Ints = l".into(), vec![("pal", li.clone())]),
        ("let plam = fn(lz) { lz + 1 }".into(), vec![("plam", fii()), ("lz", Int)]),
        ("let plam2 = fn(la: Int, lb) { lb <> \"x\" }".into(), vec![("plam2", Fn(vec![Int, Str], Box::new(Str))), ("la", Int), ("lb", Str)]),
        ("let pcase = case r { Ok(cok) -> cok Error(cer) -> 0 }".into(), vec![("pcase", Int), ("cok", Int), ("cer", Str)]),
        ("let pcase2 = case t, b { #(cta, ctb), True -> ctb _, _ -> s }".into(), vec![("pcase2", Str), ("cta", Int), ("ctb", Str)]),
        ("let pcase3 = case l { [] -> 0 [cx] -> cx [cy, ..cys] -> cy }".into(), vec![("pcase3", Int), ("cx", Int), ("cy", Int), ("cys", li.clone())]),
        ("let pcase4 = case c { Red -> 1 Green -> 2 }".into(), vec![("pcase4", Int)]),
        ("let pcase5 = case p { Pair(first: 1, ..) -> \"one\" Pair(second: csec, ..) -> csec }".into(), vec![("pcase5", Str), ("csec", Str)]),
        ("let pmap = map(l, fn(me) { #(me, s) })".into(), vec![("pmap", List(Box::new(it()))), ("me", Int)]),
        ("let puse = { use uz <- try_(r) Ok(uz + 1) }".into(), vec![("puse", ris()), ("uz", Int)]),
        ("let ppipe = l |> map(fn(pe) { pe * 2 })".into(), vec![("ppipe", li.clone()), ("pe", Int)]),
        ("let pgen = id".into(), vec![("pgen", Fn(vec![Var("a".into())], Box::new(Var("a".into()))))]),
        ("let pok = Ok(i)".into(), vec![("pok", Result(Box::new(Int), Box::new(Var("a".into()))))]),
        ("let pnil = []".into(), vec![("pnil", List(Box::new(Var("a".into()))))]),
        ("let pbox = Box(Box(i))".into(), vec![("pbox", boxed(boxed(Int)))]),
        ("let ptup = #(i, #(s, f), [b])".into(), vec![("ptup", Tuple(vec![Int, Tuple(vec![Str, Float]), List(Box::new(Bool))]))]),
        ("let pcap = add(_, 1)".into(), vec![("pcap", fii())]),
        ("let pcap2 = labelled(_, y: s)".into(), vec![("pcap2", fii())]),
    ]
}

/// Constructor patterns and constructor calls over three fields of distinct types: every
/// positional prefix followed by every ordered selection of the remaining fields as labelled
/// arguments (with `..` when incomplete), for a plain and a generic record.
fn record_cases() -> Vec<(String, Vec<(String, RTy)>)> {
    struct Spec {
        ctor: &'static str,
        subj: &'static str,
        ty: RTy,
        fields: Vec<(Option<&'static str>, RTy, &'static str)>,
    }
    let specs = vec![
        Spec { ctor: "Triple", subj: "tr", ty: Named("Triple".into(), vec![]), fields: vec![(Some("ta"), Int, "i"), (Some("tb"), Str, "s"), (Some("tc"), Float, "f")] },
        Spec { ctor: "G", subj: "gg", ty: Named("G".into(), vec![Int, Str, Float]), fields: vec![(Some("ga"), Int, "i"), (Some("gb"), Str, "s"), (Some("gc"), Float, "f")] },
        Spec { ctor: "U3", subj: "u3", ty: Named("U3".into(), vec![]), fields: vec![(None, Int, "i"), (None, Str, "s"), (None, Float, "f")] },
        Spec { ctor: "M4", subj: "m4", ty: Named("M4".into(), vec![Bool]), fields: vec![(None, Int, "i"), (Some("mb"), Str, "s"), (Some("mc"), Float, "f"), (Some("md"), Bool, "b")] },
        // type parameters nested inside the field types
        Spec { ctor: "N", subj: "nn", ty: Named("N".into(), vec![Int, Str]), fields: vec![(Some("nl"), List(Box::new(Int)), "l"), (Some("nt"), Tuple(vec![Str, Int]), "#(s, i)"), (Some("nf"), Fn(vec![Int], Box::new(Str)), "show"), (Some("nb"), boxed(Int), "bx")] },
    ];
    let mut out = vec![];
    // ordered selections of a set of indices
    fn selections(items: &[usize]) -> Vec<Vec<usize>> {
        let mut out: Vec<Vec<usize>> = vec![vec![]];
        fn rec(cur: &mut Vec<usize>, items: &[usize], out: &mut Vec<Vec<usize>>) {
            for &i in items {
                if !cur.contains(&i) {
                    cur.push(i);
                    out.push(cur.clone());
                    rec(cur, items, out);
                    cur.pop();
                }
            }
        }
        rec(&mut vec![], items, &mut out);
        out
    }
    let mut n = 0;
    for sp in &specs {
        let nf = sp.fields.len();
        for prefix in 0..=nf {
            // fields after the positional prefix that can be given by label
            let rest: Vec<usize> = (prefix..nf).filter(|&k| sp.fields[k].0.is_some()).collect();
            for sel in selections(&rest) {
                let complete = prefix + sel.len() == nf;
                n += 1;
                let mut parts: Vec<String> = vec![];
                let mut binders: Vec<(String, RTy)> = vec![];
                for k in 0..prefix {
                    let b = format!("r{n}p{k}");
                    parts.push(b.clone());
                    binders.push((b, sp.fields[k].1.clone()));
                }
                for &k in &sel {
                    let b = format!("r{n}l{k}");
                    parts.push(format!("{}: {b}", sp.fields[k].0.unwrap()));
                    binders.push((b, sp.fields[k].1.clone()));
                }
                if !complete {
                    parts.push("..".into());
                }
                if !binders.is_empty() {
                    out.push((format!("let {}({}) = {}", sp.ctor, parts.join(", "), sp.subj), binders.clone()));
                    // the same pattern in a case clause, returning each binder in turn
                    for (bi, (bname, bty)) in binders.iter().enumerate() {
                        let tag = format!("c{n}x{bi}");
                        let cparts: Vec<String> = parts.iter().map(|p| p.replace(&format!("r{n}"), &tag)).collect();
                        let mut all: Vec<(String, RTy)> = binders.iter().map(|(b, t)| (b.replace(&format!("r{n}"), &tag), t.clone())).collect();
                        let cname = format!("{tag}res");
                        all.push((cname.clone(), bty.clone()));
                        out.push((format!("let {cname} = case {} {{ {}({}) -> {} }}", sp.subj, sp.ctor, cparts.join(", "), bname.replace(&format!("r{n}"), &tag)), all));
                    }
                }
                // construction: only complete argument lists
                if complete {
                    let mut args: Vec<String> = vec![];
                    for k in 0..prefix {
                        args.push(sp.fields[k].2.to_string());
                    }
                    for &k in &sel {
                        args.push(format!("{}: {}", sp.fields[k].0.unwrap(), sp.fields[k].2));
                    }
                    let b = format!("r{n}v");
                    out.push((format!("let {b} = {}({})", sp.ctor, args.join(", ")), vec![(b, sp.ty.clone())]));
                }
            }
        }
    }
    // field access
    out.push(("let racc = #(tr.ta, tr.tb, tr.tc, gg.ga, gg.gb, gg.gc, m4.mb, m4.mc, m4.md)".into(), vec![("racc".into(), Tuple(vec![Int, Str, Float, Int, Str, Float, Str, Float, Bool]))]));
    for (f, t) in [("nl", List(Box::new(Int))), ("nt", Tuple(vec![Str, Int])), ("nf", Fn(vec![Int], Box::new(Str))), ("nb", boxed(Int))] {
        out.push((format!("let racc_{f} = nn.{f}"), vec![(format!("racc_{f}"), t.clone())]));
        out.push((format!("let rcon_{f} = N(nl: l, nt: #(s, i), nf: show, nb: bx).{f}"), vec![(format!("rcon_{f}"), t)]));
    }
    out
}


/// A binder whose type comes from its context (callback parameter of a generic function, use
/// binder, immediately applied lambda, clause / let binder) x what is done with it in its scope
/// (used as is, tuple index, field access, arithmetic on a projection).
fn context_cases() -> Vec<(String, String, Vec<(String, RTy)>)> {
    // (value expression, its type, [(projection text with `e` for the binder, projected type)])
    let values: Vec<(&str, RTy, Vec<(&str, RTy)>)> = vec![
        ("t", it(), vec![("e", it()), ("e.0", Int), ("e.1", Str), ("e.0 + 1", Int)]),
        ("p", pair(), vec![("e", pair()), ("e.first", Int), ("e.second", Str), ("e.first + 1", Int)]),
        ("bx", boxed(Int), vec![("e", boxed(Int)), ("e.inner", Int), ("e.inner + 1", Int)]),
        ("tr", Named("Triple".into(), vec![]), vec![("e.tc", Float), ("e.tb", Str)]),
    ];
    let mut out = vec![];
    let mut n = 0;
    for (v, vt, projs) in &values {
        for (proj, pt) in projs {
            // contexts: (kind, statement template with {b} result binder, {e} inner binder, {v} value, {x} projection; result type)
            let contexts: Vec<(&str, String, RTy)> = vec![
                ("callback of a generic function", "let {b} = apply({v}, fn({e}) { {x} })".into(), pt.clone()),
                ("callback of a generic function, list", "let {b} = map([{v}], fn({e}) { {x} })".into(), List(Box::new(pt.clone()))),
                ("callback after a pipe", "let {b} = {v} |> apply(fn({e}) { {x} })".into(), pt.clone()),
                ("use binder", "let {b} = { use {e} <- apply({v}) {x} }".into(), pt.clone()),
                ("immediately applied lambda", "let {b} = fn({e}) { {x} }({v})".into(), pt.clone()),
                ("clause binder", "let {b} = case {v} { {e} -> {x} }".into(), pt.clone()),
                ("let binder", "let {b} = { let {e} = {v} {x} }".into(), pt.clone()),
                ("lambda bound first, applied later", "let {b} = { let k = fn({e}) { {x} } k({v}) }".into(), pt.clone()),
            ];
            for (kind, tpl, rt) in contexts {
                // Gleam itself rejects a projection from a lambda parameter whose type is not yet
                // known where the lambda is written ("type must be known"): not a well-typed program
                if (kind == "immediately applied lambda" || kind == "lambda bound first, applied later") && *proj != "e" {
                    continue;
                }
                n += 1;
                let b = format!("cx{n}");
                let e = format!("ce{n}");
                let x = proj.replace("e.", &format!("{e}.")).replace("e ", &format!("{e} "));
                let x = if *proj == "e" { e.clone() } else { x };
                let stmt = tpl.replace("{b}", &b).replace("{e}", &e).replace("{v}", v).replace("{x}", &x);
                let projected = if *proj == "e" { "binder itself" } else if proj.contains('+') { "arithmetic on a projection" } else if proj.chars().last().map_or(false, |c| c.is_ascii_digit()) { "tuple index" } else { "field access" };
                out.push((format!("{kind}|{projected}"), stmt, vec![(b, rt), (e, vt.clone())]));
            }
        }
    }
    // two binders typed by one call: every ordered pair of four value types, as `use` and as a lambda
    let vals: Vec<(&str, RTy)> = vec![("i", Int), ("s", Str), ("f", Float), ("t", it())];
    for (v1, t1) in &vals {
        for (v2, t2) in &vals {
            for (kind, tpl) in [("use with two binders", "let {b} = { use {p}, {q} <- both({v1}, {v2}) #({q}, {p}) }"), ("two-parameter callback of a generic function", "let {b} = both({v1}, {v2}, fn({p}, {q}) { #({q}, {p}) })")] {
                n += 1;
                let (b, p_, q_) = (format!("cx{n}"), format!("cp{n}"), format!("cq{n}"));
                let stmt = tpl.replace("{b}", &b).replace("{p}", &p_).replace("{q}", &q_).replace("{v1}", v1).replace("{v2}", v2);
                out.push((format!("{kind}|binder itself"), stmt, vec![(b, Tuple(vec![t2.clone(), t1.clone()])), (p_, t1.clone()), (q_, t2.clone())]));
            }
        }
    }
    out
}

fn hover_type(an: &ide::Analysis, file: ide::FileId, off: usize) -> std::result::Result<Option<String>, String> {
    match catch(|| an.hover(FilePos::new(file, (off as u32).into()))) {
        Ok(Ok(Some(h))) => {
            let m = h.markup;
            let body = m.strip_prefix("```gleam\n").and_then(|r| r.split("\n```").next()).unwrap_or(&m).to_string();
            Ok(Some(body))
        }
        Ok(Ok(None)) => Ok(None),
        Ok(Err(_)) => Err("cancelled".into()),
        Err(m) => Err(format!("panic: {}", panic_class(&m))),
    }
}

/// Checks a batch of `let <name> = <expr>` bindings in one function; returns failures as
/// (index into `bindings`, message).
fn check_bindings(stmts: &[String], expect: &[(usize, &str, RTy)]) -> Vec<(usize, String)> {
    let mut text = String::from(PRELUDE);
    text.push_str(&format!("pub fn subject({PARAMS}) {{\n"));
    let mut offsets: Vec<usize> = vec![];
    for s in stmts {
        offsets.push(text.len() + 2);
        text.push_str("  ");
        text.push_str(s);
        text.push('\n');
    }
    text.push_str("  Nil\n}\n");
    let (host, file) = AnalysisHost::new_single_file(&text);
    let an = host.snapshot();
    let mut fails = vec![];
    if let Ok(Ok(d)) = catch(|| an.diagnostics(file)) {
        if !d.is_empty() {
            fails.push((usize::MAX, format!("generated program has syntax errors: {:?}", d.iter().take(2).collect::<Vec<_>>())));
            return fails;
        }
    }
    for (si, binder, want) in expect {
        // the binder's first occurrence inside its statement
        let st = offsets[*si];
        let stmt = &stmts[*si];
        let Some(rel) = find_ident(stmt, binder) else {
            fails.push((*si, format!("binder {binder} not found in {stmt:?}")));
            continue;
        };
        let off = st + rel;
        match hover_type(&an, file, off) {
            Ok(Some(got)) => match parse_ty(&got) {
                Some(g) if alpha_eq(&g, want) => {}
                _ => fails.push((*si, format!("`{binder}` in `{stmt}`: shown type `{got}`, Gleam's type is `{}`", show(want)))),
            },
            Ok(None) => fails.push((*si, format!("`{binder}` in `{stmt}`: no type shown, Gleam's type is `{}`", show(want)))),
            Err(e) => fails.push((*si, format!("`{binder}` in `{stmt}`: hover failed: {e}"))),
        }
    }
    fails
}

fn find_ident(s: &str, name: &str) -> Option<usize> {
    let b = s.as_bytes();
    let mut i = 0;
    while let Some(p) = s[i..].find(name) {
        let st = i + p;
        let en = st + name.len();
        let before_ok = st == 0 || !(b[st - 1].is_ascii_alphanumeric() || b[st - 1] == b'_');
        let after_ok = en >= b.len() || !(b[en].is_ascii_alphanumeric() || b[en] == b'_');
        if before_ok && after_ok {
            return Some(st);
        }
        i = st + 1;
    }
    None
}

/// Key of a failing expression: the first known-problematic construct it contains, else its
/// shape. Every production also occurs with plain leaves, so a new defect still shows up under
/// a key of its own.
fn expr_key(e: &str) -> String {
    let b = e.as_bytes();
    // prefix operators
    for (i, c) in e.char_indices() {
        if (c == '-' || c == '!') && b.get(i + 1).map_or(false, |n| *n != b'=' && *n != b'>' && *n != b'.' && *n != b' ') {
            let prev = e[..i].trim_end().chars().last();
            if prev.map_or(true, |p| "=({[,|>+-*/<&:".contains(p) || e[..i].trim_end().ends_with("->")) {
                return format!("feature:prefix-operator `{c}`");
            }
        }
    }
    if let Some(p) = e.find("fn(") {
        let params = e[p + 3..].split(')').next().unwrap_or("");
        if params.contains(':') {
            return "feature:annotated-lambda-parameter".into();
        }
    }
    if let Some(p) = e.find("|> ") {
        let rest = &e[p + 3..];
        let name: String = rest.chars().take_while(|c| c.is_alphanumeric() || *c == '_').collect();
        if name == "map" || name == "try_" || name == "apply" {
            return "feature:pipe-into-generic-call-with-arguments".into();
        }
    }
    expr_shape(e)
}

/// Shape of an expression: its first operator/constructor tokens with identifiers abstracted.
fn expr_shape(e: &str) -> String {
    let mut out = String::new();
    let mut prev_word = false;
    for c in e.chars() {
        if c.is_alphanumeric() || c == '_' || c == '"' {
            if !prev_word {
                out.push('x');
            }
            prev_word = true;
        } else if c != ' ' {
            out.push(c);
            prev_word = false;
        } else {
            prev_word = false;
        }
    }
    out.chars().take(28).collect()
}

// ------------------------------------------------------------------ call graphs (reference HM)

#[derive(Clone, Debug)]
enum T {
    V(usize),
    F(Box<T>, Box<T>),
    I,
}

struct Hm {
    sub: Vec<Option<T>>,
}

impl Hm {
    fn fresh(&mut self) -> T {
        self.sub.push(None);
        T::V(self.sub.len() - 1)
    }
    fn find(&self, t: &T) -> T {
        match t {
            T::V(i) => match &self.sub[*i] {
                Some(u) => self.find(u),
                None => t.clone(),
            },
            T::F(a, b) => T::F(Box::new(self.find(a)), Box::new(self.find(b))),
            T::I => T::I,
        }
    }
    fn occurs(&self, i: usize, t: &T) -> bool {
        match self.find(t) {
            T::V(j) => i == j,
            T::F(a, b) => self.occurs(i, &a) || self.occurs(i, &b),
            T::I => false,
        }
    }
    fn unify(&mut self, a: &T, b: &T) -> bool {
        let (a, b) = (self.find(a), self.find(b));
        match (&a, &b) {
            (T::V(i), T::V(j)) if i == j => true,
            (T::V(i), t) | (t, T::V(i)) => {
                if self.occurs(*i, t) {
                    return false;
                }
                self.sub[*i] = Some(t.clone());
                true
            }
            (T::F(a1, a2), T::F(b1, b2)) => self.unify(a1, b1) && self.unify(a2, b2),
            (T::I, T::I) => true,
            _ => false,
        }
    }
    fn instantiate(&mut self, t: &T, map: &mut HashMap<usize, T>) -> T {
        match self.find(t) {
            T::V(i) => map.entry(i).or_insert_with(|| self.fresh()).clone(),
            T::F(a, b) => {
                let a2 = self.instantiate(&a, map);
                let b2 = self.instantiate(&b, map);
                T::F(Box::new(a2), Box::new(b2))
            }
            T::I => T::I,
        }
    }
    fn to_rty(&self, t: &T, names: &mut HashMap<usize, String>) -> RTy {
        match self.find(t) {
            T::V(i) => {
                let n = names.len();
                Var(names.entry(i).or_insert_with(|| format!("v{n}")).clone())
            }
            T::F(a, b) => Fn(vec![self.to_rty(&a, names)], Box::new(self.to_rty(&b, names))),
            T::I => Int,
        }
    }
}

/// Functions f0..f(n-1), each `fn fk(x) { body }`: body is `x` (or `x + 1` when `int_leaf`) when
/// the node has no callee, otherwise the nested composition of its callees applied to x.
/// Expected types by HM with SCC-wise generalisation.
fn graph_expected(n: usize, edges: &[Vec<usize>], plus: &[bool]) -> Option<Vec<RTy>> {
    // Tarjan-free SCC via reachability (n <= 3)
    let reach = |a: usize, b: usize| -> bool {
        let mut seen = vec![false; n];
        let mut st = vec![a];
        while let Some(x) = st.pop() {
            for &y in &edges[x] {
                if y == b {
                    return true;
                }
                if !seen[y] {
                    seen[y] = true;
                    st.push(y);
                }
            }
        }
        false
    };
    let same = |a: usize, b: usize| a == b || (reach(a, b) && reach(b, a));
    let mut hm = Hm { sub: vec![] };
    let mut done: Vec<Option<T>> = vec![None; n];
    let mut remaining: Vec<usize> = (0..n).collect();
    while !remaining.is_empty() {
        // pick an SCC all of whose outside callees are done
        let k = *remaining.iter().find(|&&k| edges[k].iter().all(|&c| same(k, c) || done[c].is_some()) && remaining.iter().all(|&o| !same(k, o) || edges[o].iter().all(|&c| same(o, c) || done[c].is_some())))?;
        let group: Vec<usize> = remaining.iter().copied().filter(|&o| same(k, o)).collect();
        let mut mono: HashMap<usize, T> = HashMap::new();
        for &g in &group {
            let a = hm.fresh();
            let r = hm.fresh();
            mono.insert(g, T::F(Box::new(a), Box::new(r)));
        }
        for &g in &group {
            let T::F(a, r) = mono[&g].clone() else { unreachable!() };
            let mut cur = *a.clone();
            for &c in edges[g].iter().rev() {
                let ft = if group.contains(&c) { mono[&c].clone() } else { hm.instantiate(&done[c].clone().unwrap(), &mut HashMap::new()) };
                let res = hm.fresh();
                if !hm.unify(&ft, &T::F(Box::new(cur.clone()), Box::new(res.clone()))) {
                    return None;
                }
                cur = res;
            }
            // `.. + 1`
            if plus[g] {
                if !hm.unify(&cur, &T::I) {
                    return None;
                }
                cur = T::I;
            }
            if !hm.unify(&r, &cur) {
                return None;
            }
        }
        for &g in &group {
            done[g] = Some(hm.find(&mono[&g]));
        }
        remaining.retain(|o| !group.contains(o));
    }
    Some(done.iter().map(|t| hm.to_rty(t.as_ref().unwrap(), &mut HashMap::new())).collect())
}

/// `names[k]`: None = the parameter is called `x`, Some(j) = it is called like the function f<j>
/// (only where f<k> does not call f<j>: the parameter then shadows a function it never uses).
fn graph_program(n: usize, edges: &[Vec<usize>], order: &[usize], plus: &[bool], names: &[Option<usize>]) -> String {
    let mut s = String::new();
    for &k in order {
        let p = match names[k] {
            None => "x".to_string(),
            Some(j) => format!("f{j}"),
        };
        let mut body = p.clone();
        for &c in edges[k].iter().rev() {
            body = format!("f{c}({body})");
        }
        if plus[k] {
            body = format!("{body} + 1");
        }
        // a local whose type joins the parameter's type with a type variable of its own
        s.push_str(&format!("fn f{k}({p}) {{ let kept{k} = #({p}, []) {body} }}\n"));
    }
    let _ = n;
    s
}


// ------------------------------------------------------------------ call graphs of two-parameter functions

#[derive(Clone, Debug)]
enum T2 {
    V(usize),
    P(Box<T2>, Box<T2>),
    F(Box<T2>, Box<T2>, Box<T2>),
}

#[derive(Default)]
struct Hm2 {
    sub: Vec<Option<T2>>,
}

impl Hm2 {
    fn fresh(&mut self) -> T2 {
        self.sub.push(None);
        T2::V(self.sub.len() - 1)
    }
    fn find(&self, t: &T2) -> T2 {
        match t {
            T2::V(i) => match &self.sub[*i] {
                Some(u) => self.find(u),
                None => t.clone(),
            },
            T2::P(a, b) => T2::P(Box::new(self.find(a)), Box::new(self.find(b))),
            T2::F(a, b, r) => T2::F(Box::new(self.find(a)), Box::new(self.find(b)), Box::new(self.find(r))),
        }
    }
    fn occurs(&self, i: usize, t: &T2) -> bool {
        match self.find(t) {
            T2::V(j) => i == j,
            T2::P(a, b) => self.occurs(i, &a) || self.occurs(i, &b),
            T2::F(a, b, r) => self.occurs(i, &a) || self.occurs(i, &b) || self.occurs(i, &r),
        }
    }
    fn unify(&mut self, a: &T2, b: &T2) -> bool {
        let (a, b) = (self.find(a), self.find(b));
        match (&a, &b) {
            (T2::V(i), T2::V(j)) if i == j => true,
            (T2::V(i), t) | (t, T2::V(i)) => {
                if self.occurs(*i, t) {
                    return false;
                }
                self.sub[*i] = Some(t.clone());
                true
            }
            (T2::P(a1, a2), T2::P(b1, b2)) => self.unify(a1, b1) && self.unify(a2, b2),
            (T2::F(a1, a2, a3), T2::F(b1, b2, b3)) => self.unify(a1, b1) && self.unify(a2, b2) && self.unify(a3, b3),
            _ => false,
        }
    }
    fn instantiate(&mut self, t: &T2, map: &mut HashMap<usize, T2>) -> T2 {
        match self.find(t) {
            T2::V(i) => map.entry(i).or_insert_with(|| self.fresh()).clone(),
            T2::P(a, b) => {
                let (a2, b2) = (self.instantiate(&a, map), self.instantiate(&b, map));
                T2::P(Box::new(a2), Box::new(b2))
            }
            T2::F(a, b, r) => {
                let (a2, b2, r2) = (self.instantiate(&a, map), self.instantiate(&b, map), self.instantiate(&r, map));
                T2::F(Box::new(a2), Box::new(b2), Box::new(r2))
            }
        }
    }
    fn to_rty(&self, t: &T2, names: &mut HashMap<usize, String>) -> RTy {
        match self.find(t) {
            T2::V(i) => {
                let n = names.len();
                Var(names.entry(i).or_insert_with(|| format!("v{n}")).clone())
            }
            T2::P(a, b) => Tuple(vec![self.to_rty(&a, names), self.to_rty(&b, names)]),
            T2::F(a, b, r) => Fn(vec![self.to_rty(&a, names), self.to_rty(&b, names)], Box::new(self.to_rty(&r, names))),
        }
    }
}

/// Body of a two-parameter function `fn fk(p a, q b)`: the pair of its parameters, a call of
/// f<callee> with the parameters in some order (positional, labelled in declaration order, labelled
/// in the other order), or a case whose branches are both.
#[derive(Clone, Copy, Debug, PartialEq, Eq)]
struct Body2 {
    /// None = leaf `#(a, b)`
    call: Option<(usize, bool, u8)>, // (callee, arguments swapped, style 0 positional / 1 labelled / 2 labelled, other order)
    both: bool,
}

fn bodies2(n: usize) -> Vec<Body2> {
    let mut v = vec![Body2 { call: None, both: false }];
    for both in [false, true] {
        for k in 0..n {
            for swapped in [false, true] {
                for style in 0..3u8 {
                    v.push(Body2 { call: Some((k, swapped, style)), both });
                }
            }
        }
    }
    v
}

fn program2(bodies: &[Body2], order: &[usize]) -> String {
    let mut s = String::new();
    for &k in order {
        let b = bodies[k];
        let leaf = "#(a, b)".to_string();
        let text = match b.call {
            None => leaf,
            Some((c, swapped, style)) => {
                // the value passed for the callee's first (p) and second (q) parameter
                let (first, second) = if swapped { ("b", "a") } else { ("a", "b") };
                let call = match style {
                    0 => format!("f{c}({first}, {second})"),
                    1 => format!("f{c}(p: {first}, q: {second})"),
                    _ => format!("f{c}(q: {second}, p: {first})"),
                };
                if b.both {
                    format!("case True {{ True -> {leaf} False -> {call} }}")
                } else {
                    call
                }
            }
        };
        s.push_str(&format!("fn f{k}(p a, q b) {{ {text} }}\n"));
    }
    s
}

fn expected2(bodies: &[Body2]) -> Option<Vec<RTy>> {
    let n = bodies.len();
    let edges: Vec<Vec<usize>> = bodies.iter().map(|b| b.call.map(|c| vec![c.0]).unwrap_or_default()).collect();
    let reach = |a: usize, b: usize| -> bool {
        let mut seen = vec![false; n];
        let mut st = vec![a];
        while let Some(x) = st.pop() {
            for &y in &edges[x] {
                if y == b {
                    return true;
                }
                if !seen[y] {
                    seen[y] = true;
                    st.push(y);
                }
            }
        }
        false
    };
    let same = |a: usize, b: usize| a == b || (reach(a, b) && reach(b, a));
    let mut hm = Hm2::default();
    let mut done: Vec<Option<T2>> = vec![None; n];
    let mut remaining: Vec<usize> = (0..n).collect();
    while !remaining.is_empty() {
        let k = *remaining.iter().find(|&&k| remaining.iter().all(|&o| !same(k, o) || edges[o].iter().all(|&c| same(o, c) || done[c].is_some())))?;
        let group: Vec<usize> = remaining.iter().copied().filter(|&o| same(k, o)).collect();
        let mut mono: HashMap<usize, T2> = HashMap::new();
        for &g in &group {
            let (a, b, r) = (hm.fresh(), hm.fresh(), hm.fresh());
            mono.insert(g, T2::F(Box::new(a), Box::new(b), Box::new(r)));
        }
        for &g in &group {
            let T2::F(a, b, r) = mono[&g].clone() else { unreachable!() };
            let leaf = T2::P(a.clone(), b.clone());
            match bodies[g].call {
                None => {
                    if !hm.unify(&r, &leaf) {
                        return None;
                    }
                }
                Some((c, swapped, _)) => {
                    let ft = if group.contains(&c) { mono[&c].clone() } else { hm.instantiate(&done[c].clone().unwrap(), &mut HashMap::new()) };
                    let (x, y) = if swapped { (b.clone(), a.clone()) } else { (a.clone(), b.clone()) };
                    let res = hm.fresh();
                    if !hm.unify(&ft, &T2::F(x, y, Box::new(res.clone()))) {
                        return None;
                    }
                    if !hm.unify(&r, &res) {
                        return None;
                    }
                    if bodies[g].both && !hm.unify(&r, &leaf) {
                        return None;
                    }
                }
            }
        }
        for &g in &group {
            done[g] = Some(hm.find(&mono[&g]));
        }
        remaining.retain(|o| !group.contains(o));
    }
    Some((0..n).map(|k| hm.to_rty(done[k].as_ref().unwrap(), &mut HashMap::new())).collect())
}

fn check_program2(bodies: &[Body2], order: &[usize]) -> Option<(u64, Vec<String>, String)> {
    let want = expected2(bodies)?;
    let text = program2(bodies, order);
    let (host, file) = AnalysisHost::new_single_file(&text);
    let an = host.snapshot();
    let mut fails = vec![];
    let mut q = 0;
    for k in 0..bodies.len() {
        let off = text.find(&format!("fn f{k}(")).unwrap() + 3;
        q += 1;
        let got = hover_type(&an, file, off);
        let ok = match &got {
            Ok(Some(g)) => g.strip_prefix(&format!("fn f{k}")).map(|r| format!("fn{r}")).and_then(|s| parse_ty(&s)).map_or(false, |g| alpha_eq(&g, &want[k])),
            _ => false,
        };
        if !ok {
            fails.push(format!("f{k} is shown as {got:?}, Gleam's type is `{}`", show(&want[k])));
        }
    }
    Some((q, fails, text))
}

fn binary_graphs_layer(rep: &mut Report) {
    let n = 2;
    let bs = bodies2(n);
    let jobs: Vec<(usize, usize)> = (0..bs.len()).flat_map(|a| (0..bs.len()).map(move |b| (a, b))).collect();
    let res: Vec<(u64, Vec<Violation>)> = jobs
        .par_iter()
        .map(|&(a, b)| {
            let bodies = [bs[a], bs[b]];
            let mut viol = vec![];
            let mut q = 0;
            for order in permutations(n) {
                let Some((n_q, fails, text)) = check_program2(&bodies, &order) else { return (0, vec![]) };
                q += n_q;
                if let Some(f) = fails.first() {
                    if viol.is_empty() {
                        let labelled = bodies.iter().any(|b| matches!(b.call, Some((_, _, s)) if s > 0));
                        let reordered = bodies.iter().any(|b| matches!(b.call, Some((_, _, 2))));
                        let swapped = bodies.iter().any(|b| matches!(b.call, Some((_, true, _))));
                        let recursive = (0..n).any(|k| matches!(bodies[k].call, Some((c, _, _)) if c == k)) || (matches!(bodies[0].call, Some((1, _, _))) && matches!(bodies[1].call, Some((0, _, _))));
                        viol.push(Violation {
                            class: "function-type".into(),
                            key: format!("call-graph-2|{}|{}{}{}", if recursive { "recursive" } else { "acyclic" }, if swapped { "arguments-swapped" } else { "arguments-in-order" }, if reordered { "|labels-reordered" } else if labelled { "|labelled" } else { "" }, if bodies.iter().any(|b| b.both) { "|case-with-leaf" } else { "" }),
                            witness: json!({"bodies2": [a, b], "order": order, "text": text}),
                            detail: format!("program {text:?}: {f}"),
                        });
                    }
                }
            }
            (q, viol)
        })
        .collect();
    let mut l = Layer { name: "call-graphs-two-parameters".into(), exhaustive: true, ..Default::default() };
    for (q, v) in res {
        if q > 0 {
            l.executions += 1;
            l.states += 1;
        }
        l.transitions += q;
        for x in v {
            rep.violation(x);
        }
    }
    l.bound = format!("2 functions `fn fk(p a, q b)`, each body one of {} forms (the pair `#(a, b)`; a call of f0 / f1 with the parameters in either order, written positionally, with labels in declaration order or with labels in the other order; or a case with the pair in one branch and such a call in the other) = all {} pairs (ill-typed ones by the reference HM excluded) x both item orders", bs.len(), bs.len() * bs.len());
    rep.layer(l);
}


// ------------------------------------------------------------------ across modules

const XLIB: &str = "pub type Shape { Circle(r: Int) Square(side: Int) }
pub type Figure = Shape
pub type Figs = List(Shape)
pub type Pred = fn(Shape) -> Bool
pub type Wrap(a) { Wrap(inner: a) }
pub type WInt = Wrap(Int)
pub type Pairs(a) = List(#(a, Shape))
pub fn mk() -> Shape { Circle(1) }
pub fn id(x: a) -> a { x }
pub fn pick(a: Figure, b: Figs) -> Figure { a }
pub fn area(s) { case s { Circle(r: r) -> r * r Square(side: x) -> x * x } }
pub const k = 1
pub type Tone { Low High }
pub type Inner { Inner(z: Int) }
pub type Outer { Outer(inner: Inner, tones: List(Tone)) }
pub fn outer() -> Outer { Outer(Inner(1), []) }
";

/// Functions of a module that uses `lib` through one import form; (function text with `{Q}` for
/// the qualifier prefix, expected type of the function).
fn cross_cases() -> Vec<(&'static str, RTy)> {
    let shape = || Named("Shape".into(), vec![]);
    let wrap = |t: RTy| Named("Wrap".into(), vec![t]);
    let f = |ps: Vec<RTy>, r: RTy| Fn(ps, Box::new(r));
    vec![
        ("fn c1(x: {Q}Figure) { x }", f(vec![shape()], shape())),
        ("fn c2(x: {Q}Figs) { x }", f(vec![List(Box::new(shape()))], List(Box::new(shape())))),
        ("fn c3(p: {Q}Pred, s: {Q}Shape) { p(s) }", f(vec![f(vec![shape()], Bool), shape()], Bool)),
        ("fn c4(w: {Q}WInt) { w.inner }", f(vec![wrap(Int)], Int)),
        ("fn c5() { {Q}mk() }", f(vec![], shape())),
        ("fn c6() { {Q}id(1) }", f(vec![], Int)),
        ("fn c7() { {Q}k }", f(vec![], Int)),
        ("fn c8() { {Q}Wrap(2).inner }", f(vec![], Int)),
        ("fn c9() { {Q}pick({Q}mk(), []) }", f(vec![], shape())),
        ("fn c10() { {Q}Wrap(\"s\") }", f(vec![], wrap(Str))),
        ("fn c11(x: {Q}Pairs(Int)) { x }", f(vec![List(Box::new(Tuple(vec![Int, shape()])))], List(Box::new(Tuple(vec![Int, shape()]))))),
        ("fn c12(x) { {Q}area(x) }", f(vec![shape()], Int)),
        ("fn c13(x: {Q}Figure) -> {Q}Figs { [x] }", f(vec![shape()], List(Box::new(shape())))),
        ("fn c14(s) { case s { {Q}Circle(r: n) -> n {Q}Square(side: n) -> n } }", f(vec![shape()], Int)),
        ("fn c15(w: {Q}Wrap({Q}Figure)) { w.inner }", f(vec![wrap(shape())], shape())),
        // a constructor without fields of the other module's plain type, then something of the using module
        ("fn c16() { let t = {Q}Low let h = Own(1) #(t, home(h.n)) }", f(vec![], Tuple(vec![Named("Tone".into(), vec![]), Named("Own".into(), vec![])]))),
        ("fn c17(t) { case t { {Q}Low -> Own(1) {Q}High -> home(2) } }", f(vec![Named("Tone".into(), vec![])], Named("Own".into(), vec![]))),
        ("fn c18() { let t = {Q}High let o: Own = todo #(o, t) }", f(vec![], Tuple(vec![Named("Own".into(), vec![]), Named("Tone".into(), vec![])]))),
        // a field whose type is declared in the other module (the using module has a type of that name too)
        ("fn c19(o: {Q}Outer) { o.inner }", f(vec![Named("Outer".into(), vec![])], Named("Inner".into(), vec![]))),
        ("fn c20(o: {Q}Outer) { o.inner.z }", f(vec![Named("Outer".into(), vec![])], Int)),
        ("fn c21() { {Q}outer().tones }", f(vec![], List(Box::new(Named("Tone".into(), vec![]))))),
    ]
}

fn cross_module_layer(rep: &mut Report) {
    // the last form imports the aliases only: what their bodies name is not visible in the using module
    let only_aliases: &[usize] = &[0, 1, 10, 12];
    let forms: Vec<(&str, &str, &str)> = vec![
        ("unqualified aliases only", "import lib.{type Figure, type Figs, type Pairs}\n", ""),
        ("qualified", "import lib\n", "lib."),
        ("module alias", "import lib as l\n", "l."),
        ("same module", XLIB, ""),
        ("unqualified", "import lib.{type Figure, type Figs, type Pred, type Shape, type WInt, type Wrap, type Pairs, type Tone, type Outer, mk, id, pick, area, k, outer, Circle, Square, Wrap, Low, High}\n", ""),
    ];
    let cases = cross_cases();
    let mut l = Layer { name: "across-modules".into(), exhaustive: true, ..Default::default() };
    for (fname, import, q) in &forms {
        for order in 0..2 {
            // the using module's functions in source order and reversed
            let selected = |k: usize| *fname != "unqualified aliases only" || only_aliases.contains(&k);
            let mut fns: Vec<String> = cases.iter().enumerate().filter(|(k, _)| selected(*k)).map(|(_, (t, _))| t.replace("{Q}", q)).collect();
            if order == 1 {
                fns.reverse();
            }
            let main = format!("{import}pub type Own {{ Own(n: Int) }}\nfn home(n: Int) -> Own {{ Own(n) }}\n{}\n", fns.join("\n"));
            let ws = crate::ana::ws::Workspace::single(&[("main", &main), ("lib", XLIB)]);
            let files = ws.files();
            let host = ws.host();
            let an = host.snapshot();
            l.states += 1;
            l.executions += 1;
            if let Ok(Ok(d)) = catch(|| an.diagnostics(files[0].id)) {
                if !d.is_empty() {
                    rep.machinery(format!("cross-module program ({fname}) has syntax errors: {:?}", d.iter().take(2).collect::<Vec<_>>()));
                    continue;
                }
            }
            for (k, (_, want)) in cases.iter().enumerate() {
                if !selected(k) {
                    continue;
                }
                let name = format!("fn c{}(", k + 1);
                let off = main.find(&name).unwrap() + 3;
                l.transitions += 1;
                let got = hover_type(&an, files[0].id, off);
                let ok = match &got {
                    Ok(Some(g)) => g.strip_prefix(&format!("fn c{}", k + 1)).map(|r| format!("fn{r}")).and_then(|s| parse_ty(&s)).map_or(false, |g| alpha_eq(&g, want)),
                    _ => false,
                };
                if !ok {
                    let tags = ["alias", "alias of a list", "alias of a function type", "alias of a generic instance", "function", "generic function", "module constant used as a value", "field of a constructed generic record", "function with alias parameters", "generic constructor", "generic alias", "unannotated function", "alias in a return annotation", "constructor patterns", "generic record of an alias", "field-less constructor, then the using module's own items", "field-less constructor patterns, then the using module's own items", "field-less constructor, then an annotation naming the using module's type", "field typed by a type of the other module", "field of a field typed in the other module", "field typed by a list of the other module's type"];
                    rep.violation(Violation { class: "function-type".into(), key: format!("across-modules|{fname}|{}", tags.get(k).copied().unwrap_or("?")), witness: json!({"cross_form": fname, "order": order, "case": k}), detail: format!("[{fname} import] `{}`: shown {got:?}, Gleam's type is `{}`", cases[k].0.replace("{Q}", q), show(want)) });
                }
            }
        }
    }
    l.bound = format!("{} functions using another module's aliases (plain, of a list, of a function type, generic, of a generic instance), generic record, functions, constant and constructors (and field-less constructors of a plain type followed by items of the using module) x 5 forms (declared in the same module, qualified import, module alias, unqualified import, unqualified import of the aliases alone) x 2 orders of the using module's functions", cases.len());
    rep.layer(l);
}

/// Annotation sites x annotated types: the annotation is the only thing that constrains the
/// value, so the shown function type says whether the annotation was used.
fn annotation_cases() -> Vec<(String, String, String, RTy)> {
    // (site, type text, function text, expected type of `an`)
    let f = |ps: Vec<RTy>, r: RTy| Fn(ps, Box::new(r));
    let types: Vec<(&str, RTy)> = vec![
        ("Int", Int),
        ("String", Str),
        ("List(Int)", List(Box::new(Int))),
        ("#(Int, String)", it()),
        ("fn(Int) -> String", f(vec![Int], Str)),
        ("Result(Int, String)", ris()),
        ("Box(Int)", boxed(Int)),
        ("Pair", pair()),
        ("Color", color()),
        ("Ints", List(Box::new(Int))),
        ("List(a)", List(Box::new(Var("a".into())))),
        ("a", Var("a".into())),
        ("Box(#(a, Int))", boxed(Tuple(vec![Var("a".into()), Int]))),
    ];
    let mut out = vec![];
    for (tt, t) in &types {
        let t = t.clone();
        let sites: Vec<(&str, String, RTy)> = vec![
            ("parameter", format!("fn an(q: {tt}) {{ q }}"), f(vec![t.clone()], t.clone())),
            ("return", format!("fn an(q) -> {tt} {{ q }}"), f(vec![t.clone()], t.clone())),
            ("let", format!("fn an(q) {{ let v: {tt} = q v }}"), f(vec![t.clone()], t.clone())),
            ("let of todo", format!("fn an() {{ let v: {tt} = todo v }}"), f(vec![], t.clone())),
            ("lambda parameter, applied", format!("fn an(q) {{ let g = fn(z: {tt}) {{ z }} g(q) }}"), f(vec![t.clone()], t.clone())),
            ("lambda parameter, returned", format!("fn an() {{ fn(z: {tt}) {{ z }} }}"), f(vec![], f(vec![t.clone()], t.clone()))),
            ("lambda parameter, body with a let", format!("fn an() {{ fn(z: {tt}) {{ let w = z w }} }}"), f(vec![], f(vec![t.clone()], t.clone()))),
            ("lambda parameter, body with a case", format!("fn an() {{ fn(z: {tt}) {{ case z {{ w -> w }} }} }}"), f(vec![], f(vec![t.clone()], t.clone()))),
            ("lambda parameter, body with a lambda", format!("fn an() {{ fn(z: {tt}) {{ fn(w) {{ #(w, z) }} }} }}"), f(vec![], f(vec![t.clone()], f(vec![Var("ww".into())], Tuple(vec![Var("ww".into()), t.clone()]))))),
            ("lambda parameter, body with a use", format!("fn an() {{ fn(z: {tt}) {{ use w <- apply(z) w }} }}"), f(vec![], f(vec![t.clone()], t.clone()))),
            ("second lambda parameter", format!("fn an() {{ fn(y, z: {tt}) {{ #(y, z) }} }}"), f(vec![], f(vec![Var("zz".into()), t.clone()], Tuple(vec![Var("zz".into()), t.clone()])))),
            ("lambda return", format!("fn an() {{ fn(z) -> {tt} {{ z }} }}"), f(vec![], f(vec![t.clone()], t.clone()))),
            ("use binder", format!("fn an(q) {{ use z: {tt} <- apply(q) z }}"), f(vec![t.clone()], t.clone())),
        ];
        for (site, text, want) in sites {
            out.push((site.to_string(), tt.to_string(), text, want));
        }
    }
    out
}

fn eval_annotation_case(text: &str, want: &RTy) -> Option<String> {
    let main = format!("{PRELUDE}{text}\n");
    let ws = crate::ana::ws::Workspace::single(&[("main", &main)]);
    let files = ws.files();
    let host = ws.host();
    let an = host.snapshot();
    if let Ok(Ok(d)) = catch(|| an.diagnostics(files[0].id)) {
        if !d.is_empty() {
            return Some(format!("MACHINERY: program has syntax errors: {:?}", d.iter().take(2).collect::<Vec<_>>()));
        }
    }
    let off = main.find("fn an(").unwrap() + 3;
    let got = hover_type(&an, files[0].id, off);
    let ok = match &got {
        Ok(Some(g)) => g.strip_prefix("fn an").map(|r| format!("fn{r}")).and_then(|s| parse_ty(&s)).map_or(false, |g| alpha_eq(&g, want)),
        _ => false,
    };
    if ok {
        None
    } else {
        Some(format!("`{text}`: shown {got:?}, Gleam's type is `{}`", show(want)))
    }
}

fn annotations_layer(rep: &mut Report) {
    let cases = annotation_cases();
    let mut l = Layer { name: "annotation-sites".into(), exhaustive: true, ..Default::default() };
    for (site, tt, text, want) in &cases {
        l.states += 1;
        l.executions += 1;
        l.transitions += 1;
        if let Some(msg) = eval_annotation_case(text, want) {
            if msg.starts_with("MACHINERY") {
                rep.machinery(format!("annotation case {site} / {tt}: {msg}"));
                continue;
            }
            rep.violation(Violation { class: "function-type".into(), key: format!("annotation|{site}"), witness: json!({"annotation_site": site, "annotated_type": tt}), detail: format!("[annotation on {site}] {msg}") });
        }
    }
    l.bound = format!("{} functions: 13 annotation sites (parameter, return, let, let of `todo`, lambda parameter applied / returned / second of two / with a body that binds by let, case, lambda or use, lambda return, use binder) x 13 annotated types (scalars, list, tuple, function, Result, generic record, records, alias, type variables); the annotation alone determines the function's type", cases.len());
    rep.layer(l);
}

fn permutations(n: usize) -> Vec<Vec<usize>> {
    fn rec(cur: &mut Vec<usize>, n: usize, out: &mut Vec<Vec<usize>>) {
        if cur.len() == n {
            out.push(cur.clone());
            return;
        }
        for i in 0..n {
            if !cur.contains(&i) {
                cur.push(i);
                rec(cur, n, out);
                cur.pop();
            }
        }
    }
    let mut out = vec![];
    rec(&mut vec![], n, &mut out);
    out
}

fn graphs_layer(rep: &mut Report, tier: Tier) {
    // both tiers: the full search takes seconds
    let n = tier.pick(3usize, 3usize);
    // every digraph on n nodes (self loops included), callee lists in ascending order
    let bits = n * n;
    let jobs: Vec<(u32, u32)> = (0..(1u32 << bits)).flat_map(|m| (0..(1u32 << n)).map(move |p| (m, p))).collect();
    let res: Vec<(u64, Vec<Violation>)> = jobs
        .par_iter()
        .map(|&(mask, pmask)| {
            let edges: Vec<Vec<usize>> = (0..n).map(|a| (0..n).filter(|b| mask & (1 << (a * n + b)) != 0).collect()).collect();
            let plus: Vec<bool> = (0..n).map(|k| pmask & (1 << k) != 0).collect();
            let Some(want) = graph_expected(n, &edges, &plus) else { return (0, vec![]) };
            // parameter names: all `x`, or parameters spelled like a function their owner does not call
            // (n = 2: every combination; n = 3: one renamed parameter at a time)
            let mut namings: Vec<Vec<Option<usize>>> = vec![vec![None; n]];
            let options = |k: usize| -> Vec<Option<usize>> { std::iter::once(None).chain((0..n).filter(|j| !edges[k].contains(j)).map(Some)).collect() };
            if n == 2 {
                namings.clear();
                for a in options(0) {
                    for b in options(1) {
                        namings.push(vec![a, b]);
                    }
                }
            } else {
                for k in 0..n {
                    for o in options(k).into_iter().flatten() {
                        let mut v = vec![None; n];
                        v[k] = Some(o);
                        namings.push(v);
                    }
                }
            }
            let mut viol = vec![];
            let mut q = 0;
            for names in &namings {
                for order in permutations(n) {
                    let text = graph_program(n, &edges, &order, &plus, names);
                    let (host, file) = AnalysisHost::new_single_file(&text);
                    let an = host.snapshot();
                    for k in 0..n {
                        let off = text.find(&format!("fn f{k}(")).unwrap() + 3;
                        q += 1;
                        let got = hover_type(&an, file, off);
                        let wk = &want[k];
                        let ok = match &got {
                            Ok(Some(g)) => g.strip_prefix(&format!("fn f{k}")).map(|r| format!("fn{r}")).and_then(|s| parse_ty(&s)).map_or(false, |g| alpha_eq(&g, wk)),
                            _ => false,
                        };
                        // the local `kept<k>`: the parameter's type next to a variable of its own
                        let mut ok = ok;
                        let mut got = got;
                        let mut wk = wk.clone();
                        if ok {
                            if let Fn(ps, _) = &want[k] {
                                let wl = Tuple(vec![ps[0].clone(), List(Box::new(Var("own_of_the_local".into())))]);
                                let loff = text.find(&format!("let kept{k} ")).unwrap() + 4;
                                q += 1;
                                let gl = hover_type(&an, file, loff);
                                let lok = match &gl {
                                    Ok(Some(g)) => parse_ty(g).map_or(false, |g| alpha_eq(&g, &wl)),
                                    _ => false,
                                };
                                if !lok {
                                    ok = false;
                                    got = gl.map(|o| o.map(|t| format!("kept{k}: {t}")));
                                    wk = wl;
                                }
                            }
                        }
                        let wk = &wk;
                        if !ok && viol.len() < 3 {
                            let recursive = edges.iter().enumerate().any(|(a, e)| e.contains(&a)) || (0..n).any(|a| (0..n).any(|b| a != b && edges[a].contains(&b) && edges[b].contains(&a)));
                            let shadow = names.iter().any(|x| x.is_some());
                            viol.push(Violation { class: "function-type".into(), key: format!("call-graph|{}|n={n} edges={:?}|plus={:?}{}", if recursive { "recursive" } else { "acyclic" }, edges, plus, if shadow { "|parameter spelled like a function" } else { "" }), witness: json!({"n": n, "mask": mask, "plus": pmask, "names": names, "order": order, "text": text}), detail: format!("program {:?}: f{k} is shown as {got:?}, Gleam's type is `{}`", text, show(wk)) });
                        }
                    }
                }
            }
            (q, viol)
        })
        .collect();
    let mut l = Layer { name: "call-graphs".into(), exhaustive: true, ..Default::default() };
    for (q, v) in res {
        l.executions += 1;
        l.states += 1;
        l.transitions += q;
        for x in v {
            rep.violation(x);
        }
    }
    l.bound = format!("all digraphs on {n} functions (self loops included; ill-typed ones by the reference HM excluded) x every subset of functions ending in `+ 1` x parameter names (`x`, or spelled like a function the owner does not call: all combinations for n = 2, one at a time for n = 3) x all {} item orders; expected types by a reference Hindley-Milner with SCC-wise generalisation; in every function a local `#(parameter, [])` must show the parameter's type next to a type variable of its own", permutations(n).len());
    rep.layer(l);
}

pub fn run(tier: Tier) -> i32 {
    let mut rep = Report::new("C09", tier);
    // both tiers: the full search takes seconds
    let depth = tier.pick(2usize, 2usize);
    let exprs = typed_exprs(depth);
    // batches of let-bindings per function
    let batch = 24;
    let chunks: Vec<&[(String, RTy)]> = exprs.chunks(batch).collect();
    let res: Vec<(u64, Vec<Violation>)> = chunks
        .par_iter()
        .map(|ch| {
            let stmts: Vec<String> = ch.iter().enumerate().map(|(i, (e, _))| format!("let v{i} = {e}")).collect();
            let names: Vec<String> = (0..ch.len()).map(|i| format!("v{i}")).collect();
            let expect: Vec<(usize, &str, RTy)> = ch.iter().enumerate().map(|(i, (_, t))| (i, names[i].as_str(), t.clone())).collect();
            let fails = check_bindings(&stmts, &expect);
            let mut viol = vec![];
            for (si, msg) in fails {
                if si == usize::MAX {
                    // a generator problem: find the statement with the syntax error
                    for (i, (e, _)) in ch.iter().enumerate() {
                        let single = vec![format!("let v{i} = {e}")];
                        let f = check_bindings(&single, &[]);
                        if !f.is_empty() {
                            viol.push(Violation { class: "machinery-syntax".into(), key: expr_shape(e), witness: json!({"stmt": single[0]}), detail: format!("generated expression does not parse: {e}") });
                        }
                    }
                    continue;
                }
                // minimise: the failing binding alone
                let (e, t) = &ch[si];
                let single = vec![format!("let v0 = {e}")];
                let alone = check_bindings(&single, &[(0, "v0", t.clone())]);
                let detail = alone.first().map(|f| f.1.clone()).unwrap_or(format!("{msg} (only together with the other bindings of its batch)"));
                viol.push(Violation { class: "binder-type".into(), key: expr_key(e), witness: json!({"stmt": single[0], "type": show(t)}), detail });
            }
            (ch.len() as u64, viol)
        })
        .collect();
    let mut l = Layer { name: format!("typed-expressions-depth{depth}"), exhaustive: true, ..Default::default() };
    for (n, v) in res {
        l.states += n;
        l.executions += n;
        l.transitions += n;
        for x in v {
            if x.class == "machinery-syntax" {
                rep.machinery(x.detail.clone());
            } else {
                rep.violation(x);
            }
        }
    }
    l.bound = format!("every expression built by the typing rules to path depth {depth} (one-hole discipline) against {} target types (literals, all operators, tuples and indexing, lists and spreads, Result/Bool/Nil, custom types with generic parameters, field access, labelled arguments in any order, lambdas, captures, pipelines, use, case with several subjects, calls of generic functions), as the value of a let whose binder's shown type is compared", universe().len());
    rep.layer(l);
    // pattern bindings
    let pcs = pattern_cases();
    let mut pl = Layer { name: "pattern-binders".into(), exhaustive: false, ..Default::default() };
    for (stmt, binders) in &pcs {
        let stmts = vec![stmt.clone()];
        let expect: Vec<(usize, &str, RTy)> = binders.iter().map(|(b, t)| (0usize, *b, t.clone())).collect();
        pl.states += 1;
        pl.executions += 1;
        pl.transitions += binders.len() as u64;
        for (si, msg) in check_bindings(&stmts, &expect) {
            if si == usize::MAX {
                rep.machinery(format!("pattern case does not parse: {stmt}: {msg}"));
            } else {
                rep.violation(Violation { class: "binder-type".into(), key: { let k = expr_key(stmt); if k.starts_with("feature:") { k } else { format!("pattern|{k}") } }, witness: json!({"stmt": stmt}), detail: msg });
            }
        }
    }
    pl.bound = format!("{} statements with pattern / lambda / case / use binders of known types (fixed list)", pcs.len());
    rep.layer(pl);
    // records with three fields of distinct types: all label orders
    let rcs = record_cases();
    let mut rl = Layer { name: "record-patterns-and-constructions".into(), exhaustive: true, ..Default::default() };
    let rres: Vec<Vec<Violation>> = rcs
        .par_iter()
        .map(|(stmt, binders)| {
            let expect: Vec<(usize, &str, RTy)> = binders.iter().map(|(b, t)| (0usize, b.as_str(), t.clone())).collect();
            check_bindings(&[stmt.clone()], &expect)
                .into_iter()
                .map(|(si, msg)| Violation { class: if si == usize::MAX { "machinery-syntax".into() } else { "binder-type".into() }, key: format!("record|{}", { let k = expr_key(stmt); k.chars().take(40).collect::<String>() }), witness: json!({"record_stmt": stmt}), detail: msg })
                .collect()
        })
        .collect();
    for (i, v) in rres.into_iter().enumerate() {
        rl.states += 1;
        rl.executions += 1;
        rl.transitions += rcs[i].1.len() as u64;
        for x in v {
            if x.class == "machinery-syntax" {
                rep.machinery(x.detail.clone());
            } else {
                rep.violation(x);
            }
        }
    }
    rl.bound = format!("{} statements: for five records (all fields labelled; generic; no labels; one unlabelled then three labelled with a type parameter; type parameters nested inside list / tuple / function / record field types) with fields of distinct types, every positional prefix followed by every ordered selection of the remaining labelled fields (patterns in let and in case, with `..` when incomplete; complete constructor calls), plus field access", rcs.len());
    rep.layer(rl);
    // binders typed by their context x projections
    let ccs = context_cases();
    let mut cl = Layer { name: "context-typed-binders".into(), exhaustive: true, ..Default::default() };
    let cres: Vec<Vec<Violation>> = ccs
        .par_iter()
        .map(|(kind, stmt, binders)| {
            let expect: Vec<(usize, &str, RTy)> = binders.iter().map(|(b, t)| (0usize, b.as_str(), t.clone())).collect();
            check_bindings(&[stmt.clone()], &expect)
                .into_iter()
                .map(|(si, msg)| Violation { class: if si == usize::MAX { "machinery-syntax".into() } else { "binder-type".into() }, key: { let k = expr_key(stmt); if k.starts_with("feature:") { k } else { format!("context-typed binder|{kind}") } }, witness: json!({"context_stmt": stmt}), detail: msg })
                .collect()
        })
        .collect();
    for (i, v) in cres.into_iter().enumerate() {
        cl.states += 1;
        cl.executions += 1;
        cl.transitions += ccs[i].2.len() as u64;
        for x in v {
            if x.class == "machinery-syntax" {
                rep.machinery(format!("{}: {}", ccs[i].1, x.detail));
            } else {
                rep.violation(x);
            }
        }
    }
    cl.bound = format!("{} statements: 4 values (tuple, record, generic record, three-field record) x their projections (binder itself, tuple index / field access, arithmetic on it) x 8 contexts that give the binder its type (callback of a generic function, of map over a list, after a pipe, use binder, clause binder, let binder; an immediately applied lambda and a lambda bound first and applied later only with the binder itself, since Gleam rejects a projection there); both the binder's and the result's shown type are compared", ccs.len());
    rep.layer(cl);

    graphs_layer(&mut rep, tier);
    binary_graphs_layer(&mut rep);
    cross_module_layer(&mut rep);
    annotations_layer(&mut rep);
    rep.distinct_nontrivial = exprs.len() as u64;
    rep.distinct_outcomes = 1 + rep.violations.iter().map(|v| v.key.clone()).collect::<BTreeSet<_>>().len() as u64;
    rep.rule = "each expression is distinct by text; its type is known by construction (typing rules); shown types are parsed and compared up to a bijective renaming of type variables".into();
    rep.sample(json!({"stmt": "let v = case b { True -> Ok(i) False -> Error(s) }", "type": "Result(Int, String)"}));
    rep.assumptions = vec!["the typing rules of the generator are the harness' reading of Gleam's type system for the supported core".into()];
    rep.guard(exprs.len() > 200, "more than 200 typed expressions");
    rep.finish()
}

pub fn replay(w: &Value) -> Vec<String> {
    if let (Some(stmt), Some(t)) = (w["stmt"].as_str(), w["type"].as_str()) {
        let Some(ty) = parse_ty(t) else { return vec!["bad type".into()] };
        return check_bindings(&[stmt.to_string()], &[(0, "v0", ty)]).into_iter().map(|f| f.1).collect();
    }
    if let (Some(site), Some(tt)) = (w["annotation_site"].as_str(), w["annotated_type"].as_str()) {
        let Some((_, _, text, want)) = annotation_cases().into_iter().find(|c| c.0 == site && c.1 == tt) else { return vec!["unknown annotation case".into()] };
        return eval_annotation_case(&text, &want).into_iter().collect();
    }
    if let Some(stmt) = w["context_stmt"].as_str() {
        if let Some((_, _, binders)) = context_cases().into_iter().find(|(_, s, _)| s == stmt) {
            let expect: Vec<(usize, &str, RTy)> = binders.iter().map(|(b, t)| (0usize, b.as_str(), t.clone())).collect();
            return check_bindings(&[stmt.to_string()], &expect).into_iter().map(|f| f.1).collect();
        }
    }
    if let Some(stmt) = w["record_stmt"].as_str() {
        if let Some((_, binders)) = record_cases().into_iter().find(|(s, _)| s == stmt) {
            let expect: Vec<(usize, &str, RTy)> = binders.iter().map(|(b, t)| (0usize, b.as_str(), t.clone())).collect();
            return check_bindings(&[stmt.to_string()], &expect).into_iter().map(|f| f.1).collect();
        }
    }
    if let Some(stmt) = w["stmt"].as_str() {
        if let Some((_, binders)) = pattern_cases().into_iter().find(|(s, _)| s == stmt) {
            let expect: Vec<(usize, &str, RTy)> = binders.iter().map(|(b, t)| (0usize, *b, t.clone())).collect();
            return check_bindings(&[stmt.to_string()], &expect).into_iter().map(|f| f.1).collect();
        }
    }
    if let Some(b) = w["bodies2"].as_array() {
        let bs = bodies2(2);
        let bodies = [bs[b[0].as_u64().unwrap_or(0) as usize], bs[b[1].as_u64().unwrap_or(0) as usize]];
        let order: Vec<usize> = w["order"].as_array().map(|a| a.iter().filter_map(|x| x.as_u64()).map(|x| x as usize).collect()).unwrap_or_else(|| vec![0, 1]);
        return check_program2(&bodies, &order).map(|r| r.1).unwrap_or_default();
    }
    if let Some(text) = w["text"].as_str() {
        let n = w["n"].as_u64().unwrap_or(2) as usize;
        let mask = w["mask"].as_u64().unwrap_or(0) as u32;
        let pmask = w["plus"].as_u64().unwrap_or(0) as u32;
        let plus: Vec<bool> = (0..n).map(|k| pmask & (1 << k) != 0).collect();
        let edges: Vec<Vec<usize>> = (0..n).map(|a| (0..n).filter(|b| mask & (1 << (a * n + b)) != 0).collect()).collect();
        let Some(want) = graph_expected(n, &edges, &plus) else { return vec![] };
        let (host, file) = AnalysisHost::new_single_file(text);
        let an = host.snapshot();
        let mut out = vec![];
        for k in 0..n {
            let off = text.find(&format!("fn f{k}(")).unwrap() + 3;
            let got = hover_type(&an, file, off);
            let ok = match &got {
                Ok(Some(g)) => g.strip_prefix(&format!("fn f{k}")).map(|r| format!("fn{r}")).and_then(|s| parse_ty(&s)).map_or(false, |g| alpha_eq(&g, &want[k])),
                _ => false,
            };
            if !ok {
                out.push(format!("f{k}: {got:?}, expected {}", show(&want[k])));
            }
        }
        return out;
    }
    vec!["bad witness".into()]
}
