//! C12 — snapshots are isolated from later changes; changes cancel, never block.
//! Schedule exploration (E4, in-process): the reader thread is parked at its i-th salsa
//! cancellation checkpoint (hook H2 -> thread-local controller), for EVERY i; then the writer
//! applies the change, the controller waits until the cancellation flag is visible (hook H3),
//! and the reader is resumed. Two readers: every pair of checkpoints (strided) x both orders.
use crate::ana::sweep::{run_query, Outcome, Q};
use crate::core::{Layer, Report, Tier, Violation};
use ide::verif::Controller;
use ide::{AnalysisHost, Change, Dependency, FileId, FileSet, PackageGraph, SourceRoot, VfsPath};
use rayon::prelude::*;
use serde_json::{json, Value};
use std::collections::BTreeSet;
use std::sync::{Arc, Condvar, Mutex};
use std::time::{Duration, Instant};

#[derive(Default)]
struct RState {
    checks: u64,
    parked: bool,
    released: bool,
    blocked_on: bool,
    finished: bool,
    checks_after_release: u64,
    result: Option<Outcome>,
}

struct ReaderCtl {
    park_at: Option<u64>,
    st: Mutex<RState>,
    cv: Condvar,
}

impl ReaderCtl {
    fn new(park_at: Option<u64>) -> Arc<Self> {
        Arc::new(ReaderCtl { park_at, st: Mutex::new(RState::default()), cv: Condvar::new() })
    }
    fn release(&self) {
        let mut s = self.st.lock().unwrap();
        s.released = true;
        self.cv.notify_all();
    }
    /// Waits until the reader is parked, blocked on another reader, or finished.
    fn wait_settled(&self, timeout: Duration) -> Result<&'static str, ()> {
        let start = Instant::now();
        let mut s = self.st.lock().unwrap();
        loop {
            if s.finished {
                return Ok("finished");
            }
            if s.parked {
                return Ok("parked");
            }
            if s.blocked_on {
                return Ok("blocked_on");
            }
            let left = timeout.checked_sub(start.elapsed()).ok_or(())?;
            let (g, _) = self.cv.wait_timeout(s, left).unwrap();
            s = g;
        }
    }
}

impl Controller for ReaderCtl {
    fn point(&self, name: &str) {
        let mut s = self.st.lock().unwrap();
        match name {
            "salsa:check" => {
                if s.released {
                    s.checks_after_release += 1;
                    return;
                }
                if Some(s.checks) == self.park_at {
                    s.parked = true;
                    self.cv.notify_all();
                    while !s.released {
                        s = self.cv.wait(s).unwrap();
                    }
                    s.parked = false;
                }
                s.checks += 1;
            }
            "salsa:block_on" => {
                s.blocked_on = true;
                self.cv.notify_all();
            }
            _ => {}
        }
    }
}

const FA: FileId = FileId(0);
const FB: FileId = FileId(1);
const FC: FileId = FileId(2);
const FT: FileId = FileId(3);
const FLT: FileId = FileId(4);

pub struct Scenario {
    pub name: &'static str,
    pub a0: &'static str,
    pub b0: &'static str,
    pub a1: &'static str,
    pub b1: &'static str,
    pub add_c: bool,
    pub warm: bool,
    /// b.gleam lives in a second package `lib`; the change carries ONLY a package graph that adds the edge app -> lib
    pub graph_only: bool,
    /// the change carries two texts for a.gleam (an intermediate one, then a1), as a notification with two edits does
    pub batched: bool,
}

const A0: &str = "import b.{other}\npub fn main(x) { let y = b.inc(x) helper(y, [1, 2]) }\nfn helper(n, l) { case l { [h, ..t] -> h + n [] -> n } }\npub type W { W(f: Int) }\npub fn say() { other(\"s\") }\n";
const B0: &str = "pub fn inc(n: Int) -> Int { n + 1 }\npub fn other(s) { s <> \"x\" }\n";

pub fn scenarios() -> Vec<Scenario> {
    vec![
        Scenario { name: "body-edit-cold", a0: A0, b0: B0, a1: "import b.{other}\npub fn main(x) { let y = b.inc(x) helper(y, [3, 4]) }\nfn helper(n, l) { case l { [h, ..t] -> h + n [] -> n } }\npub type W { W(f: Int) }\npub fn say() { other(\"s\") }\n", b1: B0, add_c: false, warm: false, graph_only: false, batched: false },
        Scenario { name: "signature-edit-cold", a0: A0, b0: B0, a1: A0, b1: "pub fn inc(n: Float) -> Float { n +. 1.0 }\npub fn other(s) { s <> \"x\" }\n", add_c: false, warm: false, graph_only: false, batched: false },
        Scenario { name: "structural-cold", a0: A0, b0: B0, a1: A0, b1: B0, add_c: true, warm: false, graph_only: false, batched: false },
        Scenario { name: "signature-edit-warm", a0: A0, b0: B0, a1: A0, b1: "pub fn inc(n: Float) -> Float { n +. 1.0 }\npub fn other(s) { s <> \"x\" }\n", add_c: false, warm: true, graph_only: false, batched: false },
        Scenario { name: "two-texts-in-one-change", a0: A0, b0: B0, a1: "import b.{other}\npub fn main(x) { let y = b.inc(x) helper(y, [3, 4]) }\nfn helper(n, l) { case l { [h, ..t] -> h + n [] -> n } }\npub type W { W(f: Int) }\npub fn say() { other(\"s\") }\n", b1: B0, add_c: false, warm: false, graph_only: false, batched: true },
        Scenario { name: "graph-only-cold", a0: A0, b0: B0, a1: A0, b1: B0, add_c: false, warm: false, graph_only: true, batched: false },
        Scenario { name: "graph-only-warm", a0: A0, b0: B0, a1: A0, b1: B0, add_c: false, warm: true, graph_only: true, batched: false },
    ]
}

fn graph(two_pkgs: bool, dep: bool) -> PackageGraph {
    let mut g = PackageGraph::default();
    let app = g.add_package("app".into(), FT, true);
    if two_pkgs {
        let lib = g.add_package("lib".into(), FLT, true);
        if dep {
            g.add_dep(app, Dependency { package: lib });
        }
    }
    g
}

fn roots2() -> Vec<SourceRoot> {
    let mut app = FileSet::default();
    app.insert(FA, VfsPath::new("/ws/app/src/a.gleam"));
    app.insert(FT, VfsPath::new("/ws/app/gleam.toml"));
    let mut lib = FileSet::default();
    lib.insert(FB, VfsPath::new("/ws/lib/src/b.gleam"));
    lib.insert(FLT, VfsPath::new("/ws/lib/gleam.toml"));
    vec![SourceRoot::new(app, "/ws/app".into()), SourceRoot::new(lib, "/ws/lib".into())]
}

fn roots(with_c: bool) -> Vec<SourceRoot> {
    let mut fs = FileSet::default();
    fs.insert(FA, VfsPath::new("/ws/app/src/a.gleam"));
    fs.insert(FB, VfsPath::new("/ws/app/src/b.gleam"));
    if with_c {
        fs.insert(FC, VfsPath::new("/ws/app/src/c.gleam"));
    }
    fs.insert(FT, VfsPath::new("/ws/app/gleam.toml"));
    vec![SourceRoot::new(fs, "/ws/app".into())]
}

const C_TEXT: &str = "import a\npub fn c() { a.main(1) }\n";

fn host_v(sc: &Scenario, version: u8) -> AnalysisHost {
    let mut h = AnalysisHost::new();
    let mut ch = Change::default();
    ch.change_file(FA, Arc::from(if version == 0 { sc.a0 } else { sc.a1 }));
    ch.change_file(FB, Arc::from(if version == 0 { sc.b0 } else { sc.b1 }));
    ch.change_file(FT, Arc::from("name = \"app\"\n"));
    let with_c = version == 1 && sc.add_c;
    if with_c {
        ch.change_file(FC, Arc::from(C_TEXT));
    }
    if sc.graph_only {
        ch.change_file(FLT, Arc::from("name = \"lib\"\n"));
        ch.set_roots(roots2());
    } else {
        ch.set_roots(roots(with_c));
    }
    ch.set_package_graph(graph(sc.graph_only, version == 1));
    h.apply_change(ch);
    h
}

fn delta(sc: &Scenario) -> Change {
    let mut ch = Change::default();
    if sc.a0 != sc.a1 {
        if sc.batched {
            ch.change_file(FA, Arc::from("pub fn main(x) { x }\n"));
        }
        ch.change_file(FA, Arc::from(sc.a1));
    }
    if sc.b0 != sc.b1 {
        ch.change_file(FB, Arc::from(sc.b1));
    }
    if sc.add_c {
        ch.change_file(FC, Arc::from(C_TEXT));
        ch.set_roots(roots(true));
    }
    if sc.graph_only {
        ch.set_package_graph(graph(true, true));
    }
    ch
}

/// (query, offset in a.gleam)
pub fn query_menu() -> Vec<(Q, u32)> {
    let inc = A0.find("inc").unwrap() as u32;
    let helper_call = A0.find("helper(y").unwrap() as u32;
    let y = A0.find("y =").unwrap() as u32;
    let main = A0.find("main").unwrap() as u32;
    let after_let = A0.find("helper(y").unwrap() as u32;
    vec![
        (Q::Hover, inc),
        (Q::Hover, A0.find("other(").unwrap() as u32),
        (Q::Goto, A0.find("other(").unwrap() as u32),
        (Q::Hover, main),
        (Q::Goto, inc),
        (Q::Refs, helper_call),
        (Q::Highlight, y),
        (Q::Compl, after_let),
        (Q::ComplDot, inc),
        (Q::SigHelp, helper_call + 7),
        (Q::PrepRename, y),
        (Q::RenameLower, helper_call),
        (Q::SynHl, 0),
        (Q::SynHlRange, A0.len() as u32),
        (Q::Diagnostics, 0),
        (Q::SyntaxTree, 0),
    ]
}

fn answer(h: &AnalysisHost, q: Q, off: u32) -> Outcome {
    run_query(&h.snapshot(), q, FA, off).outcome
}

fn warm_up(h: &AnalysisHost) {
    for (q, off) in query_menu() {
        let _ = answer(h, q, off);
    }
}

#[derive(Debug)]
pub struct RunResult {
    pub reader_outcomes: Vec<String>,
    pub problems: Vec<(String, String)>,
    pub n_checks: Vec<u64>,
    pub cancelled_mid: bool,
}

const T: Duration = Duration::from_secs(20);

/// One schedule. `parks[i]` = checkpoint index at which reader i is parked (None = run free).
pub fn run_schedule(sc: &Scenario, readers: &[(Q, u32, Option<u64>)], release_order: &[usize]) -> RunResult {
    let mut problems: Vec<(String, String)> = vec![];
    let mut host = host_v(sc, 0);
    if sc.warm {
        warm_up(&host);
    }
    let pre_host = host_v(sc, 0);
    let post_host = host_v(sc, 1);
    let probe = host.snapshot();
    let ctls: Vec<Arc<ReaderCtl>> = readers.iter().map(|r| ReaderCtl::new(r.2)).collect();
    let mut handles = vec![];
    let mut post_tx: Vec<std::sync::mpsc::Sender<ide::Analysis>> = vec![];
    // what every reader thread asks again, on its own thread, on a snapshot taken after the change
    let unq = A0.find("other(").unwrap() as u32;
    for (i, (q, off, _)) in readers.iter().enumerate() {
        let snap = host.snapshot();
        let ctl = ctls[i].clone();
        let (q, off) = (*q, *off);
        let (tx, rx) = std::sync::mpsc::channel::<ide::Analysis>();
        post_tx.push(tx);
        handles.push(std::thread::spawn(move || {
            ide::verif::set_thread_controller(Some(ctl.clone() as Arc<dyn Controller>));
            let out = run_query(&snap, q, FA, off).outcome;
            drop(snap);
            ide::verif::set_thread_controller(None);
            {
                let mut s = ctl.st.lock().unwrap();
                s.finished = true;
                s.result = Some(out.clone());
                ctl.cv.notify_all();
            }
            // the thread lives on (like a thread of the server's blocking pool) and serves a
            // request on the workspace after the change
            let post: Vec<Outcome> = match rx.recv_timeout(T) {
                Ok(an) => [(q, off), (Q::Hover, unq), (Q::Goto, unq)].iter().map(|(q, o)| run_query(&an, *q, FA, *o).outcome).collect(),
                Err(_) => vec![],
            };
            (out, post)
        }));
    }
    let mut settled = vec![];
    for c in &ctls {
        match c.wait_settled(T) {
            Ok(s) => settled.push(s),
            Err(()) => {
                problems.push(("machinery".into(), "reader did not reach its parking point".into()));
                settled.push("timeout");
            }
        }
    }
    // writer
    let ch = delta(sc);
    let writer = std::thread::spawn(move || {
        host.apply_change(ch);
        host
    });
    // wait until the cancellation flag is visible, then let go of the probe snapshot
    let start = Instant::now();
    while !probe.verif_cancel_pending() {
        // a writer that returns while the probe snapshot is alive has not set any input (salsa
        // waits for other snapshots before it mutates): nothing will ever be cancelled; the
        // post-change comparison below decides whether that was right
        if writer.is_finished() {
            break;
        }
        if start.elapsed() > T {
            problems.push(("machinery".into(), "cancellation flag never became visible".into()));
            break;
        }
        std::thread::yield_now();
    }
    drop(probe);
    for &i in release_order {
        ctls[i].release();
        // give the released reader the chance to finish before the next one is released
        let _ = ctls[i].wait_settled(Duration::from_millis(200));
    }
    for c in &ctls {
        c.release();
    }
    let mut outcomes = vec![];
    let mut n_checks = vec![];
    let mut cancelled_mid = false;
    for i in 0..handles.len() {
        let start = Instant::now();
        let out = loop {
            {
                let s = ctls[i].st.lock().unwrap();
                if s.finished {
                    break s.result.clone().unwrap_or(Outcome::Panic("reader left no result".into()));
                }
            }
            if handles[i].is_finished() {
                break Outcome::Panic("reader thread died".into());
            }
            if start.elapsed() > T {
                break Outcome::Panic("reader did not finish".into());
            }
            std::thread::sleep(Duration::from_micros(50));
        };
        let (q, off, park) = readers[i];
        let pre = answer(&pre_host, q, off);
        let s = ctls[i].st.lock().unwrap();
        n_checks.push(s.checks);
        match &out {
            Outcome::Cancelled => {
                if settled[i] == "parked" || settled[i] == "blocked_on" {
                    cancelled_mid = true;
                }
                if settled[i] == "finished" {
                    problems.push(("cancelled-after-completion".into(), format!("reader {i} had finished before the change but reports cancellation")));
                }
            }
            Outcome::Ok(_) if out == pre => {}
            Outcome::Ok(s2) => {
                let post = answer(&post_host, q, off);
                let which = if out == post { "the NEW workspace's answer" } else { "a mixture of old and new" };
                problems.push(("not-isolated".into(), format!("reader {i} ({q:?} parked at {park:?}) returned {which}: {:?}", s2.chars().take(200).collect::<String>())));
            }
            Outcome::Panic(m) => problems.push(("panic".into(), format!("reader {i} ({q:?} parked at {park:?}) panicked: {m}"))),
        }
        if s.checks_after_release > 1 && matches!(out, Outcome::Cancelled) && settled[i] == "parked" {
            problems.push(("late-cancellation".into(), format!("reader {i} passed {} checkpoints after the flag was set", s.checks_after_release)));
        }
        if settled[i] == "parked" && !matches!(out, Outcome::Cancelled) {
            problems.push(("missed-cancellation".into(), format!("reader {i} ({q:?}) was parked at checkpoint {park:?} with the flag set but completed with {out:?}")));
        }
        outcomes.push(format!("{:?}", std::mem::discriminant(&out)));
        outcomes[i] = match out {
            Outcome::Ok(_) => "ok".into(),
            Outcome::Cancelled => "cancelled".into(),
            Outcome::Panic(_) => "panic".into(),
        };
    }
    // the writer must finish once all readers ended
    let start = Instant::now();
    while !writer.is_finished() {
        if start.elapsed() > T {
            problems.push(("writer-blocked".into(), "apply_change did not return after all readers ended".into()));
            return RunResult { reader_outcomes: outcomes, problems, n_checks, cancelled_mid };
        }
        std::thread::sleep(Duration::from_micros(50));
    }
    match writer.join() {
        Ok(h) => {
            // first on the readers' own threads: what a cancelled query left behind on its thread
            // must not reach the next request served there (and be memoised for everyone)
            for tx in &post_tx {
                let _ = tx.send(h.snapshot());
            }
            for (i, hd) in handles.into_iter().enumerate() {
                let Ok((_, post)) = hd.join() else { continue };
                let (q, off, park) = readers[i];
                let asked = [(q, off), (Q::Hover, unq), (Q::Goto, unq)];
                for (k, got) in post.iter().enumerate() {
                    let want = answer(&post_host, asked[k].0, asked[k].1);
                    if *got != want {
                        problems.push(("stale-after-change-on-the-reader-thread".into(), format!("{:?} at {} asked after the change on the thread of reader {i} ({q:?}, parked at {park:?}) gives {:?}, a fresh analysis of the new workspace {:?}", asked[k].0, asked[k].1, got, want)));
                    }
                }
            }
                    for (q, off, _) in readers {
                let got = answer(&h, *q, *off);
                let want = answer(&post_host, *q, *off);
                if got != want {
                    problems.push(("stale-after-change".into(), format!("{q:?} on a snapshot taken after the change differs from a fresh analysis of the new workspace")));
                }
            }
}
        Err(_) => problems.push(("panic".into(), "apply_change panicked".into())),
    }
    RunResult { reader_outcomes: outcomes, problems, n_checks, cancelled_mid }
}

pub fn run(tier: Tier) -> i32 {
    let mut rep = Report::new("C12", tier);
    let scs = scenarios();
    let menu = query_menu();
    let mut outcome_kinds: BTreeSet<String> = BTreeSet::new();
    let mut cancelled_mid_total = 0u64;
    let mut distinct_n: BTreeSet<u64> = BTreeSet::new();
    // n = 1: every checkpoint index
    for sc in &scs {
        let mut jobs: Vec<(Q, u32, u64, u64)> = vec![];
        for &(q, off) in &menu {
            let dry = run_schedule(sc, &[(q, off, None)], &[]);
            let n = dry.n_checks[0];
            distinct_n.insert(n);
            if !dry.problems.is_empty() {
                for (c, d) in dry.problems {
                    rep.violation(Violation { class: c.clone(), key: format!("{c}|{q:?}|dry"), witness: json!({"scenario": sc.name, "readers": [[format!("{q:?}"), off, Value::Null]], "order": []}), detail: format!("{}: {d}", sc.name) });
                }
            }
            for c in 0..=n {
                jobs.push((q, off, c, n));
            }
        }
        let res: Vec<(RunResult, Q, u32, u64)> = jobs.par_iter().map(|&(q, off, c, _)| (run_schedule(sc, &[(q, off, Some(c))], &[0]), q, off, c)).collect();
        let mut l = Layer { name: format!("one-reader:{}", sc.name), exhaustive: true, ..Default::default() };
        l.states = jobs.len() as u64;
        for (r, q, off, c) in res {
            l.executions += 1;
            l.transitions += r.n_checks.iter().sum::<u64>() + 2;
            if r.cancelled_mid {
                cancelled_mid_total += 1;
            }
            outcome_kinds.insert(r.reader_outcomes.join(","));
            for (class, d) in r.problems {
                if class == "machinery" {
                    rep.machinery(format!("{}: {q:?} c={c}: {d}", sc.name));
                    continue;
                }
                rep.violation(Violation { class: class.clone(), key: format!("{class}|{q:?}"), witness: json!({"scenario": sc.name, "readers": [[format!("{q:?}"), off, c]], "order": [0]}), detail: format!("{} {q:?} writer started while the reader was parked at checkpoint {c}: {d}", sc.name) });
            }
        }
        l.bound = format!("{} query kinds x EVERY cancellation checkpoint index 0..=N (N measured per query by a dry run) of one reader; scenario {}", menu.len(), sc.name);
        rep.layer(l);
    }
    // n = 2: pairs of checkpoints x both release orders
    let pair_stride = tier.pick(7u64, 2u64);
    let pairs: Vec<(usize, usize)> = if tier == Tier::Thorough {
        (0..menu.len()).flat_map(|i| (0..menu.len()).map(move |j| (i, j))).collect()
    } else {
        vec![(0, 0), (0, 1), (1, 3), (3, 9), (5, 10), (2, 12)]
    };
    for sc in scs.iter().take(tier.pick(1, 2)) {
        let mut jobs = vec![];
        for &(i, j) in &pairs {
            let (q1, o1) = menu[i];
            let (q2, o2) = menu[j];
            let n1 = run_schedule(sc, &[(q1, o1, None)], &[]).n_checks[0];
            let n2 = run_schedule(sc, &[(q2, o2, None)], &[]).n_checks[0];
            let mut c1 = 0;
            while c1 <= n1 {
                let mut c2 = 0;
                while c2 <= n2 {
                    jobs.push((q1, o1, c1, q2, o2, c2, 0usize));
                    jobs.push((q1, o1, c1, q2, o2, c2, 1usize));
                    c2 += pair_stride;
                }
                c1 += pair_stride;
            }
        }
        let res: Vec<_> = jobs
            .par_iter()
            .map(|&(q1, o1, c1, q2, o2, c2, ord)| {
                let order = if ord == 0 { [0, 1] } else { [1, 0] };
                (run_schedule(sc, &[(q1, o1, Some(c1)), (q2, o2, Some(c2))], &order), q1, o1, c1, q2, o2, c2, ord)
            })
            .collect();
        let mut l = Layer { name: format!("two-readers:{}", sc.name), exhaustive: pair_stride == 1, ..Default::default() };
        l.states = jobs.len() as u64;
        for (r, q1, o1, c1, q2, o2, c2, ord) in res {
            l.executions += 1;
            l.transitions += r.n_checks.iter().sum::<u64>() + 3;
            if r.cancelled_mid {
                cancelled_mid_total += 1;
            }
            outcome_kinds.insert(r.reader_outcomes.join(","));
            for (class, d) in r.problems {
                if class == "machinery" {
                    rep.machinery(format!("{}: {q1:?}@{c1} {q2:?}@{c2}: {d}", sc.name));
                    continue;
                }
                rep.violation(Violation { class: class.clone(), key: format!("{class}|{q1:?}+{q2:?}"), witness: json!({"scenario": sc.name, "readers": [[format!("{q1:?}"), o1, c1], [format!("{q2:?}"), o2, c2]], "order": if ord == 0 { [0, 1] } else { [1, 0] }}), detail: format!("{} readers {q1:?}@{c1}, {q2:?}@{c2}, release order {ord}: {d}", sc.name) });
            }
        }
        l.bound = format!("{} query-kind pairs x checkpoint pairs (every {pair_stride}th index of each reader) x both release orders, incl. states where reader 2 blocks on reader 1's in-progress query", pairs.len());
        if pair_stride != 1 {
            rep.caps.push(json!({"layer": l.name, "cap": format!("checkpoint pairs strided by {pair_stride}"), "completed": "all strided pairs x both orders"}));
        }
        rep.layer(l);
    }
    rep.distinct_nontrivial = cancelled_mid_total;
    rep.distinct_outcomes = outcome_kinds.len() as u64;
    // server level: an edit arriving while a request of each kind is inside its analysis
    if std::path::Path::new(&crate::lsp::proc::server_bin()).exists() {
        let mut sl = Layer { name: "server-edit-during-request".into(), exhaustive: true, ..Default::default() };
        let probes = crate::props::race::edit_during_request_probes();
        let mut names = vec![];
        for (name, problems) in probes {
            sl.states += 1;
            sl.executions += 1;
            sl.transitions += 4;
            names.push(name.clone());
            for (class, detail) in problems {
                if class == "machinery" {
                    rep.machinery(format!("{name}: {detail}"));
                } else {
                    rep.violation(Violation { class: class.clone(), key: format!("server|{class}|{}", name.split(' ').next().unwrap_or("")), witness: json!({"server_probe": name}), detail: format!("[real server, {name} stopped at its first cancellation checkpoint, then didChange] {detail}") });
                }
            }
        }
        sl.bound = format!("real server under the yield-point scheduler: each of 11 request kinds x 3 stages of its task (not started, started but before its store read, stopped at the first cancellation checkpoint of its analysis), then the client sends a didChange: the edit must pass the document store (cancel, not wait), the request is answered exactly once with an error or the answer for its version, the canary is answered; {} probes: {names:?}", names.len());
        rep.layer(sl);
    } else {
        rep.machinery("server binary not built (needed for the server-level layer)");
    }
    rep.rule = "a schedule = (scenario, queries, checkpoint index at which each reader is parked when the writer starts, release order); non-trivial = schedules in which a reader was cancelled mid-query".into();
    rep.sample(json!({"scenario": "signature-edit-cold", "readers": [["Hover", 19, 37]], "order": [0]}));
    rep.assumptions = vec!["interleavings between two checkpoints inside salsa/parking_lot are not controlled (trusted base)".into(), "cancellation is observed only at salsa query entry (WillCheckCancellation), so the checkpoint index is the complete schedule space for one reader".into()];
    rep.guard(cancelled_mid_total > 10, "schedules with a reader cancelled mid-query");
    rep.guard(outcome_kinds.iter().any(|o| o.contains("ok")), "schedules with a completed reader");
    rep.guard(distinct_n.len() > 1, "more than one distinct checkpoint count");
    rep.finish()
}

pub fn replay(w: &Value) -> Vec<String> {
    if let Some(name) = w["server_probe"].as_str() {
        return crate::props::race::edit_during_request_probes().into_iter().filter(|(n, _)| n == name).flat_map(|(_, p)| p.into_iter().map(|(c, d)| format!("{c}: {d}"))).collect();
    }
    let scs = scenarios();
    let Some(sc) = scs.iter().find(|s| Some(s.name) == w["scenario"].as_str()) else { return vec!["unknown scenario".into()] };
    let menu = query_menu();
    let mut readers = vec![];
    for r in w["readers"].as_array().cloned().unwrap_or_default() {
        let qn = r[0].as_str().unwrap_or("");
        let off = r[1].as_u64().unwrap_or(0) as u32;
        let Some((q, _)) = menu.iter().find(|(q, o)| format!("{q:?}") == qn && *o == off) else { return vec!["unknown query".into()] };
        readers.push((*q, off, r[2].as_u64()));
    }
    let order: Vec<usize> = w["order"].as_array().map(|a| a.iter().filter_map(|x| x.as_u64()).map(|x| x as usize).collect()).unwrap_or_default();
    run_schedule(sc, &readers, &order).problems.into_iter().map(|(c, d)| format!("{c}: {d}")).collect()
}
