//! C01 (lossless tree) and C02 (parser terminates without panic) — exhaustive input-space
//! enumeration over the real `syntax::parse_module`.
use crate::core::alphabet::{self, decode, pow};
use crate::core::{catch, mix, panic_class, DistinctCounter, Layer, Report, Tier, Violation};
use rayon::prelude::*;
use serde_json::json;
use std::collections::{BTreeMap, BTreeSet};
use std::sync::Mutex;
use syntax::{NodeOrToken, SyntaxKind};

#[derive(Clone, Copy, PartialEq, Eq)]
pub enum Which {
    C01,
    C02,
}

pub struct Outcome {
    pub panic: Option<String>,
    pub lossless: Option<String>,
    pub n_errors: usize,
    pub shape: u64,
    pub nontrivial: bool,
}

/// The C01 oracle: pre-order walk over tokens; non-empty, contiguous from 0 to len, texts
/// equal to the input slices.
pub fn lossless_error(text: &str, root: &syntax::SyntaxNode) -> Option<String> {
    let mut pos = 0usize;
    for el in root.descendants_with_tokens() {
        if let NodeOrToken::Token(t) = el {
            let r = t.text_range();
            let (s, e) = (usize::from(r.start()), usize::from(r.end()));
            if s != pos {
                return Some(format!("token {:?} starts at {s}, expected {pos}", t.kind()));
            }
            if e <= s {
                return Some(format!("empty token {:?} at {s}", t.kind()));
            }
            if e > text.len() || !text.is_char_boundary(s) || !text.is_char_boundary(e) {
                return Some(format!("token range {s}..{e} outside text or off boundary"));
            }
            if t.text() != &text[s..e] {
                return Some(format!("token text {:?} != input slice {:?}", t.text(), &text[s..e]));
            }
            pos = e;
        }
    }
    if pos != text.len() {
        return Some(format!("tokens end at {pos}, text length {}", text.len()));
    }
    let rr = root.text_range();
    if usize::from(rr.start()) != 0 || usize::from(rr.end()) != text.len() {
        return Some(format!("root range {:?} != 0..{}", rr, text.len()));
    }
    None
}

pub fn eval_text(text: &str) -> Outcome {
    match catch(|| {
        let p = syntax::parse_module(text);
        let root = p.syntax_node();
        let l = lossless_error(text, &root);
        let mut shape = 0u64;
        let mut nontrivial = false;
        for el in root.descendants_with_tokens() {
            match el {
                NodeOrToken::Node(n) => shape = mix(shape, n.kind() as u64 + 1000),
                NodeOrToken::Token(t) => {
                    if !t.kind().is_trivia() {
                        nontrivial = true;
                    }
                    shape = mix(shape, t.kind() as u64)
                }
            }
        }
        (l, p.errors().len(), shape, nontrivial)
    }) {
        Ok((l, n, shape, nontrivial)) => Outcome { panic: None, lossless: l, n_errors: n, shape, nontrivial },
        Err(m) => Outcome { panic: Some(m), lossless: None, n_errors: 0, shape: 0, nontrivial: false },
    }
}

struct Acc {
    n: u64,
    with_errors: u64,
    viol: Vec<Violation>,
    outcomes: BTreeSet<u64>,
}

impl Acc {
    fn new() -> Self {
        Acc { n: 0, with_errors: 0, viol: vec![], outcomes: BTreeSet::new() }
    }
    fn merge(mut self, o: Acc) -> Acc {
        self.n += o.n;
        self.with_errors += o.with_errors;
        self.viol.extend(o.viol);
        self.outcomes.extend(o.outcomes);
        self
    }
}

/// Token kinds of a text (for violation keys). The lexer is part of the subject: a panic in it
/// must not take the check down, the key then just says so.
fn lex_kinds(text: &str) -> Vec<SyntaxKind> {
    crate::core::catch(|| syntax::lexer::GleamLexer::new(text).filter(|t| !t.kind.is_trivia()).map(|t| t.kind).collect::<Vec<_>>()).unwrap_or_else(|_| vec![SyntaxKind::ERROR])
}

fn record(which: Which, layer: &str, text: &str, o: &Outcome, acc: &mut Acc, distinct: &DistinctCounter) {
    acc.n += 1;
    if o.n_errors > 0 {
        acc.with_errors += 1;
    }
    if o.nontrivial {
        distinct.insert(o.shape);
    }
    acc.outcomes.insert(if o.panic.is_some() { 999 } else { (o.n_errors.min(20)) as u64 });
    if acc.viol.len() >= 64 {
        return;
    }
    match which {
        Which::C01 => {
            if let Some(l) = &o.lossless {
                acc.viol.push(Violation {
                    class: "lossless".into(),
                    key: format!("{:?}", lex_kinds(text).iter().take(6).collect::<Vec<_>>()),
                    witness: json!({"text": text, "layer": layer}),
                    detail: format!("{l} for input {text:?}"),
                });
            }
        }
        Which::C02 => {
            if let Some(m) = &o.panic {
                acc.viol.push(Violation {
                    class: "panic".into(),
                    key: format!("{} @ {:?}", panic_class(m), lex_kinds(text).iter().take(6).collect::<Vec<_>>()),
                    witness: json!({"text": text, "layer": layer}),
                    detail: format!("parse_module panicked: {m} for input {text:?}"),
                });
            }
        }
    }
}

/// All words of exactly `n` symbols over `alpha`, in the two joining modes.
fn words_layer(
    which: Which,
    name: &str,
    alpha: &[&str],
    n: usize,
    spaced: bool,
    distinct: &DistinctCounter,
) -> (Acc, u64) {
    let k = alpha.len() as u64;
    let total = pow(k, n);
    let chunk = 1u64 << 14;
    let chunks = (total + chunk - 1) / chunk;
    let acc = (0..chunks)
        .into_par_iter()
        .map(|c| {
            let mut acc = Acc::new();
            let mut idx = Vec::with_capacity(n);
            let mut text = String::new();
            for i in c * chunk..((c + 1) * chunk).min(total) {
                decode(i, k, n, &mut idx);
                text.clear();
                for (j, &s) in idx.iter().enumerate() {
                    if spaced && j > 0 {
                        text.push(' ');
                    }
                    text.push_str(alpha[s]);
                }
                let o = eval_text(&text);
                record(which, name, &text, &o, &mut acc, distinct);
            }
            acc
        })
        .reduce(Acc::new, Acc::merge);
    (acc, total)
}

pub fn seed_files() -> Vec<(String, String)> {
    let mut v = vec![];
    let dir = crate::core::verif_root().join("harness/seeds");
    let mut names: Vec<_> = std::fs::read_dir(&dir)
        .map(|d| d.filter_map(|e| e.ok()).map(|e| e.path()).collect())
        .unwrap_or_default();
    names.sort();
    for p in names {
        if p.extension().map_or(false, |e| e == "gleam") {
            if let Ok(s) = std::fs::read_to_string(&p) {
                v.push((format!("seeds/{}", p.file_name().unwrap().to_string_lossy()), s));
            }
        }
    }
    v
}

pub fn corpus_files() -> Vec<(String, String)> {
    let mut v = vec![];
    for sub in ["ok", "err"] {
        let dir = crate::core::repo_root().join("crates/syntax/test_data").join(sub);
        let mut names: Vec<_> = std::fs::read_dir(&dir)
            .map(|d| d.filter_map(|e| e.ok()).map(|e| e.path()).collect())
            .unwrap_or_default();
        names.sort();
        for p in names {
            if p.extension().map_or(false, |e| e == "gleam") {
                if let Ok(s) = std::fs::read_to_string(&p) {
                    v.push((format!("corpus/{sub}/{}", p.file_name().unwrap().to_string_lossy()), s));
                }
            }
        }
    }
    v
}

/// A context: a non-trivia token boundary of a seed, with the ranges of the following tokens.
pub struct Context {
    pub file: usize,
    pub offset: usize,
    /// end offsets of the next 1, 2 tokens (including trivia between them)
    pub next_ends: Vec<usize>,
    pub sig: String,
}

/// Contexts deduplicated by (node-kind path to the token, previous and next token kind).
pub fn contexts(files: &[(String, String)]) -> Vec<Context> {
    let mut seen: BTreeMap<String, Context> = BTreeMap::new();
    for (fi, (_, text)) in files.iter().enumerate() {
        let p = syntax::parse_module(text);
        let root = p.syntax_node();
        let toks: Vec<_> = root
            .descendants_with_tokens()
            .filter_map(|e| e.into_token())
            .filter(|t| !t.kind().is_trivia())
            .collect();
        for (i, t) in toks.iter().enumerate() {
            let path: Vec<String> = t.parent_ancestors().map(|n| format!("{:?}", n.kind())).collect();
            let prev = if i > 0 { format!("{:?}", toks[i - 1].kind()) } else { "BOF".into() };
            let sig = format!("{}|{}|{:?}", path.join("/"), prev, t.kind());
            let offset = usize::from(t.text_range().start());
            let mut next_ends = vec![];
            for j in 0..2 {
                if let Some(nt) = toks.get(i + j) {
                    next_ends.push(usize::from(nt.text_range().end()));
                }
            }
            let ctx = Context { file: fi, offset, next_ends, sig: sig.clone() };
            match seen.get(&sig) {
                Some(old) if files[old.file].1.len() <= text.len() => {}
                _ => {
                    seen.insert(sig, ctx);
                }
            }
        }
        // end-of-file context
        let sig = format!("EOF|{}", fi);
        seen.insert(sig.clone(), Context { file: fi, offset: text.len(), next_ends: vec![], sig });
    }
    seen.into_values().collect()
}

fn context_layer(
    which: Which,
    files: &[(String, String)],
    ctxs: &[Context],
    alpha: &[&str],
    k: usize,
    distinct: &DistinctCounter,
) -> (Acc, u64) {
    // replacement strings: all words of 0..=k symbols (space separated to keep kinds)
    let mut reps: Vec<String> = vec![String::new()];
    let mut frontier = vec![String::new()];
    for _ in 0..k {
        let mut next = vec![];
        for f in &frontier {
            for a in alpha {
                let s = if f.is_empty() { a.to_string() } else { format!("{f} {a}") };
                next.push(s);
            }
        }
        reps.extend(next.iter().cloned());
        frontier = next;
    }
    let total = std::sync::atomic::AtomicU64::new(0);
    let acc = ctxs
        .par_iter()
        .map(|c| {
            let mut acc = Acc::new();
            let src = &files[c.file].1;
            let mut ends = vec![c.offset];
            ends.extend(c.next_ends.iter().take(k).copied());
            let mut text = String::with_capacity(src.len() + 32);
            for &end in &ends {
                for r in &reps {
                    if r.is_empty() && end == c.offset {
                        continue;
                    }
                    text.clear();
                    text.push_str(&src[..c.offset]);
                    if !r.is_empty() {
                        text.push(' ');
                        text.push_str(r);
                        text.push(' ');
                    }
                    text.push_str(&src[end..]);
                    let o = eval_text(&text);
                    record(which, "L2-context", &text, &o, &mut acc, distinct);
                }
            }
            total.fetch_add(acc.n, std::sync::atomic::Ordering::Relaxed);
            acc
        })
        .reduce(Acc::new, Acc::merge);
    let n = acc.n;
    (acc, n)
}

fn prefix_layer(which: Which, files: &[(String, String)], distinct: &DistinctCounter) -> Acc {
    let jobs: Vec<(usize, usize)> = files
        .iter()
        .enumerate()
        .flat_map(|(fi, (_, t))| (0..=t.len()).filter(move |&i| t.is_char_boundary(i)).map(move |i| (fi, i)))
        .collect();
    jobs.par_chunks(256)
        .map(|ch| {
            let mut acc = Acc::new();
            for &(fi, i) in ch {
                let text = &files[fi].1[..i];
                let o = eval_text(text);
                record(which, "P-prefix", text, &o, &mut acc, distinct);
            }
            acc
        })
        .reduce(Acc::new, Acc::merge)
}

pub const NEST: &[(&str, &str, &str, &str)] = &[
    // (name, prefix, unit opener, unit closer)
    ("list", "fn f(){", "[", "]"),
    ("block", "fn f(){", "{", "}"),
    ("tuple", "fn f(){", "#(", ")"),
    ("call", "fn f(){", "f(", ")"),
    ("neg", "fn f(){", "-", ""),
    ("not", "fn f(){", "!", ""),
    ("lambda", "fn f(){", "fn(){", "}"),
    ("case", "fn f(){", "case x{a->", "}"),
    ("binop_right", "fn f(){", "1+(", ")"),
    ("pat_list", "fn f(){let ", "[", "]"),
    ("pat_tuple", "fn f(){let ", "#(", ")"),
    ("pat_ctor", "fn f(){let ", "A(", ")"),
    ("pat_neg", "fn f(){let ", "-", ""),
    ("ty_fn", "fn f(x:", "fn(", ")->a"),
    ("ty_tuple", "fn f(x:", "#(", ")"),
    ("ty_app", "fn f(x:", "A(", ")"),
    ("list_tuple", "fn f(){", "[#(", ")]"),
    ("block_call", "fn f(){", "{f(", ")}"),
    ("const_list", "const c=", "[", "]"),
    ("field_chain", "fn f(){a", ".b", ""),
    ("call_chain", "fn f(){a", "()", ""),
    ("pipe_chain", "fn f(){a", "|>b", ""),
    ("add_chain", "fn f(){a", "+b", ""),
    // a chain of every other binary operator (associativity is per operator)
    ("chain -", "fn f(){a", "- b", ""),
    ("chain *", "fn f(){a", "* b", ""),
    ("chain /", "fn f(){a", "/ b", ""),
    ("chain <", "fn f(){a", "< b", ""),
    ("chain >", "fn f(){a", "> b", ""),
    ("chain <=", "fn f(){a", "<= b", ""),
    ("chain >=", "fn f(){a", ">= b", ""),
    ("chain +.", "fn f(){a", "+. b", ""),
    ("chain -.", "fn f(){a", "-. b", ""),
    ("chain *.", "fn f(){a", "*. b", ""),
    ("chain /.", "fn f(){a", "/. b", ""),
    ("chain %", "fn f(){a", "% b", ""),
    ("chain <.", "fn f(){a", "<. b", ""),
    ("chain >.", "fn f(){a", ">. b", ""),
    ("chain <=.", "fn f(){a", "<=. b", ""),
    ("chain >=.", "fn f(){a", ">=. b", ""),
    ("chain <>", "fn f(){a", "<> b", ""),
    ("chain ==", "fn f(){a", "== b", ""),
    ("chain !=", "fn f(){a", "!= b", ""),
    ("chain ||", "fn f(){a", "|| b", ""),
    ("chain &&", "fn f(){a", "&& b", ""),
];

pub fn nest_input(idx: usize, depth: usize, closed: bool) -> String {
    let (_, pre, open, close) = NEST[idx];
    let mut s = String::with_capacity(pre.len() + depth * (open.len() + close.len()) + 8);
    s.push_str(pre);
    for _ in 0..depth {
        s.push_str(open);
    }
    s.push('1');
    if closed {
        for _ in 0..depth {
            s.push_str(close);
        }
    }
    s
}

/// Worker entry: parse one nesting input; exit code 0 on return, 3 on caught panic.
pub fn worker_nest(idx: usize, depth: usize, closed: bool, small_stack: bool) -> i32 {
    let text = nest_input(idx, depth, closed);
    let run = move || {
        let o = eval_text(&text);
        if o.panic.is_some() {
            3
        } else if o.lossless.is_some() {
            4
        } else {
            0
        }
    };
    if small_stack {
        std::thread::Builder::new().stack_size(2 << 20).spawn(run).unwrap().join().unwrap_or(3)
    } else {
        run()
    }
}

fn run_with_timeout(cmd: &mut std::process::Command, secs: u64) -> Result<std::process::ExitStatus, String> {
    let mut child = cmd.spawn().map_err(|e| format!("spawn error {e}"))?;
    let start = std::time::Instant::now();
    loop {
        match child.try_wait() {
            Ok(Some(st)) => return Ok(st),
            Ok(None) => {
                if start.elapsed().as_secs() >= secs {
                    let _ = child.kill();
                    let _ = child.wait();
                    return Err("timeout".into());
                }
                std::thread::sleep(std::time::Duration::from_millis(2));
            }
            Err(e) => return Err(format!("wait error {e}")),
        }
    }
}

fn nest_layer(rep: &mut Report, which: Which, tier: Tier) {
    let exe = std::env::current_exe().unwrap();
    let max_pow = tier.pick(15u32, 20u32);
    let budget = tier.pick(20u64, 120u64);
    // (construct, closed, small stack): the 2 MiB thread is what the server's blocking pool uses,
    // the main stack is what the CLI uses.
    let jobs: Vec<(usize, bool, bool)> = (0..NEST.len())
        .flat_map(|i| {
            let mut v = vec![(i, true, true), (i, false, true)];
            if tier == Tier::Thorough {
                v.push((i, true, false));
            }
            v
        })
        .collect();
    let results: Vec<(usize, bool, bool, Option<(usize, String)>, u64, Option<usize>)> = jobs
        .par_iter()
        .map(|&(i, closed, small)| {
            let mut runs = 0;
            let mut first_fail = None;
            let mut capped_at = None;
            let mut d = 1usize;
            while d <= (1usize << max_pow) {
                let mut cmd = std::process::Command::new(&exe);
                cmd.args(["worker", "nest", &i.to_string(), &d.to_string(), &(closed as u8).to_string(), &(small as u8).to_string()])
                    .stdout(std::process::Stdio::null())
                    .stderr(std::process::Stdio::null());
                match run_with_timeout(&mut cmd, budget) {
                    Ok(st) if st.success() => runs += 1,
                    Ok(st) => {
                        runs += 1;
                        use std::os::unix::process::ExitStatusExt;
                        let how = match (st.code(), st.signal()) {
                            (Some(3), _) => "panic".to_string(),
                            (Some(4), _) => "lossless".to_string(),
                            (Some(c), _) => format!("exit {c}"),
                            (None, Some(s)) => format!("signal {s}"),
                            _ => "unknown".into(),
                        };
                        first_fail = Some((d, how));
                        break;
                    }
                    Err(e) if e == "timeout" => {
                        // A time cap is never a verdict.
                        capped_at = Some(d);
                        break;
                    }
                    Err(e) => {
                        first_fail = Some((d, e));
                        break;
                    }
                }
                d *= 2;
            }
            (i, closed, small, first_fail, runs, capped_at)
        })
        .collect();
    let mut l = Layer { name: "D-nesting".into(), exhaustive: true, ..Default::default() };
    l.bound = format!("{} constructs x {{closed,unclosed}} x stack kinds x depth 1,2,4..2^{} (per-run budget {budget}s)", NEST.len(), max_pow);
    let mut table = vec![];
    for (i, closed, small, ff, runs, capped) in results {
        l.states += runs;
        l.transitions += runs;
        l.executions += runs;
        if let Some(d) = capped {
            l.exhaustive = false;
            rep.caps.push(json!({"layer": "D-nesting", "construct": NEST[i].0, "cap": format!("time budget {budget}s hit at depth {d}"), "completed": format!("all depths below {d}")}));
        }
        table.push(json!({"construct": NEST[i].0, "closed": closed, "small_stack": small,
            "first_failing_depth": ff.as_ref().map(|f| f.0), "how": ff.as_ref().map(|f| f.1.clone())}));
        if let Some((d, how)) = ff {
            if how.starts_with("spawn") || how.starts_with("wait") {
                rep.machinery(format!("nest worker: {how}"));
                continue;
            }
            let is_c01 = how == "lossless";
            if (which == Which::C01) == is_c01 {
                let mech = if how.starts_with("signal") { "stack-overflow" } else if how == "panic" { "progress-guard-panic" } else { how.as_str() };
                rep.violation(Violation {
                    class: if is_c01 { "lossless-deep".into() } else { "deep-nesting".into() },
                    key: format!("{}|{}|{}", NEST[i].0, mech, if d < 64 { "shallow(<64)" } else { "deep(>=64)" }),
                    witness: json!({"nest": NEST[i].0, "idx": i, "depth": d, "closed": closed, "small_stack": small}),
                    detail: format!("nesting {} depth {} (closed={closed}, 2MiB stack={small}): worker ended with {how}", NEST[i].0, d),
                });
            }
        }
    }
    l.extra.insert("table".into(), json!(table));
    rep.layer(l);
}

pub fn run(which: Which, tier: Tier) -> i32 {
    let prop = if which == Which::C01 { "C01" } else { "C02" };
    let mut rep = Report::new(prop, tier);
    let distinct = DistinctCounter::new(tier.pick(28, 32));
    let outcomes = Mutex::new(BTreeSet::new());
    let mut add = |rep: &mut Report, name: &str, bound: String, acc: Acc, states: u64, exhaustive: bool| {
        let mut l = Layer { name: name.into(), states, transitions: acc.n, executions: acc.n, exhaustive, bound, ..Default::default() };
        l.extra.insert("inputs_with_syntax_errors".into(), json!(acc.with_errors));
        outcomes.lock().unwrap().extend(acc.outcomes.iter().copied());
        for v in acc.viol {
            rep.violation(v);
        }
        rep.layer(l);
    };

    // L0: character level
    let lc = tier.pick(4usize, 5usize);
    for n in 0..=lc {
        let (acc, total) = words_layer(which, "L0-chars", alphabet::CHARS, n, false, &distinct);
        add(&mut rep, &format!("L0-chars-len{n}"), format!("all strings of exactly {n} symbols over the {}-character alphabet", alphabet::CHARS.len()), acc, total, true);
    }
    // L1: token level
    let sigma = alphabet::sigma();
    let n1 = tier.pick(3usize, 4usize);
    for n in 1..=n1 {
        for spaced in [false, true] {
            if n == 1 && spaced {
                continue;
            }
            let (acc, total) = words_layer(which, "L1-tokens", &sigma, n, spaced, &distinct);
            add(&mut rep, &format!("L1-tokens-len{n}-{}", if spaced { "spaced" } else { "raw" }),
                format!("all sequences of exactly {n} symbols over the {}-symbol token alphabet", sigma.len()), acc, total, true);
        }
    }
    if tier == Tier::Thorough {
        let sr = alphabet::sigma_reduced();
        let (acc, total) = words_layer(which, "L1r-tokens", &sr, 5, true, &distinct);
        add(&mut rep, "L1r-tokens-len5-spaced", format!("all sequences of exactly 5 symbols over the reduced {}-symbol alphabet (capped layer: reduced alphabet)", sr.len()), acc, total, true);
        rep.caps.push(json!({"layer": "L1r", "cap": "reduced alphabet", "completed": "all 5-symbol words over the reduced alphabet"}));
    }
    // K: keyword soup
    let mut soup: Vec<&str> = alphabet::KEYWORDS.to_vec();
    soup.extend_from_slice(&["(", ")", "[", "]", "{", "}", "<<", ">>", ",", "a", "A", "=", "->", "."]);
    let nk = tier.pick(4usize, 5usize);
    let (acc, total) = words_layer(which, "K-soup", &soup, nk, true, &distinct);
    add(&mut rep, &format!("K-soup-len{nk}"), format!("all sequences of exactly {nk} symbols over keywords+delimiters ({} symbols)", soup.len()), acc, total, true);

    // L2: context level
    let mut files = seed_files();
    rep.guard(files.len() >= 3, "seed files present");
    let corpus = corpus_files();
    rep.guard(!corpus.is_empty(), "repository corpus files present");
    for (n, t) in &corpus {
        if t.len() < 4000 {
            files.push((n.clone(), t.clone()));
        }
    }
    let ctxs = contexts(&files);
    rep.guard(ctxs.len() > 100, "more than 100 distinct parser contexts");
    let k2 = tier.pick(1usize, 2usize);
    let (acc, n) = context_layer(which, &files, &ctxs, &sigma, k2, &distinct);
    rep.sample(json!({"layer": "L2", "context_signature": ctxs[ctxs.len() / 2].sig}));
    add(&mut rep, "L2-context", format!("{} distinct contexts (node path x prev/next token kind) x all insertions / replacements of next 1..{k2} tokens / deletions by <= {k2} symbols of the full alphabet", ctxs.len()), acc, ctxs.len() as u64, true);
    let _ = n;

    // P: prefixes
    let mut pf = seed_files();
    pf.extend(corpus.iter().filter(|(_, t)| tier == Tier::Thorough || t.len() < 4000).cloned());
    let acc = prefix_layer(which, &pf, &distinct);
    let st = acc.n;
    add(&mut rep, "P-prefixes", format!("every prefix (at character boundaries) of {} seed/corpus files", pf.len()), acc, st, true);

    // D: nesting ladder (worker processes)
    nest_layer(&mut rep, which, tier);

    rep.distinct_nontrivial = distinct.count();
    rep.distinct_outcomes = outcomes.lock().unwrap().len() as u64;
    rep.rule = "inputs enumerated exhaustively per layer; distinct_nontrivial = number of distinct syntax-tree shapes (hash of the pre-order kind sequence, bitmap lower bound) among inputs with at least one non-trivia token; outcomes = distinct syntax-error counts / panic".into();
    rep.sample(json!({"layer": "L1", "text": "fn a ( \"", "note": "token-alphabet word"}));
    rep.sample(json!({"layer": "L0", "text": "\"\\\r😀"}));
    rep.assumptions = vec![
        "rowan's tree API reports token ranges and texts faithfully".into(),
        "control flow after lexing depends only on token kinds (parser reads kinds only)".into(),
    ];
    rep.guard(rep.distinct_nontrivial > 1000, "more than 1000 distinct tree shapes");
    rep.guard(rep.distinct_outcomes >= 3, "at least 3 distinct outcomes (error counts)");
    rep.finish()
}

pub fn replay(which: Which, w: &serde_json::Value) -> Vec<String> {
    let mut out = vec![];
    if let Some(text) = w["text"].as_str() {
        let o = eval_text(text);
        match which {
            Which::C01 => out.extend(o.lossless),
            Which::C02 => out.extend(o.panic),
        }
    } else if let Some(idx) = w["idx"].as_u64() {
        let exe = std::env::current_exe().unwrap();
        let st = std::process::Command::new(exe)
            .args(["worker", "nest", &idx.to_string(), &w["depth"].as_u64().unwrap_or(1).to_string(),
                &(w["closed"].as_bool().unwrap_or(true) as u8).to_string(), &(w["small_stack"].as_bool().unwrap_or(true) as u8).to_string()])
            .status();
        match st {
            Ok(s) if s.success() => {}
            Ok(s) => out.push(format!("worker ended with {s}")),
            Err(e) => out.push(format!("spawn error {e}")),
        }
    }
    out
}
