//! C19 — the semantic-token stream decodes to exactly the highlighted identifiers.
//! (1) encoder: all small documents x all highlight lists through the real
//! `convert::to_semantic_tokens`, decoded by the reference client;
//! (2) end to end: the real `textDocument/semanticTokens/full` answer of the real router for
//! programs with non-ASCII text before identifiers, against the classification given by
//! go-to-definition / hover.
use crate::core::alphabet::{decode, pow};
use crate::core::{catch, panic_class, Layer, Report, Tier, Violation};
use crate::lsp::client::{decode_tokens, AbsToken, RefDoc};
use crate::lsp::inproc::InProc;
use crate::props::positions::line_map_of;
use glas::verif as gv;
use ide::{FilePos, GotoDefinitionResult, HlRange, HlTag};
use rayon::prelude::*;
use serde_json::{json, Value};
use std::collections::BTreeSet;
use std::sync::atomic::{AtomicU64, Ordering};
use syntax::{SyntaxKind, TextRange};

const SYMS: &[&str] = &["a", " ", "\n", "é", "😀"];

fn runs_of_a(t: &str) -> Vec<(usize, usize)> {
    let b = t.as_bytes();
    let mut out = vec![];
    let mut i = 0;
    while i < b.len() {
        if b[i] == b'a' {
            let s = i;
            while i < b.len() && b[i] == b'a' {
                i += 1;
            }
            out.push((s, i));
        } else {
            i += 1;
        }
    }
    out
}

fn expected(doc: &RefDoc, hls: &[(usize, usize, HlTag)]) -> Vec<AbsToken> {
    hls.iter()
        .map(|&(s, e, tag)| {
            let (line, start) = doc.pos_of(s);
            let len: usize = doc.text[s..e].chars().map(|c| c.len_utf16()).sum();
            AbsToken { line, start, len: len as u32, ty: gv::semantic_token_type_index(tag) }
        })
        .collect()
}

fn encode_and_check(text: &str, hls: &[(usize, usize, HlTag)]) -> Option<(String, String)> {
    let r = catch(|| {
        let (_, lm) = line_map_of(text);
        let h: Vec<HlRange> = hls.iter().map(|&(s, e, tag)| HlRange { range: TextRange::new((s as u32).into(), (e as u32).into()), tag }).collect();
        gv::to_semantic_tokens(&lm, &h)
    });
    let toks = match r {
        Ok(t) => t,
        Err(m) => return Some(("encoder-panic".into(), format!("to_semantic_tokens panicked ({}) for {text:?} with {hls:?}", panic_class(&m)))),
    };
    let data: Vec<(u32, u32, u32, u32)> = toks.iter().map(|t| (t.delta_line, t.delta_start, t.length, t.token_type)).collect();
    let Some(dec) = decode_tokens(&data) else { return Some(("decode-overflow".into(), format!("relative encoding overflows for {text:?}"))) };
    let doc = RefDoc::new(text);
    let want = expected(&doc, hls);
    if dec != want {
        return Some(("stream-mismatch".into(), format!("document {text:?}, highlights {hls:?}: stream decodes to {dec:?}, expected {want:?}")));
    }
    for w in dec.windows(2) {
        if !(w[0].line < w[1].line || (w[0].line == w[1].line && w[0].start + w[0].len <= w[1].start)) {
            return Some(("not-increasing".into(), format!("decoded tokens not strictly increasing for {text:?}: {dec:?}")));
        }
    }
    for t in &dec {
        let lines = doc.lines();
        let Some(&(ls, le)) = lines.get(t.line as usize) else { return Some(("outside-line".into(), format!("token on line {} beyond the document {text:?}", t.line))) };
        let line_len: usize = doc.text[ls..le].chars().map(|c| c.len_utf16()).sum();
        if t.len == 0 || (t.start + t.len) as usize > line_len {
            return Some(("outside-line".into(), format!("token {t:?} not inside its line in {text:?}")));
        }
    }
    None
}

fn encoder_layer(rep: &mut Report, tier: Tier) {
    let l = tier.pick(7usize, 8usize);
    let k = SYMS.len() as u64;
    let tags = [HlTag::Function, HlTag::Module, HlTag::Constructor];
    let lists = AtomicU64::new(0);
    let nontrivial = AtomicU64::new(0);
    for n in 0..=l {
        let total = pow(k, n);
        let chunk = 256u64;
        let res: Vec<Vec<Violation>> = (0..(total + chunk - 1) / chunk)
            .into_par_iter()
            .map(|c| {
                let mut viol = vec![];
                let mut idx = vec![];
                for i in c * chunk..((c + 1) * chunk).min(total) {
                    decode(i, k, n, &mut idx);
                    let text: String = idx.iter().map(|&s| SYMS[s]).collect();
                    let runs = runs_of_a(&text);
                    if runs.len() > 1 && !text.is_ascii() {
                        nontrivial.fetch_add(1, Ordering::Relaxed);
                    }
                    for mask in 0u32..(1 << runs.len()) {
                        for mode in 0..4 {
                            if mask == 0 && mode > 0 {
                                continue;
                            }
                            let mut hls = vec![];
                            for (ri, r) in runs.iter().enumerate() {
                                if mask & (1 << ri) != 0 {
                                    let tag = if mode < 3 { tags[mode] } else { tags[ri % 3] };
                                    hls.push((r.0, r.1, tag));
                                }
                            }
                            lists.fetch_add(1, Ordering::Relaxed);
                            if let Some((class, detail)) = encode_and_check(&text, &hls) {
                                if viol.len() < 8 {
                                    viol.push(Violation { class: class.clone(), key: class, witness: json!({"text": text, "highlights": hls.iter().map(|h| json!([h.0, h.1, format!("{:?}", h.2)])).collect::<Vec<_>>()}), detail });
                                }
                            }
                        }
                    }
                }
                viol
            })
            .collect();
        for v in res.into_iter().flatten() {
            rep.violation(v);
        }
        rep.layer(Layer {
            name: format!("encoder-docs-len{n}"),
            states: total,
            transitions: lists.load(Ordering::Relaxed),
            executions: lists.load(Ordering::Relaxed),
            exhaustive: true,
            bound: format!("all documents of exactly {n} symbols over {{a, space, LF, 2-byte, 4-byte}} x all subsets of the maximal runs of 'a' as highlight list x 4 tag assignments (cumulative list count shown)"),
            ..Default::default()
        });
    }
    rep.distinct_nontrivial += nontrivial.load(Ordering::Relaxed);
}

const E2E: &[(&str, &str)] = &[
    (
        "main",
        "import helper\nimport helper.{type Box, Box, make}\n\npub type Shape { Circle(r: Int) Square }\n\n/// é😀 doc\npub fn area(s: Shape) -> Int { let f = fn(x) { x } /* no */ let g = helper.twice case s { Circle(r) -> \"é😀€\" |> len |> f Square -> g(make(1)) } }\n\nfn len(t: String) { let b: Box = Box(1) let \"€😀\" <> rest = t helper.size(b) }\n",
    ),
    ("helper", "pub type Box { Box(v: Int) }\npub fn make(v) { Box(v) }\npub fn twice(x) { x * 2 }\npub fn size(b: Box) { b.v }\n"),
];

fn e2e_layer(rep: &mut Report) {
    let b = |n: &str| std::fs::read_to_string(crate::core::verif_root().join("harness/bases").join(n)).unwrap_or_default();
    let projects: Vec<(&str, Vec<(String, String)>)> = vec![
        ("proj", E2E.iter().map(|(m, t)| (m.to_string(), t.to_string())).collect()),
        ("w1", vec![("main".into(), b("w1_main.gleam")), ("shapes".into(), b("w1_shapes.gleam")), ("util/helpers".into(), b("w1_helpers.gleam"))]),
        ("w2", vec![("rec".into(), b("w2_rec.gleam"))]),
    ];
    let mut n_tokens = 0u64;
    let mut n_runs = 0u64;
    let mut classes: BTreeSet<String> = BTreeSet::new();
    for (pname, mods) in &projects {
        e2e_project(rep, pname, mods, &mut n_tokens, &mut n_runs, &mut classes);
    }
    rep.layer(Layer {
        name: "end-to-end".into(),
        states: n_runs,
        transitions: n_tokens,
        executions: n_runs,
        exhaustive: false,
        bound: format!("{} projects (a program with non-ASCII strings/comments before identifiers on the same line, and the base workspaces) x 3 line layouts of the main module, through the real router (didOpen + semanticTokens/full), decoded by the reference client and compared with the go-to-definition/hover classification of EVERY identifier; plus semanticTokens/range from every line start to every token boundary / line end after it (tokens of the full stream inside the range must be there, nothing else may)", projects.len()),
        ..Default::default()
    });
    rep.distinct_outcomes = classes.len() as u64 + 1;
}

fn e2e_project(rep: &mut Report, pname: &str, mods: &[(String, String)], n_tokens_out: &mut u64, n_runs: &mut u64, classes_out: &mut BTreeSet<String>) {
    let base = crate::core::verif_root().join(".scratch/c19").join(pname);
    let _ = std::fs::remove_dir_all(&base);
    for (m, t) in mods {
        let p = base.join(format!("src/{m}.gleam"));
        let _ = std::fs::create_dir_all(p.parent().unwrap());
        let _ = std::fs::write(p, t);
    }
    let _ = std::fs::write(base.join("gleam.toml"), format!("name = \"{pname}\"\n"));
    let main_mod = &mods[0].0;
    let main_text = &mods[0].1;
    let mut n_tokens = 0u64;
    let mut classes: BTreeSet<String> = BTreeSet::new();
    for layout in 0..3 {
        *n_runs += 1;
        let text: String = match layout {
            0 => main_text.to_string(),
            1 => main_text.replace(" { ", " {\n  ").replace(" } ", "\n}\n"),
            _ => main_text.replace(' ', "\n"),
        };
        let uri = format!("file://{}", base.join(format!("src/{main_mod}.gleam")).display());
        let mut srv = InProc::new();
        let _ = srv.open(&uri, &text);
        let resp = srv.request("textDocument/semanticTokens/full", json!({"textDocument": {"uri": uri}}));
        let data: Vec<u32> = match resp {
            Ok(Ok(v)) => v["data"].as_array().map(|a| a.iter().filter_map(|x| x.as_u64()).map(|x| x as u32).collect()).unwrap_or_default(),
            other => {
                rep.violation(Violation { class: "e2e-no-answer".into(), key: "semanticTokens".into(), witness: json!({"project": pname, "layout": layout}), detail: format!("semanticTokens/full failed: {other:?}") });
                continue;
            }
        };
        let quads: Vec<(u32, u32, u32, u32)> = data.chunks(5).filter(|c| c.len() == 5).map(|c| (c[0], c[1], c[2], c[3])).collect();
        let Some(dec) = decode_tokens(&quads) else {
            rep.violation(Violation { class: "decode-overflow".into(), key: "e2e".into(), witness: json!({"layout": layout}), detail: "relative encoding overflows".into() });
            continue;
        };
        // classification by the analysis itself (go-to-definition target kind / hover type)
        let mut wfiles = vec![crate::ana::ws::WsFile { rel: format!("src/{main_mod}.gleam"), text: text.clone() }];
        for (m, t) in mods.iter().skip(1) {
            wfiles.push(crate::ana::ws::WsFile { rel: format!("src/{m}.gleam"), text: t.clone() });
        }
        let ws = crate::ana::ws::Workspace { packages: vec![crate::ana::ws::WsPackage { name: pname.to_string(), files: wfiles, deps: vec![], is_local: true }] };
        let files = ws.files();
        let host = ws.host();
        let an = host.snapshot();
        let doc = RefDoc::new(text.clone());
        let legend = gv::semantic_token_legend();
        let idx_of = |name: &str| legend.iter().position(|l| l == name).unwrap_or(99) as u32;
        let parse = syntax::parse_module(&text);
        let mut want: Vec<AbsToken> = vec![];
        let mut allowed: Vec<AbsToken> = vec![];
        for t in parse.syntax_node().descendants_with_tokens().filter_map(|e| e.into_token()) {
            if !matches!(t.kind(), SyntaxKind::IDENT | SyntaxKind::U_IDENT) {
                continue;
            }
            let pk = t.parent().map(|p| p.kind());
            if !matches!(pk, Some(SyntaxKind::NAME_REF) | Some(SyntaxKind::NAME)) {
                continue;
            }
            // declarations are only tagged for constructors (variants); uses by what they resolve to
            let s = u32::from(t.text_range().start());
            let g = an.goto_definition(FilePos::new(files[0].id, s.into())).ok().flatten();
            let Some(GotoDefinitionResult::Targets(ts)) = g else { continue };
            let tgt = &ts[0];
            let tfile = files.iter().find(|f| f.id == tgt.file_id).unwrap();
            let tparse = syntax::parse_module(&tfile.text);
            let node_with = |range: TextRange, kind: SyntaxKind| tparse.syntax_node().descendants().any(|n| n.kind() == kind && n.text_range() == range);
            let tkind = if node_with(tgt.full_range, SyntaxKind::VARIANT) && tgt.focus_range == tgt.full_range {
                SyntaxKind::VARIANT
            } else if node_with(tgt.full_range, SyntaxKind::FUNCTION) {
                SyntaxKind::FUNCTION
            } else {
                SyntaxKind::ERROR
            };
            let is_use = pk == Some(SyntaxKind::NAME_REF);
            let hover = an.hover(FilePos::new(files[0].id, s.into())).ok().flatten().map(|h| h.markup).unwrap_or_default();
            let ty = if tgt.full_range.is_empty() && tgt.focus_range.is_empty() {
                Some(idx_of("namespace"))
            } else if tkind == SyntaxKind::FUNCTION && is_use {
                Some(idx_of("function"))
            } else if tkind == SyntaxKind::VARIANT {
                Some(idx_of("type"))
            } else if is_use && hover.contains("fn(") && !matches!(tkind, SyntaxKind::FUNCTION | SyntaxKind::VARIANT) {
                Some(idx_of("function"))
            } else {
                None
            };
            if let Some(ty) = ty {
                let (line, start) = doc.pos_of(s as usize);
                let tok = AbsToken { line, start, len: t.text().encode_utf16().count() as u32, ty };
                // uses must be in the stream; declarations and import items may be
                if is_use {
                    want.push(tok.clone());
                }
                allowed.push(tok);
                classes.insert(format!("{}", ty));
            }
        }
        want.sort();
        n_tokens += want.len() as u64;
        let got: BTreeSet<AbsToken> = dec.iter().cloned().collect();
        let wants: BTreeSet<AbsToken> = want.iter().cloned().collect();
        let name_at = |t: &AbsToken| -> String {
            doc.offset_of(t.line, t.start).and_then(|o| doc.text[o..].split(|c: char| !(c.is_alphanumeric() || c == '_')).next().map(|s| s.to_string())).unwrap_or_default()
        };
        for m in wants.difference(&got) {
            let kind = legend.get(m.ty as usize).cloned().unwrap_or_default();
            rep.violation(Violation { class: "e2e-missing-token".into(), key: format!("{kind}"), witness: json!({"layout": layout, "token": [m.line, m.start, m.len, m.ty]}), detail: format!("{pname} layout {layout}: identifier {:?} at {}:{} should be tagged {kind} but is absent from the stream", name_at(m), m.line, m.start) });
        }
        let alloweds: BTreeSet<AbsToken> = allowed.iter().cloned().collect();
        for m in got.difference(&alloweds) {
            let kind = legend.get(m.ty as usize).cloned().unwrap_or_default();
            rep.violation(Violation { class: "e2e-unexpected-token".into(), key: format!("{kind}"), witness: json!({"layout": layout, "token": [m.line, m.start, m.len, m.ty]}), detail: format!("{pname} layout {layout}: stream has a {kind} token at {}:{} len {} ({:?}) that is not a function/constructor/module identifier", m.line, m.start, m.len, name_at(m)) });
        }
        for w in dec.windows(2) {
            if !(w[0] < w[1]) {
                rep.violation(Violation { class: "not-increasing".into(), key: "e2e".into(), witness: json!({"layout": layout}), detail: format!("tokens not strictly increasing: {:?} then {:?}", w[0], w[1]) });
            }
        }
        // range requests: from every line start to every token boundary / line end after it.
        // The answer must consist of tokens of the full stream and contain every one of them
        // that lies entirely inside the range (tokens cut by an end of the range may go either way).
        if layout == 0 {
            let mut ends: BTreeSet<(u32, u32)> = BTreeSet::new();
            for t in &dec {
                ends.insert((t.line, t.start));
                ends.insert((t.line, t.start + t.len));
            }
            let n_lines = text.matches('\n').count() as u32 + 1;
            for l in 0..n_lines {
                if let Some(o) = doc.offset_of(l, 0) {
                    let line_len = text[o..].split('\n').next().unwrap_or("").encode_utf16().count() as u32;
                    ends.insert((l, line_len));
                }
            }
            let mut bad = 0;
            for sl in 0..n_lines {
                for &(el, ec) in ends.iter().filter(|e| **e > (sl, 0)) {
                    *n_runs += 1;
                    let resp = srv.request("textDocument/semanticTokens/range", json!({"textDocument": {"uri": uri}, "range": {"start": {"line": sl, "character": 0}, "end": {"line": el, "character": ec}}}));
                    let data: Vec<u32> = match resp {
                        Ok(Ok(v)) => v["data"].as_array().map(|a| a.iter().filter_map(|x| x.as_u64()).map(|x| x as u32).collect()).unwrap_or_default(),
                        other => {
                            rep.violation(Violation { class: "e2e-no-answer".into(), key: "semanticTokens/range".into(), witness: json!({"project": pname, "range": [sl, 0, el, ec]}), detail: format!("semanticTokens/range {sl}:0-{el}:{ec} failed: {other:?}") });
                            continue;
                        }
                    };
                    let quads: Vec<(u32, u32, u32, u32)> = data.chunks(5).filter(|c| c.len() == 5).map(|c| (c[0], c[1], c[2], c[3])).collect();
                    let Some(rdec) = decode_tokens(&quads) else {
                        rep.violation(Violation { class: "decode-overflow".into(), key: "range".into(), witness: json!({"range": [sl, 0, el, ec]}), detail: "relative encoding of a range answer overflows".into() });
                        continue;
                    };
                    n_tokens += rdec.len() as u64;
                    let rgot: BTreeSet<AbsToken> = rdec.iter().cloned().collect();
                    let inside: BTreeSet<AbsToken> = dec.iter().filter(|t| (t.line, t.start) >= (sl, 0) && (t.line, t.start + t.len) <= (el, ec)).cloned().collect();
                    if bad < 3 {
                        if let Some(m) = inside.difference(&rgot).next() {
                            bad += 1;
                            rep.violation(Violation { class: "range-missing-token".into(), key: if (m.line, m.start + m.len) == (el, ec) { "token ending at the range end".into() } else if (m.line, m.start) == (sl, 0) { "token starting at the range start".into() } else { "token inside the range".into() }, witness: json!({"project": pname, "range": [sl, 0, el, ec], "token": [m.line, m.start, m.len, m.ty]}), detail: format!("{pname}: semanticTokens/range {sl}:0-{el}:{ec} lacks the token {:?} at {}:{} len {}, which lies inside the range and is in the full stream", name_at(m), m.line, m.start, m.len) });
                        }
                        if let Some(m) = rgot.difference(&got).next() {
                            bad += 1;
                            rep.violation(Violation { class: "range-foreign-token".into(), key: "range".into(), witness: json!({"project": pname, "range": [sl, 0, el, ec], "token": [m.line, m.start, m.len, m.ty]}), detail: format!("{pname}: semanticTokens/range {sl}:0-{el}:{ec} contains a token at {}:{} len {} that the full stream does not have", m.line, m.start, m.len) });
                        }
                    }
                }
            }
        }
    }
    *n_tokens_out += n_tokens;
    classes_out.extend(classes);
}

/// Programs whose identifier roles are known by construction from Gleam's scoping rules.
/// Marked identifiers: `«n:x»` module (must be tagged namespace), `«f:x»` function, `«t:X»`
/// constructor, `«?:x»` may carry any tag or none (declarations, import items, names inside type
/// annotations, members after `module.`); every other identifier is a local, a label, a keyword
/// or a type and must carry no token.
fn role_programs() -> Vec<(String, String)> {
    let mut out = vec![];
    for l in ["m", "q"] {
        let binders: Vec<(&str, String)> = vec![
            ("parameter", format!("pub fn «?:user»({l}: «?:m».«?:R») {{ {{S}}{{USE}} }}")),
            ("let", format!("pub fn «?:user»() {{ {{S}}let {l} = «n:m».«?:R»(1) {{USE}} }}")),
            ("case clause", format!("pub fn «?:user»() {{ {{S}}case «n:m».«?:R»(1) {{ {l} -> {{USE}} }} }}")),
            ("lambda parameter", format!("pub fn «?:user»() {{ {{S}}let g = fn({l}: «?:m».«?:R») {{ {{USE}} }} «f:g» }}")),
            ("use binder", format!("pub fn «?:user»() {{ {{S}}use {l} <- «n:m».«?:with» {{USE}} }}")),
            ("use binder, callee with arguments", format!("pub fn «?:user»() {{ {{S}}use {l} <- «n:m».«?:with2»(«f:num», «f:num»(1)) {{USE}} }}")),
        ];
        let mut uses: Vec<(&str, String)> = vec![
            ("field access", format!("{l}.fld")),
            ("alone", format!("{l}")),
            ("two field accesses", format!("{l}.fld + {l}.fld")),
            ("argument of a local function", format!("«f:own»({l})")),
            ("field access as argument", format!("«f:num»({l}.fld)")),
        ];
        if l != "m" {
            uses.push(("argument of a module function", format!("«n:m».«?:show»({l})")));
            uses.push(("next to a module constant", format!("{l}.fld + «n:m».«?:c»")));
        }
        for (bn, b) in &binders {
            for (un, u) in &uses {
                for (sn, st) in [("plain", ""), ("after a multi-byte string", "\"é€😀\" ")] {
                    let f = b.replace("{S}", st).replace("{USE}", u);
                    let text = format!("import «?:m»\n/// é😀\n{f}\nfn «?:own»(r: «?:m».«?:R») {{ r.fld }}\nfn «?:num»(n: Int) {{ n }}\n");
                    out.push((format!("local `{l}`|{bn}|{un}|{sn}"), text));
                }
            }
        }
    }
    // a `use` binder spelled like a name used in its own callee: the callee is outside the binder's scope
    for (sn, st) in [("plain", ""), ("after a multi-byte string", "\"→ é😀\" ")] {
        let tail = "\nfn «?:own»(r: «?:m».«?:R») { r.fld }\nfn «?:num»(n: Int) { n }\n";
        // function-typed parameter passed to the callee, binder of the same spelling is a record
        out.push((format!("binder reuses a function-typed parameter|use binder|argument of the callee|{sn}"), format!("import «?:m»\npub fn «?:user»(h: fn(Int) -> Int) {{ {st}use h <- «n:m».«?:with2»(«f:h», 1) h.fld }}{tail}")));
        // top-level function called in the callee, binder of the same spelling is a record
        out.push((format!("binder reuses a top-level function|use binder|call inside the callee|{sn}"), format!("import «?:m»\npub fn «?:user»() {{ {st}use num <- «n:m».«?:with2»(«f:num», «f:num»(2)) num.fld }}{tail}")));
        // the other way round: the binder is function-typed, the callee uses a record parameter of that spelling
        out.push((format!("function-typed binder reuses a record parameter|use binder|argument of the callee|{sn}"), format!("import «?:m»\npub fn «?:user»(k: «?:m».«?:R») {{ {st}use k <- «n:m».«?:give»(k.fld) «f:k»(1) }}{tail}")));
    }
    // function-typed locals whose annotation is an alias of a function type (declared here, in the
    // imported module, generic): their uses are function identifiers like any other
    for (sn, st) in [("plain", ""), ("after a multi-byte string", "\"→ é😀\" ")] {
        let tail = "\nfn «?:apply1»(f: fn(Int) -> Int) { «f:f»(2) }\nfn «?:num»(n: Int) { n }\n";
        for (an, ann, decl) in [
            ("alias declared in the module", "Cb", "type Cb = fn(Int) -> Int\n"),
            ("alias of the imported module", "«?:m».Handler", ""),
            ("generic alias of the imported module", "«?:m».Gen(Int)", ""),
            ("generic alias declared in the module", "Fun(Int)", "type Fun(a) = fn(a) -> a\n"),
        ] {
            out.push((format!("function-typed local|parameter annotated with an {an}|called and passed on|{sn}"), format!("import «?:m»\n{decl}pub fn «?:user»(cb: {ann}) {{ {st}«f:cb»(1) + «f:apply1»(«f:cb») }}{tail}")));
            out.push((format!("function-typed local|lambda parameter annotated with an {an}|called|{sn}"), format!("import «?:m»\n{decl}pub fn «?:user»() {{ {st}let g = fn(cb: {ann}) {{ «f:cb»(1) }} «f:g» }}{tail}")));
            out.push((format!("function-typed local|let annotated with an {an}|called and passed on|{sn}"), format!("import «?:m»\n{decl}pub fn «?:user»() {{ {st}let cb: {ann} = «f:num» «f:cb»(1) + «f:apply1»(«f:cb») }}{tail}")));
        }
    }
    // constructors spelled like the built-in ones (a module may declare them): declared here, or imported unqualified
    for (sn, st) in [("plain", ""), ("after a multi-byte string", "\"→ é😀\" ")] {
        out.push((format!("constructors spelled like built-ins|declared in the module|expression and pattern|{sn}"), format!("pub type Outcome {{ «t:Ok»(Int) «t:False» }}\n/// é😀\npub fn «?:user»() {{ {st}case «t:Ok»(1) {{ «t:Ok»(n) -> «t:False» «t:False» -> «t:Ok»(2) }} }}\n")));
        out.push((format!("constructors spelled like built-ins|imported unqualified|expression and pattern|{sn}"), format!("import «?:m».{{«?:Error», «?:Nil»}}\n/// é😀\npub fn «?:user»() {{ {st}case «t:Error»(1) {{ «t:Error»(n) -> «t:Nil» «t:Nil» -> «t:Error»(2) }} }}\n")));
        out.push((format!("constructors with ordinary names|imported unqualified|expression and pattern|{sn}"), format!("import «?:m».{{«?:Failed», «?:Empty»}}\n/// é😀\npub fn «?:user»() {{ {st}case «t:Failed»(1) {{ «t:Failed»(n) -> «t:Empty» «t:Empty» -> «t:Failed»(2) }} }}\n")));
    }
    out
}

const ROLE_M: &str = "pub type R { R(fld: Int) }\npub const c = 1\npub fn show(r: R) -> Int { r.fld }\npub fn with(cb: fn(R) -> Int) -> Int { cb(R(1)) }\npub fn with2(f: fn(Int) -> Int, n: Int, cb: fn(R) -> Int) -> Int { cb(R(f(n))) }\npub fn give(n: Int, cb: fn(fn(Int) -> Int) -> Int) -> Int { cb(fn(x) { x + n }) }\npub type Pre { Error(Int) Nil }\npub type Plain { Failed(Int) Empty }\npub type Handler = fn(Int) -> Int\npub type Gen(a) = fn(a) -> a\n";

/// (text, marks (start, end, kind))
fn strip_marks(tpl: &str) -> (String, Vec<(usize, usize, char)>) {
    let mut text = String::new();
    let mut marks = vec![];
    let mut rest = tpl;
    while let Some(i) = rest.find('«') {
        text.push_str(&rest[..i]);
        let after = &rest[i + '«'.len_utf8()..];
        let j = after.find('»').unwrap();
        let inner = &after[..j];
        let kind = inner.chars().next().unwrap();
        let name = &inner[2..];
        marks.push((text.len(), text.len() + name.len(), kind));
        text.push_str(name);
        rest = &after[j + '»'.len_utf8()..];
    }
    text.push_str(rest);
    (text, marks)
}

fn eval_role_program(name: &str, tpl: &str) -> Vec<(String, String, String)> {
    let (text, marks) = strip_marks(tpl);
    let dir = format!("r{:x}", crate::core::fnv(name));
    let base = crate::core::verif_root().join(".scratch/c19roles").join(dir);
    let _ = std::fs::create_dir_all(base.join("src"));
    let _ = std::fs::write(base.join("gleam.toml"), "name = \"roles\"\n");
    let _ = std::fs::write(base.join("src/m.gleam"), ROLE_M);
    let _ = std::fs::write(base.join("src/main.gleam"), &text);
    let uri = format!("file://{}", base.join("src/main.gleam").display());
    let mut srv = InProc::new();
    let _ = srv.open(&uri, &text);
    let resp = srv.request("textDocument/semanticTokens/full", json!({"textDocument": {"uri": uri}}));
    let _ = std::fs::remove_dir_all(&base);
    let mut out = vec![];
    let data: Vec<u32> = match resp {
        Ok(Ok(v)) => v["data"].as_array().map(|a| a.iter().filter_map(|x| x.as_u64()).map(|x| x as u32).collect()).unwrap_or_default(),
        other => return vec![("roles-no-answer".into(), "semanticTokens".into(), format!("{other:?}"))],
    };
    let quads: Vec<(u32, u32, u32, u32)> = data.chunks(5).filter(|c| c.len() == 5).map(|c| (c[0], c[1], c[2], c[3])).collect();
    let Some(dec) = decode_tokens(&quads) else { return vec![("decode-overflow".into(), "roles".into(), "relative encoding overflows".into())] };
    let doc = RefDoc::new(text.clone());
    let legend = gv::semantic_token_legend();
    let kind_name = |k: char| match k {
        'n' => "namespace",
        'f' => "function",
        't' => "type",
        _ => "",
    };
    let mut seen = BTreeSet::new();
    for t in &dec {
        let (Some(s), Some(e)) = (doc.offset_of(t.line, t.start), doc.offset_of(t.line, t.start + t.len)) else {
            out.push(("roles-token-off-grid".into(), "roles".into(), format!("token {t:?} does not lie on character boundaries of its line")));
            continue;
        };
        let got_kind = legend.get(t.ty as usize).cloned().unwrap_or_default();
        match marks.iter().find(|m| m.0 == s && m.1 == e) {
            None => {
                let what = if marks.iter().any(|m| m.0 < e && s < m.1) { "part of an identifier" } else { "a local, label, keyword or type name" };
                out.push(("roles-unexpected-token".into(), format!("{got_kind} token on {what}"), format!("a {got_kind} token covers {:?} at {s}..{e}, which is {what}", &text[s..e])));
            }
            Some(m) => {
                seen.insert(m.0);
                if m.2 != '?' && kind_name(m.2) != got_kind {
                    out.push(("roles-wrong-kind".into(), format!("{} tagged {got_kind}", kind_name(m.2)), format!("{:?} at {s}..{e} is a {} by construction but tagged {got_kind}", &text[s..e], kind_name(m.2))));
                }
            }
        }
    }
    for m in marks.iter().filter(|m| m.2 != '?' && !seen.contains(&m.0)) {
        out.push(("roles-missing-token".into(), format!("{} without token", kind_name(m.2)), format!("{:?} at {}..{} is a {} by construction but carries no token", &text[m.0..m.1], m.0, m.1, kind_name(m.2))));
    }
    out
}

fn roles_layer(rep: &mut Report) {
    let progs = role_programs();
    let res: Vec<Vec<Violation>> = progs
        .par_iter()
        .map(|(name, tpl)| {
            eval_role_program(name, tpl)
                .into_iter()
                .map(|(class, what, detail)| {
                    let parts: Vec<&str> = name.split('|').collect();
                    Violation { class, key: format!("roles|{what}|{}|{}|{}", parts[0], parts.get(1).copied().unwrap_or(""), parts.get(2).copied().unwrap_or("")), witness: json!({"role_program": name}), detail: format!("[{name}] {}: {detail}", strip_marks(tpl).0.trim().replace('\n', " / ")) }
                })
                .collect()
        })
        .collect();
    let mut l = Layer { name: "roles-by-construction".into(), exhaustive: true, ..Default::default() };
    for v in res {
        l.states += 1;
        l.executions += 1;
        for x in v {
            rep.violation(x);
        }
    }
    l.transitions = progs.iter().map(|p| strip_marks(&p.1).1.len() as u64).sum();
    l.bound = format!("{} two-module programs through the real router (semanticTokens/full), roles known by construction: a record-typed local named like the imported module `m` or not x 5 binder kinds (annotated parameter, let, case clause, lambda parameter, use binder) x 5-7 uses (field access, alone, twice, argument of a local / module function, next to a module constant) x on a line starting with a multi-byte string or not; the stream must tag every module / function use, and nothing that is a local, label, keyword or type name", progs.len());
    rep.layer(l);
}

/// Token streams of documents reached through edits: a line with a string of multi-byte
/// characters in front of function identifiers; every valid single edit on that line is sent as
/// a ranged didChange to the real server, whose token stream must then equal the stream a fresh
/// server gives for the edited text, and must put the identifiers where the client sees them.
fn tokens_after_edits_layer(rep: &mut Report, tier: Tier) {
    let syms = ["x", "é", "😀"];
    let mut strings = vec![String::new()];
    let mut frontier = vec![String::new()];
    for _ in 0..tier.pick(3, 4) {
        let mut next = vec![];
        for f in &frontier {
            for sy in syms {
                next.push(format!("{f}{sy}"));
            }
        }
        strings.extend(next.iter().cloned());
        frontier = next;
    }
    let reps = ["", "x", "é", "😀", "xx"];
    let res: Vec<(u64, Vec<Violation>)> = strings
        .par_iter()
        .map(|st| {
            let text = format!("pub fn aa() {{ #(\"{st}\", aa, aa) }}\n");
            let uri = format!("file:///verif/c19edits/s{:x}.gleam", crate::core::fnv(st));
            let mut srv = InProc::new();
            let _ = srv.open(&uri, &text);
            let doc = RefDoc::new(text.clone());
            let q0 = text.find('"').unwrap();
            let q1 = text.rfind('"').unwrap() + 1;
            let positions: Vec<((u32, u32), usize)> = doc.valid_positions().into_iter().filter(|(_, o)| *o >= q0 && *o <= q1).collect();
            let mut viol = vec![];
            let mut n = 0u64;
            let mut version = 1;
            let tokens = |srv: &mut InProc, uri: &str| -> Result<Vec<u32>, String> {
                match srv.request("textDocument/semanticTokens/full", json!({"textDocument": {"uri": uri}})) {
                    Ok(Ok(v)) => Ok(v["data"].as_array().map(|a| a.iter().filter_map(|x| x.as_u64()).map(|x| x as u32).collect()).unwrap_or_default()),
                    other => Err(format!("{other:?}")),
                }
            };
            for (i, (ps, so)) in positions.iter().enumerate() {
                for (pe, eo) in positions.iter().skip(i) {
                    for r in reps {
                        if so == eo && r.is_empty() {
                            continue;
                        }
                        n += 1;
                        version += 1;
                        let _ = srv.notify("textDocument/didChange", json!({"textDocument": {"uri": uri, "version": version}, "contentChanges": [{"text": text}]}));
                        version += 1;
                        let _ = srv.notify("textDocument/didChange", json!({"textDocument": {"uri": uri, "version": version}, "contentChanges": [{"range": {"start": {"line": ps.0, "character": ps.1}, "end": {"line": pe.0, "character": pe.1}}, "text": r}]}));
                        let mut edited = doc.clone();
                        edited.replace(*so, *eo, r);
                        let got = tokens(&mut srv, &uri);
                        let mut fresh = InProc::new();
                        let furi = format!("{uri}.fresh.gleam");
                        let _ = fresh.open(&furi, &edited.text);
                        let want = tokens(&mut fresh, &furi);
                        let mut problem = None;
                        if got != want {
                            problem = Some(("tokens-after-edit-differ".to_string(), format!("stream after the edit {got:?}, stream of a fresh server for the same text {want:?}")));
                        } else if let Ok(data) = &got {
                            // by construction: when the edit leaves the string closed, the two `aa` after it are functions
                            if edited.text.matches('"').count() == 2 {
                                let quads: Vec<(u32, u32, u32, u32)> = data.chunks(5).filter(|c| c.len() == 5).map(|c| (c[0], c[1], c[2], c[3])).collect();
                                let abs = decode_tokens(&quads).unwrap_or_default();
                                let close = edited.text.rfind('"').unwrap();
                                let mut from = close;
                                for _ in 0..2 {
                                    let Some(k) = edited.text[from..].find("aa") else { break };
                                    let off = from + k;
                                    let (l, c) = edited.pos_of(off);
                                    if !abs.iter().any(|t| t.line == l && t.start == c && t.len == 2) {
                                        problem = Some(("token-misplaced-after-edit".to_string(), format!("no token at the client's position {l}:{c} of the function identifier `aa` (decoded tokens {abs:?})")));
                                    }
                                    from = off + 2;
                                }
                            }
                        }
                        if let Some((class, detail)) = problem {
                            if viol.len() < 3 {
                                let kind = if r.is_empty() { "deletion" } else if so == eo { "insertion" } else { "replacement" };
                                viol.push(Violation { class: class.clone(), key: format!("tokens-after-edits|{class}|{kind}"), witness: json!({"tokens_after_edit": {"string": st, "start": [ps.0, ps.1], "end": [pe.0, pe.1], "text": r}}), detail: format!("document {text:?}, ranged didChange {ps:?}..{pe:?} -> {r:?} (client copy {:?}): {detail}", edited.text) });
                            }
                        }
                    }
                }
            }
            (n, viol)
        })
        .collect();
    let mut l = Layer { name: "tokens-after-edits".into(), states: strings.len() as u64, exhaustive: true, ..Default::default() };
    let mut seen = BTreeSet::new();
    for (n, v) in res {
        l.executions += n;
        l.transitions += n;
        for x in v {
            if seen.insert(x.key.clone()) {
                rep.violation(x);
            }
        }
    }
    l.bound = format!("{} documents `pub fn aa() {{ #(\"S\", aa, aa) }}` with S over {{x, 2-byte, 4-byte}} (<= {} symbols) x every valid single edit inside the string literal (both ends within it, replacement from 5 strings) sent as a ranged didChange to the real server: the token stream equals a fresh server's stream for the edited text, and the identifiers behind a still closed string are tokens at the client's positions", strings.len(), tier.pick(3, 4));
    rep.layer(l);
}

pub fn run(tier: Tier) -> i32 {
    let mut rep = Report::new("C19", tier);
    encoder_layer(&mut rep, tier);
    e2e_layer(&mut rep);
    roles_layer(&mut rep);
    tokens_after_edits_layer(&mut rep, tier);
    rep.rule = "encoder: documents and highlight lists enumerated exhaustively; non-trivial = documents with >= 2 identifier runs and a multi-byte character; end-to-end: token classes checked".into();
    rep.sample(json!({"text": "a😀a\néa", "highlights": [[0, 1, "Function"], [5, 6, "Module"]]}));
    rep.assumptions = vec!["the end-to-end classification uses the analysis' own go-to-definition/hover answers (relational oracle)".into()];
    rep.guard(rep.distinct_nontrivial > 50, "non-trivial documents");
    rep.finish()
}

pub fn replay(w: &Value) -> Vec<String> {
    if let Some(text) = w["text"].as_str() {
        let hls: Vec<(usize, usize, HlTag)> = w["highlights"]
            .as_array()
            .cloned()
            .unwrap_or_default()
            .iter()
            .map(|h| {
                let tag = match h[2].as_str() {
                    Some("Module") => HlTag::Module,
                    Some("Constructor") => HlTag::Constructor,
                    _ => HlTag::Function,
                };
                (h[0].as_u64().unwrap_or(0) as usize, h[1].as_u64().unwrap_or(0) as usize, tag)
            })
            .collect();
        return encode_and_check(text, &hls).into_iter().map(|(c, d)| format!("{c}: {d}")).collect();
    }
    if let Some(name) = w["role_program"].as_str() {
        let Some((_, tpl)) = role_programs().into_iter().find(|p| p.0 == name) else { return vec!["unknown role program".into()] };
        return eval_role_program(name, &tpl).into_iter().map(|(c, _, d)| format!("{c}: {d}")).collect();
    }
    let mut rep = Report::new("C19", Tier::Quick);
    e2e_layer(&mut rep);
    rep.violations.iter().map(|v| format!("{}: {}", v.class, v.detail)).collect()
}
