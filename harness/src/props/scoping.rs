//! C05 (go-to-definition follows Gleam's scoping rules) and C18 (completions list what is in
//! scope): exhaustive enumeration of scoping skeletons x name assignments x module contexts,
//! against the reference scope resolver.
use crate::ana::ws::{Workspace, WsFile, WsPackage};
use crate::core::{catch, panic_class, Layer, Report, Tier, Violation};
use crate::gleam::ast::*;
use crate::gleam::print::{print_module, Layout};
use crate::gleam::scope::{Resolver, Target, UseInfo};
use crate::gleam::scopegen::{self, contexts, Context, Ctx, INNER_SHAPES, N_SHAPES, POOL};
use ide::{FilePos, GotoDefinitionResult};
use rayon::prelude::*;
use serde_json::{json, Value};
use std::collections::{BTreeMap, BTreeSet};

#[derive(Clone, Copy, PartialEq, Eq)]
pub enum Which {
    C05,
    C18,
}

pub struct Built {
    pub texts: Vec<String>,
    /// per module: occurrence id -> (start, end)
    pub occs: Vec<BTreeMap<u32, (usize, usize)>>,
    pub uses: Vec<UseInfo>,
    pub guard: BTreeSet<(usize, u32)>,
    pub decls: BTreeSet<(usize, u32)>,
    pub invalid: bool,
}

pub fn build(mods: &[(String, Module)], layout: Layout) -> Built {
    let mut texts = vec![];
    let mut occs = vec![];
    for (_, m) in mods {
        let p = print_module(m, layout);
        occs.push(p.occs.iter().map(|(id, s, e)| (*id, (*s, *e))).collect());
        texts.push(p.text);
    }
    let mut r = Resolver::new(mods);
    r.run();
    let guard = r.guard_uses().clone();
    let decls = r.decls.iter().copied().collect();
    let invalid = r.invalid;
    Built { texts, occs, uses: r.uses, guard, decls, invalid }
}

fn workspace(mods: &[(String, Module)], texts: &[String]) -> Workspace {
    Workspace { packages: vec![WsPackage { name: "app".into(), files: mods.iter().zip(texts).map(|((n, _), t)| WsFile { rel: format!("src/{n}.gleam"), text: t.clone() }).collect(), deps: vec![], is_local: true }] }
}

fn describe(t: &Target, b: &Built, mods: &[(String, Module)]) -> String {
    match t {
        Target::Decl(m, id) => {
            let (s, e) = b.occs[*m].get(id).copied().unwrap_or((0, 0));
            format!("declaration `{}` at {}:{s}", &b.texts[*m][s..e], mods[*m].0)
        }
        Target::Module(m) => format!("module {}", mods[*m].0),
        Target::Unresolved => "nothing (unresolved)".into(),
        Target::Private(m, id) => format!("nothing, or the private declaration itself ({}:{})", mods[*m].0, b.occs[*m].get(id).map(|r| r.0).unwrap_or(0)),
        Target::Builtin => "nothing (built-in)".into(),
        Target::Any => "anything".into(),
    }
}

/// Compares one go-to-definition answer with the reference binding.
fn judge_goto(b: &Built, files: &[crate::ana::ws::FileInfo], got: &Option<(usize, u32, u32, u32, u32)>, want: &Target, is_guard: bool) -> Option<String> {
    let _ = files;
    match (want, got) {
        (Target::Any, _) => None,
        (Target::Private(..), None) => None,
        (Target::Private(m, id), Some(_)) => judge_goto(b, files, got, &Target::Decl(*m, *id), false),
        (_, None) if is_guard => None,
        (Target::Unresolved | Target::Builtin, None) => None,
        (Target::Unresolved | Target::Builtin, Some(g)) => Some(format!("lands on {}:{}..{} although nothing is bound", g.0, g.1, g.2)),
        (Target::Module(m), Some(g)) => {
            if g.0 == *m && g.1 == 0 && g.2 == 0 {
                None
            } else {
                Some(format!("lands on module {} range {}..{}, expected module {m}", g.0, g.1, g.2))
            }
        }
        (Target::Module(_), None) | (Target::Decl(..), None) => Some("no answer".into()),
        (Target::Decl(m, id), Some(g)) => {
            let (s, e) = b.occs[*m].get(id).copied()?;
            let (fs, fe, us, ue) = (g.1 as usize, g.2 as usize, g.3 as usize, g.4 as usize);
            if g.0 != *m || !(fs <= s && e <= fe) {
                return Some(format!("lands on module {} focus {fs}..{fe}, expected the declaration at module {m} {s}..{e}", g.0));
            }
            if !(us <= fs && fe <= ue) {
                return Some(format!("focus {fs}..{fe} not inside full range {us}..{ue}"));
            }
            // no other declaration's name inside the focus (a variant contains its fields)
            let others: Vec<u32> = b.decls.iter().filter(|(dm, did)| dm == m && did != id).filter_map(|(_, did)| b.occs[*m].get(did).map(|r| (*did, *r))).filter(|(_, (os, oe))| fs <= *os && *oe <= fe).map(|(d, _)| d).collect();
            let text = &b.texts[*m][fs..fe];
            if !others.is_empty() && !text.contains('(') {
                return Some(format!("focus {fs}..{fe} ({text:?}) also covers other declarations"));
            }
            None
        }
    }
}

fn goto_answer(an: &ide::Analysis, files: &[crate::ana::ws::FileInfo], module: usize, off: usize) -> Result<Option<(usize, u32, u32, u32, u32)>, String> {
    match catch(|| an.goto_definition(FilePos::new(files[module].id, (off as u32).into()))) {
        Ok(Ok(Some(GotoDefinitionResult::Targets(ts)))) if ts.len() == 1 => {
            let t = &ts[0];
            let m = files.iter().position(|f| f.id == t.file_id).unwrap_or(usize::MAX);
            Ok(Some((m, u32::from(t.focus_range.start()), u32::from(t.focus_range.end()), u32::from(t.full_range.start()), u32::from(t.full_range.end()))))
        }
        Ok(Ok(Some(GotoDefinitionResult::Targets(ts)))) => Err(format!("{} targets", ts.len())),
        Ok(Ok(_)) => Ok(None),
        Ok(Err(_)) => Err("cancelled".into()),
        Err(m) => Err(format!("panic: {}", panic_class(&m))),
    }
}

fn position_key(text: &str, off: usize) -> String {
    let p = syntax::parse_module(text);
    let Some(t) = p.syntax_node().token_at_offset((off as u32).into()).right_biased() else { return "?".into() };
    t.parent_ancestors().take(3).map(|n| format!("{:?}", n.kind())).collect::<Vec<_>>().join("<")
}

const BUILTINS: &[&str] = &["Ok", "Error", "Nil", "True", "False"];

/// Evaluates one program; returns (queries, nontrivial uses, failures).
pub fn eval_program(which: Which, mods: &[(String, Module)], layout: Layout) -> (u64, u64, Vec<(String, String, String)>) {
    let b = build(mods, layout);
    if b.invalid {
        // one name bound twice in one pattern / clause / use: rejected by Gleam itself
        return (0, 0, vec![]);
    }
    let ws = workspace(mods, &b.texts);
    let files = ws.files();
    let host = ws.host();
    let an = host.snapshot();
    let mut fails = vec![];
    let mut n = 0u64;
    let mut nontrivial = 0u64;
    // names with >= 2 candidate declarations
    let mut decl_names: BTreeMap<String, usize> = BTreeMap::new();
    for (m, id) in &b.decls {
        if let Some((s, e)) = b.occs[*m].get(id) {
            *decl_names.entry(b.texts[*m][*s..*e].to_string()).or_default() += 1;
        }
    }
    for u in &b.uses {
        let Some(&(s, e)) = b.occs[u.module].get(&u.id) else { continue };
        let name = &b.texts[u.module][s..e];
        if decl_names.get(name).copied().unwrap_or(0) >= 2 {
            nontrivial += 1;
        }
        match which {
            Which::C05 => {
                n += 1;
                let is_guard = b.guard.contains(&(u.module, u.id));
                match goto_answer(&an, &files, u.module, s) {
                    Err(m) => fails.push(("goto-failed".into(), m.clone(), format!("go-to-definition at `{name}` ({}:{s}) failed: {m}", mods[u.module].0))),
                    Ok(got) => {
                        if let Some(why) = judge_goto(&b, &files, &got, &u.target, is_guard) {
                            let class = match (&u.target, &got) {
                                (Target::Unresolved | Target::Builtin, Some(_)) => "lands-where-nothing-is-bound",
                                (_, None) => "no-target",
                                _ => "wrong-declaration",
                            };
                            fails.push((class.into(), format!("{}{}", position_key(&b.texts[u.module], s), if is_guard { "|in clause guard" } else { "" }), format!("`{name}` at {}:{s} should resolve to {}: {why}", mods[u.module].0, describe(&u.target, &b, mods))));
                        }
                    }
                }
            }
            Which::C18 => {
                let Some(vis) = &u.visible else { continue };
                if b.guard.contains(&(u.module, u.id)) {
                    continue;
                }
                n += 1;
                let pos = FilePos::new(files[u.module].id, (e as u32).into());
                let items = match catch(|| an.completions(pos, None)) {
                    Ok(Ok(Some(v))) => v,
                    Ok(Ok(None)) => {
                        fails.push(("no-completions".into(), position_key(&b.texts[u.module], s), format!("no completion list at `{name}` ({}:{e})", mods[u.module].0)));
                        continue;
                    }
                    other => {
                        fails.push(("completion-failed".into(), "completions".into(), format!("completions at {}:{e}: {other:?}", mods[u.module].0)));
                        continue;
                    }
                };
                let offered: BTreeSet<String> = items.iter().filter(|i| i.kind != ide::CompletionItemKind::Keyword).map(|i| i.label.to_string()).filter(|l| !BUILTINS.contains(&l.as_str())).collect();
                let want: BTreeSet<String> = vis.keys().filter(|k| !BUILTINS.contains(&k.as_str())).cloned().collect();
                let key = position_key(&b.texts[u.module], s);
                for missing in want.difference(&offered) {
                    let what = match vis.get(missing) {
                        Some(Target::Module(_)) => "module accessor",
                        Some(Target::Decl(m, _)) if *m != u.module => "unqualified import",
                        _ => "name in scope",
                    };
                    fails.push(("visible-name-not-offered".into(), format!("{what}|{key}"), format!("at `{name}` ({}:{e}) the {what} `{missing}` is in scope but not offered; offered {offered:?}", mods[u.module].0)));
                }
                for extra in offered.difference(&want) {
                    fails.push(("offered-name-not-visible".into(), key.clone(), format!("at `{name}` ({}:{e}) `{extra}` is offered but is not visible there; visible {want:?}", mods[u.module].0)));
                }
                for it in items.iter().filter(|i| i.kind != ide::CompletionItemKind::Keyword) {
                    let (rs, re) = (u32::from(it.source_range.start()) as usize, u32::from(it.source_range.end()) as usize);
                    if (rs, re) != (s, e) {
                        fails.push(("replace-range".into(), key.clone(), format!("item `{}` at `{name}` ({}:{e}) replaces {rs}..{re}, the identifier being typed is {s}..{e}", it.label, mods[u.module].0)));
                        break;
                    }
                }
                // accept each offered name that the model knows and resolve it
                for it in items.iter().filter(|i| i.kind != ide::CompletionItemKind::Keyword) {
                    let label = it.label.to_string();
                    let Some(target) = vis.get(&label) else { continue };
                    // a bare module accessor is not an expression; its members are checked after `m.`
                    if matches!(target, Target::Module(_)) {
                        continue;
                    }
                    // what the editor inserts is `replace`; for a value name that is one identifier
                    let inserted = it.replace.to_string();
                    if !inserted.chars().all(|c| c.is_ascii_alphanumeric() || c == '_') || inserted.is_empty() {
                        fails.push(("accepted-item-inserts-no-identifier".into(), key.clone(), format!("item `{label}` at {}:{s} inserts {inserted:?}, not an identifier", mods[u.module].0)));
                        continue;
                    }
                    let mut texts2 = b.texts.clone();
                    texts2[u.module].replace_range(s..e, &inserted);
                    let delta = inserted.len() as i64 - (e - s) as i64;
                    let ws2 = workspace(mods, &texts2);
                    let files2 = ws2.files();
                    let host2 = ws2.host();
                    let an2 = host2.snapshot();
                    n += 1;
                    let got = goto_answer(&an2, &files2, u.module, s);
                    // shift the expected declaration if it lies after the edit in the same file
                    let mut b2 = Built { texts: texts2, occs: b.occs.clone(), uses: vec![], guard: BTreeSet::new(), decls: b.decls.clone(), invalid: false };
                    for (_, r) in b2.occs[u.module].iter_mut() {
                        if r.0 >= e {
                            r.0 = (r.0 as i64 + delta) as usize;
                            r.1 = (r.1 as i64 + delta) as usize;
                        }
                    }
                    match got {
                        Ok(g) => {
                            if let Some(why) = judge_goto(&b2, &files2, &g, target, false) {
                                fails.push(("accepted-name-resolves-elsewhere".into(), key.clone(), format!("accepting `{label}` at {}:{s} (inserts `{inserted}`) should resolve to {}: {why}", mods[u.module].0, describe(target, &b, mods))));
                            }
                        }
                        Err(m) => fails.push(("goto-failed".into(), m.clone(), format!("after accepting `{label}`: {m}"))),
                    }
                }
            }
        }
    }
    (n, nontrivial, fails)
}

/// Every use slot placed in each expression context of `USE_WRAPS`: single-statement skeletons
/// (pairs too in the thorough tier) x contexts x every name assignment.
const SHADOW_M: &str = "pub type R { R(fld: Int, other: Int) }\npub const c = 1\npub fn show(r: R) -> Int { r.fld }\npub fn with(cb: fn(R) -> Int) -> Int { cb(R(1, 2)) }\n";

/// Programs whose bindings are known by construction: a local spelled like an imported module
/// (or not) bound by each kind of binder, then used alone, as the base of a field access, as an
/// argument, under operators. Marks: `«b:x»` the binder, `«u:x»` a use of it, `«n:m»` the module,
/// `«f:fld»` a field of `m.R`.
fn shadowing_programs() -> Vec<(String, String)> {
    let mut out = vec![];
    for l in ["m", "q"] {
        let binders: Vec<(&str, String)> = vec![
            ("parameter", format!("pub fn user(«b:{l}»: «n:m».R) {{ {{PRE}}{{USE}} }}")),
            ("let", format!("pub fn user() {{ {{PRE}}let «b:{l}» = «n:m».R(1, 2) {{USE}} }}")),
            ("let tuple pattern", format!("pub fn user() {{ {{PRE}}let #(«b:{l}», _) = #(«n:m».R(1, 2), 0) {{USE}} }}")),
            ("let constructor pattern", format!("pub fn user(w: Wrap) {{ {{PRE}}let Wrap(inner: «b:{l}») = w {{USE}} }}")),
            ("case clause", format!("pub fn user() {{ {{PRE}}case «n:m».R(1, 2) {{ «b:{l}» -> {{USE}} }} }}")),
            ("case clause with block", format!("pub fn user() {{ {{PRE}}case «n:m».R(1, 2) {{ «b:{l}» -> {{ {{USE}} }} }} }}")),
            ("list pattern", format!("pub fn user(rs: List(«n:m».R)) {{ {{PRE}}case rs {{ [«b:{l}», ..] -> {{USE}} _ -> 0 }} }}")),
            ("as pattern", format!("pub fn user(w: Wrap) {{ {{PRE}}case w.inner {{ «n:m».R(..) as «b:{l}» -> {{USE}} }} }}")),
            ("lambda parameter", format!("pub fn user() {{ {{PRE}}let g = fn(«b:{l}»: «n:m».R) {{ {{USE}} }} g }}")),
            ("use binder", format!("pub fn user() {{ {{PRE}}use «b:{l}» <- «n:m».with {{USE}} }}")),
        ];
        let uses: Vec<(&str, String)> = vec![
            ("alone", format!("«u:{l}»")),
            ("field access", format!("«u:{l}».«f:fld»")),
            ("two field accesses", format!("«u:{l}».«f:fld» + «u:{l}».«f:other»")),
            ("argument of a local function", format!("own(«u:{l}»)")),
            ("field access as argument", format!("num(«u:{l}».«f:fld»)")),
            ("field access under a prefix operator", format!("num(-«u:{l}».«f:fld»)")),
            ("argument of a module function", format!("«n:m».show(«u:{l}»)")),
            ("next to a module constant", format!("«u:{l}».«f:fld» + «n:m».c")),
            ("in a nested block after another let", format!("{{ let z = «u:{l}».«f:fld» z + «u:{l}».«f:other» }}")),
            ("piped", format!("«u:{l}» |> own")),
        ];
        for (bn, b) in &binders {
            for (un, u) in &uses {
                // with and without statements before the binding (the binder then is not the block's first statement)
                for (pn, pre) in [("first statement", ""), ("after a statement", "let before = «n:m».c ")] {
                    let f = b.replace("{PRE}", pre).replace("{USE}", u);
                    let text = format!("import m\npub type Wrap {{ Wrap(inner: «n:m».R) }}\n{f}\nfn own(r: «n:m».R) {{ r.«f:fld» }}\nfn num(n: Int) {{ n }}\n");
                    out.push((format!("local `{l}`|{bn}|{un}|{pn}"), text));
                }
            }
        }
    }
    out
}

fn strip_marks5(tpl: &str) -> (String, Vec<(usize, usize, char, String)>) {
    let mut text = String::new();
    let mut marks = vec![];
    let mut rest = tpl;
    while let Some(i) = rest.find('«') {
        text.push_str(&rest[..i]);
        let after = &rest[i + '«'.len_utf8()..];
        let j = after.find('»').unwrap();
        let inner = &after[..j];
        let kind = inner.chars().next().unwrap();
        let name = &inner[2..];
        marks.push((text.len(), text.len() + name.len(), kind, name.to_string()));
        text.push_str(name);
        rest = &after[j + '»'.len_utf8()..];
    }
    text.push_str(rest);
    (text, marks)
}

/// By-construction layer: locals spelled like an imported module (C05 "a local shadows
/// everything else of that spelling; the label after it is the field of its type").
fn shadowing_locals_layer(rep: &mut Report) {
    let progs = shadowing_programs();
    let res: Vec<(u64, Vec<Violation>)> = progs
        .par_iter()
        .map(|(name, tpl)| {
            let (text, marks) = strip_marks5(tpl);
            let ws = Workspace::single(&[("main", text.as_str()), ("m", SHADOW_M)]);
            let files = ws.files();
            let host = ws.host();
            let an = host.snapshot();
            let binder = marks.iter().find(|m| m.2 == 'b').map(|m| (m.0 as u32, m.1 as u32));
            let mut v = vec![];
            let mut n = 0u64;
            for (s, e, kind, ident) in &marks {
                n += 1;
                let got = goto_answer(&an, &files, 0, *s);
                let want: String;
                let ok = match (kind, &got) {
                    ('b', Ok(Some((0, fs, fe, _, _)))) | ('u', Ok(Some((0, fs, fe, _, _)))) => {
                        want = format!("the binder at {:?}", binder);
                        binder.map_or(false, |(bs, be)| *fs <= bs && be <= *fe && (*fe - *fs) <= (be - bs) + 2)
                    }
                    ('n', Ok(Some((1, 0, 0, _, _)))) => {
                        want = String::new();
                        true
                    }
                    ('f', Ok(Some((1, fs, fe, _, _)))) => {
                        want = format!("the field `{ident}` of m.R");
                        let d = SHADOW_M.find(&format!("{ident}: Int")).unwrap() as u32;
                        *fs <= d && d + ident.len() as u32 <= *fe && !SHADOW_M[*fs as usize..*fe as usize].contains(',')
                    }
                    _ => {
                        want = match kind { 'b' | 'u' => format!("the binder at {binder:?}"), 'n' => "module m".into(), _ => format!("the field `{ident}` of m.R") };
                        false
                    }
                };
                if !ok {
                    let parts: Vec<&str> = name.split('|').collect();
                    let role = match kind { 'b' => "binder", 'u' => "use of the local", 'n' => "module qualifier", _ => "field label" };
                    v.push(Violation { class: "wrong-binding".into(), key: format!("shadowing-locals|{}|{}|{}|{role}", parts[0], parts[1], parts[2]), witness: json!({"shadowing_program": name, "offset": s, "text": text}), detail: format!("[{name}] `{ident}` at {s}..{e} ({role}) in {text:?}: go-to-definition gives {got:?} (module index, focus, full), expected {want}") });
                }
            }
            (n, v)
        })
        .collect();
    let mut l = Layer { name: "shadowing-locals".into(), exhaustive: true, ..Default::default() };
    let mut seen = BTreeSet::new();
    for (n, vs) in res {
        l.states += 1;
        l.executions += n;
        l.transitions += n;
        for v in vs {
            if seen.insert(v.key.clone()) {
                rep.violation(v);
            }
        }
    }
    l.bound = format!("{} programs: a local spelled `m` (like the imported module) or `q` x 10 binder kinds (parameter, let, let with tuple / constructor pattern, clause, clause with block, list pattern, as-pattern, lambda parameter, use binder) x 10 uses (alone, base of one / two field accesses, argument, under a prefix operator, next to qualified names, in a nested block, piped) x with / without a statement before the binding; expectation by construction: uses land on the binder, labels on the field of m.R, qualifiers outside the local's scope on the module", progs.len());
    rep.layer(l);
}

fn use_positions_layer(rep: &mut Report, tier: Tier) {
    let mut sks = skeletons(Tier::Quick);
    if tier == Tier::Quick {
        sks.retain(|s| s.len() == 1);
    }
    let ctxs = contexts();
    let max_slots = tier.pick(8usize, 9usize);
    let wraps: Vec<u8> = (1..scopegen::USE_WRAPS.len() as u8).collect();
    let jobs: Vec<(Context, &Vec<(usize, Option<usize>)>, u8)> = ctxs.iter().flat_map(|c| sks.iter().flat_map(move |s| (1..scopegen::USE_WRAPS.len() as u8).map(move |w| (*c, s, w)))).collect();
    let _ = wraps;
    let res: Vec<(u64, u64, u64, Vec<Violation>)> = jobs
        .par_iter()
        .map(|(ctx, sk, wrap)| {
            let slots = count_slots(*ctx, sk);
            let (mut progs, mut queries, mut capped) = (0u64, 0u64, 0u64);
            let mut viol: Vec<Violation> = vec![];
            if slots > max_slots {
                capped = 1;
                return (progs, queries, capped, viol);
            }
            for assign in all_assignments(slots) {
                let mut c = Ctx::new(assign.clone());
                c.wrap = *wrap;
                let Some(mods) = scopegen::program(*ctx, sk, &mut c) else { continue };
                progs += 1;
                match catch(|| eval_program(Which::C05, &mods, Layout::Space)) {
                    Ok((n, _, fails)) => {
                        queries += n;
                        for (class, key, detail) in fails {
                            // uses in clause guards resolve as if outside the clause whatever they stand in: the listed finding
                            if key.ends_with("|in clause guard") {
                                continue;
                            }
                            if viol.len() < 4 {
                                let texts: Vec<String> = mods.iter().map(|(_, m)| print_module(m, Layout::Space).text).collect();
                                viol.push(Violation { class, key: format!("use as {}|{key}", scopegen::USE_WRAPS[*wrap as usize]), witness: json!({"context": format!("{ctx:?}"), "skeleton": format!("{sk:?}"), "assignment": assign, "wrap": wrap, "main": texts[0], "m": texts[1]}), detail: format!("{detail}\n      main.gleam: {}", texts[0].trim()) });
                            }
                        }
                    }
                    Err(m) => viol.push(Violation { class: "panic".into(), key: panic_class(&m), witness: json!({"context": format!("{ctx:?}"), "skeleton": format!("{sk:?}"), "assignment": assign, "wrap": wrap}), detail: format!("evaluation panicked: {m}") }),
                }
            }
            (progs, queries, capped, viol)
        })
        .collect();
    let mut l = Layer { name: "use-positions".into(), exhaustive: true, ..Default::default() };
    let mut capped = 0;
    for (p, q, c, v) in res {
        l.states += p;
        l.executions += p;
        l.transitions += q;
        capped += c;
        for x in v {
            rep.violation(x);
        }
    }
    l.bound = format!("every use slot of the generated programs placed in each of {} expression contexts ({}) x {} module contexts x {} skeletons x every name assignment (<= {max_slots} slots; {capped} skipped)", scopegen::USE_WRAPS.len() - 1, scopegen::USE_WRAPS[1..].join(", "), ctxs.len(), sks.len());
    if capped > 0 {
        l.exhaustive = false;
        rep.caps.push(json!({"layer": l.name, "cap": format!("skeletons with more than {max_slots} name slots skipped"), "skipped": capped}));
    }
    rep.layer(l);
}

fn skeletons(tier: Tier) -> Vec<Vec<(usize, Option<usize>)>> {
    let mut singles: Vec<(usize, Option<usize>)> = (0..N_SHAPES).map(|s| (s, None)).collect();
    // nested bodies for the shapes that have a body hole
    for s in [8usize, 9, 10, 11, 16] {
        for i in INNER_SHAPES {
            singles.push((s, Some(*i)));
        }
    }
    let mut out: Vec<Vec<(usize, Option<usize>)>> = singles.iter().map(|s| vec![*s]).collect();
    let plain: Vec<(usize, Option<usize>)> = (0..N_SHAPES).map(|s| (s, None)).collect();
    for a in &plain {
        for b in &plain {
            out.push(vec![*a, *b]);
        }
    }
    if tier == Tier::Thorough {
        for a in &singles {
            for b in &singles {
                if a.1.is_some() || b.1.is_some() {
                    out.push(vec![*a, *b]);
                }
            }
        }
        let core = [0usize, 1, 6, 8, 11, 12, 13];
        for a in core {
            for b in core {
                for c in core {
                    out.push(vec![(a, None), (b, None), (c, None)]);
                }
            }
        }
    }
    out
}

/// The generated scoping programs as plain workspaces (for the relational checks C06 / C07 /
/// C10 / C20): single-statement skeletons x contexts x all name assignments.
pub fn generated_workspaces(tier: Tier, light: bool) -> Vec<(String, Workspace)> {
    let mut sks = skeletons(Tier::Quick);
    sks.retain(|s| s.len() == 1);
    let mut ctxs = contexts();
    if light {
        ctxs.retain(|c| c.params == 1);
    }
    if tier == Tier::Quick {
        ctxs.retain(|c| c.params != 0);
    }
    let max_slots = tier.pick(7usize, 9usize);
    let mut out = vec![];
    for ctx in &ctxs {
        for sk in &sks {
            let slots = count_slots(*ctx, sk);
            if slots > max_slots {
                continue;
            }
            for assign in all_assignments(slots) {
                let mut c = Ctx::new(assign.clone());
                let Some(mods) = scopegen::program(*ctx, sk, &mut c) else { continue };
                let b = build(&mods, Layout::Space);
                if b.invalid {
                    continue;
                }
                out.push((format!("gen:{ctx:?}|{sk:?}|{assign:?}"), workspace(&mods, &b.texts)));
            }
        }
    }
    out
}

fn count_slots(ctx: Context, sk: &[(usize, Option<usize>)]) -> usize {
    let mut c = Ctx::new(vec![]);
    let _ = scopegen::program(ctx, sk, &mut c);
    c.pos
}

fn all_assignments(n: usize) -> Vec<Vec<u8>> {
    let k = POOL.len();
    let total = k.pow(n as u32);
    (0..total)
        .map(|mut i| {
            let mut v = vec![];
            for _ in 0..n {
                v.push((i % k) as u8);
                i /= k;
            }
            v
        })
        .collect()
}

pub fn run(which: Which, tier: Tier) -> i32 {
    let prop = if which == Which::C05 { "C05" } else { "C18" };
    let mut rep = Report::new(prop, tier);
    // every accepted completion item is re-analysed (about 20x the cost of a C05 program): C18's
    // quick tier keeps single-statement skeletons, its thorough tier the skeleton set of C05's quick tier
    let mut sks = if which == Which::C18 { skeletons(Tier::Quick) } else { skeletons(tier) };
    if which == Which::C18 && tier == Tier::Quick {
        sks.retain(|s| s.len() == 1);
    }
    let ctxs = contexts();
    // C18 re-analyses per accepted item: use a sub-family of the contexts in the quick tier
    let ctxs: Vec<Context> = if which == Which::C18 && tier == Tier::Quick { ctxs.into_iter().filter(|c| c.params <= 1).collect() } else { ctxs };
    let max_slots = if which == Which::C18 { 9usize } else { tier.pick(9usize, 11usize) };
    let jobs: Vec<(Context, &Vec<(usize, Option<usize>)>)> = ctxs.iter().flat_map(|c| sks.iter().map(move |s| (*c, s))).collect();
    let res: Vec<(u64, u64, u64, u64, Vec<Violation>)> = jobs
        .par_iter()
        .map(|(ctx, sk)| {
            let slots = count_slots(*ctx, sk);
            let mut progs = 0u64;
            let mut queries = 0u64;
            let mut nontriv = 0u64;
            let mut capped = 0u64;
            let mut viol: Vec<Violation> = vec![];
            if slots > max_slots {
                capped = 1;
                return (progs, queries, nontriv, capped, viol);
            }
            for assign in all_assignments(slots) {
                let mut c = Ctx::new(assign.clone());
                let Some(mods) = scopegen::program(*ctx, sk, &mut c) else { continue };
                progs += 1;
                let layout = Layout::Space;
                match catch(|| eval_program(which, &mods, layout)) {
                    Ok((n, nt, fails)) => {
                        queries += n;
                        nontriv += nt;
                        for (class, key, detail) in fails {
                            if viol.len() < 6 {
                                let texts: Vec<String> = mods.iter().map(|(_, m)| print_module(m, layout).text).collect();
                                viol.push(Violation { class, key, witness: json!({"context": format!("{ctx:?}"), "skeleton": format!("{sk:?}"), "assignment": assign, "main": texts[0], "m": texts[1]}), detail: format!("{detail}\n      main.gleam: {}", texts[0].trim()) });
                            }
                        }
                    }
                    Err(m) => viol.push(Violation { class: "panic".into(), key: panic_class(&m), witness: json!({"context": format!("{ctx:?}"), "skeleton": format!("{sk:?}"), "assignment": assign}), detail: format!("evaluation panicked: {m}") }),
                }
            }
            (progs, queries, nontriv, capped, viol)
        })
        .collect();
    let mut l = Layer { name: "skeletons-x-assignments".into(), exhaustive: true, ..Default::default() };
    let mut nontriv = 0;
    let mut capped = 0;
    for (p, q, nt, c, v) in res {
        l.states += p;
        l.executions += p;
        l.transitions += q;
        nontriv += nt;
        capped += c;
        for x in v {
            rep.violation(x);
        }
    }
    l.bound = format!("{} module contexts (top-level items of the pool names x imports: none/qualified/unqualified/unqualified-as/aliased/private+type x 0-2 parameters) x {} statement skeletons ({} shapes, nested bodies, sequences) x EVERY assignment of the names {{x, y}} to the binder and use slots (<= {max_slots} slots; {capped} skeleton/context pairs above that were skipped)", ctxs.len(), sks.len(), N_SHAPES);
    if capped > 0 {
        l.exhaustive = false;
        rep.caps.push(json!({"layer": l.name, "cap": format!("skeletons with more than {max_slots} name slots skipped"), "skipped": capped}));
    }
    rep.layer(l);
    if which == Which::C05 {
        use_positions_layer(&mut rep, tier);
        shadowing_locals_layer(&mut rep);
    }
    if which == Which::C18 {
        dot_layer(&mut rep);
        dot_grid_layer(&mut rep);
        typed_prefix_layer(&mut rep);
        unqualified_import_layer(&mut rep);
    } else {
        namespace_layer(&mut rep);
    }
    rep.distinct_nontrivial = nontriv;
    rep.distinct_outcomes = 1 + rep.violations.iter().map(|v| v.class.clone()).collect::<BTreeSet<_>>().len() as u64;
    rep.rule = "programs = (context, skeleton, name assignment), all distinct; non-trivial = identifier occurrences whose spelling has >= 2 candidate declarations in the workspace".into();
    rep.sample(json!({"main": "fn main ( x ) { let y = x case y { x -> x _ -> y } y }"}));
    rep.assumptions = vec!["the reference resolver implements Gleam's scoping rules for the supported core (DESIGN 4.3); labels in function calls, record field access and alias spellings are outside the core (safety half only)".into()];
    rep.guard(nontriv > 1000, "occurrences with competing declarations");
    rep.finish()
}


/// Type / constructor namespace family: capitalised names from {A, B} used as type names,
/// constructor names and alias names in the exporting module and in the importing one, under
/// every import form, with value, pattern, annotation and qualified uses of both spellings.
pub fn namespace_programs() -> Vec<(String, Vec<(String, Module)>)> {
    #[derive(Clone, Copy, Debug)]
    enum D {
        Adt(usize, usize),
        Alias(usize),
    }
    const N: [&str; 2] = ["A", "B"];
    let int = || Type::Named { module: None, name: "Int".into(), args: vec![] };
    // layouts of the exporting module: 1-2 type-level declarations, distinct type names, distinct constructor names
    let mut singles = vec![];
    for t in 0..2 {
        singles.push(D::Alias(t));
        for c in 0..2 {
            singles.push(D::Adt(t, c));
        }
    }
    let tn = |d: &D| match d {
        D::Adt(t, _) | D::Alias(t) => *t,
    };
    let cn = |d: &D| match d {
        D::Adt(_, c) => Some(*c),
        D::Alias(_) => None,
    };
    let mut layouts: Vec<Vec<D>> = singles.iter().map(|d| vec![*d]).collect();
    for a in &singles {
        for b in &singles {
            if tn(a) != tn(b) && (cn(a).is_none() || cn(a) != cn(b)) {
                layouts.push(vec![*a, *b]);
            }
        }
    }
    // import forms: (is_type, name, alias) lists
    let mut imports: Vec<Vec<(bool, usize, Option<usize>)>> = vec![vec![]];
    for n in 0..2 {
        let o = 1 - n;
        imports.push(vec![(false, n, None)]);
        imports.push(vec![(true, n, None)]);
        imports.push(vec![(false, n, None), (true, n, None)]);
        imports.push(vec![(true, n, None), (false, n, None)]);
        imports.push(vec![(false, n, Some(o))]);
        imports.push(vec![(true, n, Some(o))]);
        imports.push(vec![(false, n, Some(o)), (true, n, None)]);
        imports.push(vec![(false, n, None), (true, o, None)]);
    }
    // local type in the importing module: none or `type L { C }`
    let mut locals: Vec<Option<(usize, usize)>> = vec![None];
    for l in 0..2 {
        for c in 0..2 {
            locals.push(Some((l, c)));
        }
    }
    let mut out = vec![];
    for (li, layout) in layouts.iter().enumerate() {
        for (ii, imp) in imports.iter().enumerate() {
            for shadow in 0..3u8 {
            'l: for (ci, local) in locals.iter().enumerate() {
                // Gleam rejects an unqualified import whose local name is also declared locally (same namespace)
                if let Some((l, c)) = local {
                    for (is_type, n, alias) in imp {
                        let ln = alias.unwrap_or(*n);
                        if (*is_type && ln == *l) || (!*is_type && ln == *c) {
                            continue 'l;
                        }
                    }
                }
                // two imports binding the same local name in one namespace are rejected as well
                for (i, a) in imp.iter().enumerate() {
                    for b in &imp[i + 1..] {
                        if a.0 == b.0 && a.2.unwrap_or(a.1) == b.2.unwrap_or(b.1) {
                            continue 'l;
                        }
                    }
                }
                let mut c = Ctx::new(vec![]);
                let mut m_items = vec![];
                for d in layout {
                    match d {
                        D::Adt(t, k) => m_items.push(Item::TypeDef { public: true, opaque: false, name: c.mark(N[*t]), params: vec![], variants: vec![Variant { name: c.mark(N[*k]), fields: vec![] }] }),
                        D::Alias(t) => m_items.push(Item::Alias { public: true, name: c.mark(N[*t]), params: vec![], ty: int() }),
                    }
                }
                let mut items = vec![Item::Import {
                    path: vec!["m".into()],
                    alias: None,
                    unqualified: imp.iter().map(|(is_type, n, alias)| Unq { is_type: *is_type, name: c.mark(N[*n]), alias: alias.map(|a| c.mark(N[a])) }).collect(),
                }];
                if let Some((l, k)) = local {
                    items.push(Item::TypeDef { public: false, opaque: false, name: c.mark(N[*l]), params: vec![], variants: vec![Variant { name: c.mark(N[*k]), fields: vec![] }] });
                }
                let tyn = |c: &mut Ctx, module: bool, n: usize| Type::Named { module: if module { Some(c.mark("m")) } else { None }, name: c.mark(N[n]), args: vec![] };
                let mut params = vec![
                    Param { label: None, name: c.mark("p"), ty: Some(tyn(&mut c, false, 0)) },
                    Param { label: None, name: c.mark("q"), ty: Some(tyn(&mut c, false, 1)) },
                    Param { label: None, name: c.mark("r"), ty: Some(tyn(&mut c, true, 0)) },
                    Param { label: None, name: c.mark("s"), ty: Some(tyn(&mut c, true, 1)) },
                ];
                // a local value spelled like the module accessor: shadows it in expressions only
                if shadow == 1 {
                    params.push(Param { label: None, name: c.mark("m"), ty: None });
                }
                // ... or a function of that name
                if shadow == 2 {
                    items.push(Item::Fn { public: false, external: false, target: None, name: c.mark("m"), params: vec![], ret: None, body: Some(vec![Stmt::Expr(Expr::Int("0".into()))]) });
                }
                // constant initialisers: `m.A` is a module access whatever else is called `m`
                for n in 0..2 {
                    items.push(Item::Const { public: false, name: c.mark(["ka", "kb"][n]), ann: None, value: Expr::Field(Box::new(Expr::Var(c.mark("m"))), c.mark(N[n])) });
                }
                let mut body = vec![];
                for n in 0..2 {
                    body.push(Stmt::Expr(Expr::Ctor(c.mark(N[n]))));
                    // `m.A` with a local `m` is a (necessarily ill-typed) record access in Gleam; glas
                    // falls back to the module there by design, so the shadowed variant only keeps the
                    // type and pattern positions, where module names are a namespace of their own
                    if shadow == 0 {
                        body.push(Stmt::Expr(Expr::Field(Box::new(Expr::Var(c.mark("m"))), c.mark(N[n]))));
                    }
                }
                let clause = |p: Pattern| Clause { alts: vec![vec![p]], guard: None, body: Expr::Int("0".into()) };
                let mut clauses = vec![];
                for n in 0..2 {
                    clauses.push(clause(Pattern::Ctor { module: None, name: c.mark(N[n]), args: vec![], spread: false }));
                    clauses.push(clause(Pattern::Ctor { module: Some(c.mark("m")), name: c.mark(N[n]), args: vec![], spread: false }));
                }
                clauses.push(clause(Pattern::Discard("_".into())));
                body.push(Stmt::Expr(Expr::Case(vec![Expr::Var(c.mark("p"))], clauses)));
                items.push(Item::Fn { public: true, external: false, target: None, name: c.mark("main"), params, ret: None, body: Some(body) });
                out.push((format!("ns:layout{li}|import{ii}|local{ci}|shadow{shadow}"), vec![("main".to_string(), Module { items }), ("m".to_string(), Module { items: m_items })]));
            }
            }
        }
    }
    out
}

/// The same program with the exporting module `m` moved to `new_path` (imports rewritten), and
/// copies of it left behind under `decoys` - modules nobody imports, spelled like a suffix of the path.
fn repath(mods: &[(String, Module)], new_path: &[&str], decoys: &[&str]) -> Vec<(String, Module)> {
    let mut out: Vec<(String, Module)> = mods.to_vec();
    let Some(mi) = out.iter().position(|(n, _)| n == "m") else { return out };
    let original = out[mi].1.clone();
    out[mi].0 = new_path.join("/");
    for (_, m) in out.iter_mut() {
        for it in m.items.iter_mut() {
            if let Item::Import { path, .. } = it {
                if path.len() == 1 && path[0] == "m" {
                    *path = new_path.iter().map(|s| s.to_string()).collect();
                }
            }
        }
    }
    for d in decoys {
        out.push((d.to_string(), original.clone()));
    }
    out
}

const MODULE_PATHS: &[(&str, &[&str], &[&str])] = &[
    ("m", &["m"], &[]),
    ("d/m", &["d", "m"], &[]),
    ("d/m next to m", &["d", "m"], &["m"]),
    ("d/e/m next to m and e/m", &["d", "e", "m"], &["m", "e/m"]),
];

fn namespace_layer(rep: &mut Report) {
    let base = namespace_programs();
    let mut progs: Vec<(String, Vec<(String, Module)>)> = vec![];
    for (name, mods) in &base {
        for (pname, path, decoys) in MODULE_PATHS {
            if *pname == "m" {
                progs.push((name.clone(), mods.clone()));
            } else {
                progs.push((format!("{name}@{pname}"), repath(mods, path, decoys)));
            }
        }
    }
    let mut l = Layer { name: "type-constructor-namespaces".into(), exhaustive: true, ..Default::default() };
    let res: Vec<(u64, Vec<Violation>)> = progs
        .par_iter()
        .map(|(name, mods)| match catch(|| eval_program(Which::C05, mods, Layout::Space)) {
            Ok((n, _, fails)) => {
                let texts: Vec<String> = mods.iter().map(|(_, m)| print_module(m, Layout::Space).text).collect();
                (n, fails.into_iter().take(4).map(|(class, key, detail)| Violation { class, key: format!("namespace|{key}"), witness: json!({"namespace_program": name, "main": texts[0], "m": texts[1]}), detail: format!("{detail}\n      main.gleam: {}\n      {}.gleam: {}", texts[0].trim(), mods[1].0, texts[1].trim()) }).collect())
            }
            Err(m) => (0, vec![Violation { class: "panic".into(), key: panic_class(&m), witness: json!({"namespace_program": name}), detail: format!("evaluation panicked: {m}") }]),
        })
        .collect();
    for (n, v) in res {
        l.states += 1;
        l.executions += 1;
        l.transitions += n;
        for x in v {
            rep.violation(x);
        }
    }
    l.bound = format!("{} programs: every layout of 1-2 public type-level declarations in the exporting module (custom type with one constructor / alias; type, alias and constructor names from {{A, B}}, all orders) x 17 import forms (plain, `type`, both in either order, `as`, mixed) x no local type or a local `type L {{ C }}` (names from {{A, B}}; combinations Gleam itself rejects as duplicate are skipped) x {{nothing, a parameter, a function}} spelled like the module accessor - each with value, pattern, annotation, module-qualified and constant-initialiser uses of both spellings; every program with the exporting module at `m`, at `d/m`, at `d/m` beside an unimported copy `m`, and at `d/e/m` beside unimported copies `m` and `e/m`", progs.len());
    rep.layer(l);
}

/// Completions after `module.` and `value.` (trigger character '.').
fn dot_layer(rep: &mut Report) {
    let m_text = "pub fn x() { 0 }\npub fn z(a) { a }\npub const y = 1\nfn hidden() { 0 }\npub type T { T(inner: Int) U }\ntype P { P }\n";
    let cases: Vec<(&str, String, &str, Vec<&str>, Vec<&str>)> = vec![
        // (name, main text, needle after which the cursor sits, must offer, may additionally offer)
        ("module-dot", "import m\npub fn main() { m.x() }\n".into(), "m.", vec!["x", "z", "T", "U"], vec![]),
        ("module-dot-alias", "import m as n\npub fn main() { n.x() }\n".into(), "n.", vec!["x", "z", "T", "U"], vec![]),
        ("module-dot-nested-path", "import m\npub fn main() { let a = m.x() a }\n".into(), "m.", vec!["x", "z", "T", "U"], vec![]),
        ("value-dot", "type Rec { Rec(a: Int, b: String) Other(a: Int) }\npub fn main(r: Rec) { r.a }\n".into(), "r.", vec!["a"], vec!["b"]),
        ("value-dot-let", "type Rec { Rec(a: Int, b: String) }\npub fn main() { let r = Rec(1, \"s\") r.a }\n".into(), "r.", vec!["a", "b"], vec![]),
        ("value-dot-imported-type", "import m\npub fn main(t: m.T) { t.inner }\n".into(), "t.", vec![], vec!["inner"]),
    ];
    let mut n = 0u64;
    for (name, main, needle, must, may) in cases {
        let ws = Workspace::single(&[("main", &main), ("m", m_text)]);
        let files = ws.files();
        let host = ws.host();
        let an = host.snapshot();
        let off = main.rfind(needle).map(|i| i + needle.len()).unwrap_or(0);
        n += 1;
        match catch(|| an.completions(FilePos::new(files[0].id, (off as u32).into()), Some('.'))) {
            Ok(Ok(Some(items))) => {
                let offered: BTreeSet<String> = items.iter().map(|i| i.label.to_string()).collect();
                for m in &must {
                    if !offered.contains(*m) {
                        rep.violation(Violation { class: "dot-member-not-offered".into(), key: name.into(), witness: json!({"case": name, "main": main}), detail: format!("{name}: after `{needle}` the member `{m}` is not offered; offered {offered:?}") });
                    }
                }
                for o in &offered {
                    if !must.contains(&o.as_str()) && !may.contains(&o.as_str()) {
                        rep.violation(Violation { class: "dot-offers-foreign-name".into(), key: name.into(), witness: json!({"case": name, "main": main}), detail: format!("{name}: after `{needle}` `{o}` is offered but is not a public function/constructor of the module resp. a field of the value's type (private items and constants must not appear)") });
                    }
                }
            }
            other => rep.violation(Violation { class: "dot-no-completions".into(), key: name.into(), witness: json!({"case": name, "main": main}), detail: format!("{name}: completions after `{needle}`: {other:?}") }),
        }
    }
    rep.layer(Layer { name: "dot-completions".into(), states: n, transitions: n, executions: n, exhaustive: false, bound: "fixed programs: after `module.` (plain, aliased, in a let) exactly the public functions and constructors; after `value.` only fields of the value's type".into(), ..Default::default() });
}


/// `module.` completions over every module content: each subset of 8 item kinds x 3 import forms
/// x 4 cursor contexts; exactly the public functions and the constructors of public,
/// non-opaque types may be offered. `value.` over every layout of a 1-2 variant record type.
fn dot_grid_cases() -> Vec<(String, Vec<(String, String)>, usize, BTreeSet<String>, BTreeSet<String>)> {
    // (name, [(module name, text)], cursor offset in module 0, must offer, may offer)
    let items: [(&str, &[&str]); 8] = [
        ("pub fn pf() { 0 }", &["pf"]),
        ("fn qf() { 0 }", &[]),
        ("pub const pc = 1", &[]),
        ("const qc = 1", &[]),
        ("pub type PT { PA(i: Int) PB }", &["PA", "PB"]),
        ("type QT { QA QB(i: Int) }", &[]),
        ("pub type AL = Int", &[]),
        ("pub opaque type OT { OA }", &[]),
    ];
    let mut out = vec![];
    for mask in 0..256u32 {
        let mut m_text = String::new();
        let mut must = BTreeSet::new();
        for (k, (text, offered)) in items.iter().enumerate() {
            if mask & (1 << k) != 0 {
                m_text.push_str(text);
                m_text.push('\n');
                must.extend(offered.iter().map(|s| s.to_string()));
            }
        }
        for (iname, import, acc, mpath) in [("plain", "import m", "m", "m"), ("alias", "import m as n", "n", "m"), ("nested", "import d/m", "m", "d/m"), ("nested twice", "import d/e/m", "m", "d/e/m"), ("nested twice, alias", "import d/e/m as n", "n", "d/e/m")] {
            for (cname, body) in [("statement", "{ACC}."), ("let", "let a = {ACC}. a"), ("partial", "{ACC}.zz"), ("argument", "main({ACC}.)")] {
                let body = body.replace("{ACC}", acc);
                let main = format!("{import}\npub fn main() {{ {body} }}\n");
                let off = main.find(&format!("{acc}.")).map(|i| i + acc.len() + 1).unwrap_or(0);
                // the first occurrence of `acc.` may be in the import line for nested paths: take the one in the body
                let off = main.match_indices(&format!("{acc}.")).map(|(i, _)| i + acc.len() + 1).last().unwrap_or(off);
                out.push((format!("module-dot|items{mask:08b}|{iname}|{cname}"), vec![("main".to_string(), main), (mpath.to_string(), m_text.clone())], off, must.clone(), BTreeSet::new()));
            }
        }
    }
    // value.
    // field 2 is `a` again with another type: a label with conflicting types is no accessor
    let fields = [("a", "Int", "1"), ("b", "String", "\"s\""), ("a", "Float", "1.5")];
    let subsets: Vec<Vec<usize>> = vec![vec![], vec![0], vec![1], vec![0, 1]];
    let subsets2: Vec<Vec<usize>> = vec![vec![], vec![0], vec![1], vec![0, 1], vec![1, 0], vec![2], vec![2, 1]];
    for v1 in &subsets {
        for v2 in std::iter::once(None).chain(subsets2.iter().map(Some)) {
            let variant = |name: &str, fs: &Vec<usize>| if fs.is_empty() { name.to_string() } else { format!("{name}({})", fs.iter().map(|&k| format!("{}: {}", fields[k].0, fields[k].1)).collect::<Vec<_>>().join(", ")) };
            let ty = format!("pub type Rec {{ {} {} }}\npub type Other {{ Other(c: Int) }}\n", variant("V1", v1), v2.map(|f| variant("V2", f)).unwrap_or_default());
            let common: BTreeSet<String> = match v2 {
                None => v1.iter().map(|&k| fields[k].0.to_string()).collect(),
                Some(f2) => v1.iter().filter(|k| f2.contains(k)).map(|&k| fields[k].0.to_string()).collect(),
            };
            let ctor = if v1.is_empty() { "V1".to_string() } else { format!("V1({})", v1.iter().map(|&k| fields[k].2).collect::<Vec<_>>().join(", ")) };
            let tag = format!("v1{:?}v2{:?}", v1, v2);
            let local_param = format!("{ty}pub fn main(r: Rec, o: Other) {{ r. }}\n");
            out.push((format!("value-dot|{tag}|parameter"), vec![("main".to_string(), local_param.clone())], local_param.find("r. ").unwrap() + 2, common.clone(), BTreeSet::new()));
            let local_let = format!("{ty}pub fn main(o: Other) {{ let r = {ctor} r. }}\n");
            out.push((format!("value-dot|{tag}|let"), vec![("main".to_string(), local_let.clone())], local_let.rfind("r. ").unwrap() + 2, common.clone(), BTreeSet::new()));
            let imported = "import m\npub fn main(r: m.Rec, o: m.Other) { r. }\n".to_string();
            out.push((format!("value-dot|{tag}|imported"), vec![("main".to_string(), imported.clone()), ("m".to_string(), ty.clone())], imported.find("r. ").unwrap() + 2, common.clone(), BTreeSet::new()));
        }
    }
    out
}

fn eval_dot_case(mods: &[(String, String)], off: usize, must: &BTreeSet<String>, may: &BTreeSet<String>) -> Vec<(String, String)> {
    let refs: Vec<(&str, &str)> = mods.iter().map(|(n, t)| (n.as_str(), t.as_str())).collect();
    let ws = Workspace::single(&refs);
    let files = ws.files();
    let host = ws.host();
    let an = host.snapshot();
    let mut out = vec![];
    match catch(|| an.completions(FilePos::new(files[0].id, (off as u32).into()), Some('.'))) {
        Ok(Ok(items)) => {
            let offered: BTreeSet<String> = items.unwrap_or_default().iter().filter(|i| i.kind != ide::CompletionItemKind::Keyword).map(|i| i.label.to_string()).collect();
            for m in must.difference(&offered) {
                out.push(("dot-member-not-offered".to_string(), format!("`{m}` is not offered; offered {offered:?}")));
            }
            for o in &offered {
                if !must.contains(o) && !may.contains(o) {
                    out.push(("dot-offers-foreign-name".to_string(), format!("`{o}` is offered; allowed {:?}", must.union(may).collect::<Vec<_>>())));
                }
            }
        }
        other => out.push(("dot-no-completions".to_string(), format!("{other:?}"))),
    }
    out
}

fn dot_grid_layer(rep: &mut Report) {
    let cases = dot_grid_cases();
    let res: Vec<Vec<Violation>> = cases
        .par_iter()
        .map(|(name, mods, off, must, may)| {
            eval_dot_case(mods, *off, must, may)
                .into_iter()
                .map(|(class, detail)| {
                    // key: what kind of name is wrong, not which of the 256 modules shows it
                    let what = detail.split('`').nth(1).unwrap_or("").to_string();
                    let parts: Vec<&str> = name.split('|').collect();
                    let key = if parts[0] == "module-dot" { format!("module-dot|{what}|{}|{}", parts[2], parts[3]) } else { format!("value-dot|{what}|{}", parts[2]) };
                    Violation { class, key, witness: json!({"dot_case": name}), detail: format!("[{name}] {}: {detail}", mods[0].1.trim().replace('\n', " / ")) }
                })
                .collect()
        })
        .collect();
    let mut l = Layer { name: "dot-completions-grid".into(), exhaustive: true, ..Default::default() };
    for v in res {
        l.states += 1;
        l.executions += 1;
        l.transitions += 1;
        for x in v {
            rep.violation(x);
        }
    }
    l.bound = format!("{} completions triggered by '.': after `module.` every subset of 8 item kinds (pub/private function, pub/private constant, pub/private/opaque custom type, pub alias) x 5 import forms (plain, `as`, path of 2 and of 3 segments, 3 segments with `as`) x 4 cursor contexts (statement, let value, before a partial name, call argument) - exactly the public functions and the constructors of public non-opaque types; after `value.` every layout of a record type with 1-2 variants over fields {{a: Int, b: String, a: Float}} (subsets, both orders) x (annotated parameter, let-bound construction, type imported from another module) - exactly the fields common to all variants (the accessors Gleam defines for the type)", cases.len());
    rep.layer(l);
}


/// Unqualified imports over every module content with shared spellings: a type `X` (public,
/// private or opaque) with one constructor spelled `X`, `Y` or `P`, optionally a second type `Y`
/// with a constructor spelled `X`, `Y` or `Q`, functions and constants (absent, public, private);
/// each declared spelling imported by name (with and without `as`, and as `type`). At an
/// expression position the imported name is offered exactly when the module exports a *value*
/// under that spelling.
fn unqualified_import_cases() -> Vec<(String, Vec<(String, String)>, usize, String, bool)> {
    // (name, modules, cursor offset in main, local name, must be offered (else: must not))
    let vis = [("pub", "pub type"), ("private", "type"), ("opaque", "pub opaque type")];
    let mut out = vec![];
    for (v1n, v1) in vis {
        for c1 in ["X", "Y", "P"] {
            let mut seconds: Vec<Option<(&str, &str, &str)>> = vec![None];
            for (v2n, v2) in vis {
                for c2 in ["X", "Y", "Q"] {
                    if c2 != c1 {
                        seconds.push(Some((v2n, v2, c2)));
                    }
                }
            }
            for second in seconds {
                for (fvn, fv) in [("none", None), ("pub", Some("pub ")), ("private", Some(""))] {
                    let mut m = format!("{v1} X {{ {c1}(Int) }}\n");
                    // spelling -> is there a public value
                    let mut values: Vec<(&str, bool)> = vec![(c1, v1n == "pub")];
                    let mut spellings: BTreeSet<&str> = ["X", c1].into_iter().collect();
                    if let Some((v2n, v2, c2)) = second {
                        m.push_str(&format!("{v2} Y {{ {c2}(Int) }}\n"));
                        values.push((c2, v2n == "pub"));
                        spellings.insert("Y");
                        spellings.insert(c2);
                    }
                    if let Some(fv) = fv {
                        m.push_str(&format!("{fv}fn f() {{ 0 }}\n{fv}const k = 1\n"));
                        values.push(("f", fvn == "pub"));
                        values.push(("k", fvn == "pub"));
                        spellings.insert("f");
                        spellings.insert("k");
                    }
                    let tag = format!("X:{v1n}:{c1}|Y:{}|fk:{fvn}", second.map(|s| format!("{}:{}", s.0, s.2)).unwrap_or("none".into()));
                    for sp in &spellings {
                        let upper = sp.chars().next().unwrap().is_ascii_uppercase();
                        let alias = if upper { "Al" } else { "al" };
                        let public_value = values.iter().any(|(n, p)| n == sp && *p);
                        let mut entries = vec![(format!("{sp}"), sp.to_string(), public_value), (format!("{sp} as {alias}"), alias.to_string(), public_value)];
                        if upper {
                            entries.push((format!("type {sp}"), sp.to_string(), false));
                            entries.push((format!("type {sp} as {alias}"), alias.to_string(), false));
                        }
                        for (entry, local, must) in entries {
                            let first = &local[..1];
                            for (cname, tpl) in [("statement", "{P}"), ("argument", "main({P})"), ("let value", "let a = {P} a")] {
                                let body = tpl.replace("{P}", first);
                                let main = format!("import m.{{{entry}}}\npub fn main() {{ {body} }}\n");
                                let off = main.rfind(&body).unwrap() + tpl.find("{P}").unwrap() + first.len();
                                out.push((format!("unqualified-import|{tag}|{entry}|{cname}"), vec![("main".to_string(), main), ("m".to_string(), m.clone())], off, local.clone(), must));
                            }
                        }
                    }
                }
            }
        }
    }
    out
}

fn eval_unqualified_import(mods: &[(String, String)], off: usize, local: &str, must: bool) -> Vec<(String, String)> {
    let refs: Vec<(&str, &str)> = mods.iter().map(|(n, t)| (n.as_str(), t.as_str())).collect();
    let ws = Workspace::single(&refs);
    let files = ws.files();
    let host = ws.host();
    let an = host.snapshot();
    match catch(|| an.completions(FilePos::new(files[0].id, (off as u32).into()), None)) {
        Ok(Ok(items)) => {
            let items = items.unwrap_or_default();
            let offered: BTreeSet<String> = items.iter().filter(|i| i.kind != ide::CompletionItemKind::Keyword).map(|i| i.label.to_string()).collect();
            match (must, offered.contains(local)) {
                (true, false) => vec![("imported-value-not-offered".to_string(), format!("`{local}` is not offered; offered {offered:?}"))],
                (false, true) => vec![("offers-name-that-is-no-exported-value".to_string(), format!("`{local}` is offered, the module exports no value under the imported spelling"))],
                (true, true) => {
                    // accept it: what is inserted must resolve to a declaration of the exporting module
                    let Some(it) = items.iter().find(|i| i.kind != ide::CompletionItemKind::Keyword && i.label.as_str() == local) else { return vec![] };
                    let (rs, re) = (u32::from(it.source_range.start()) as usize, u32::from(it.source_range.end()) as usize);
                    let inserted = it.replace.to_string();
                    let mut main2 = mods[0].1.clone();
                    if re > main2.len() || rs > re {
                        return vec![("replace-range".to_string(), format!("item `{local}` replaces {rs}..{re}, outside the document"))];
                    }
                    main2.replace_range(rs..re, &inserted);
                    let mods2: Vec<(String, String)> = std::iter::once((mods[0].0.clone(), main2)).chain(mods.iter().skip(1).cloned()).collect();
                    let refs2: Vec<(&str, &str)> = mods2.iter().map(|(n, t)| (n.as_str(), t.as_str())).collect();
                    let ws2 = Workspace::single(&refs2);
                    let files2 = ws2.files();
                    let host2 = ws2.host();
                    let an2 = host2.snapshot();
                    match catch(|| an2.goto_definition(FilePos::new(files2[0].id, (rs as u32).into()))) {
                        Ok(Ok(Some(ide::GotoDefinitionResult::Targets(ts)))) if ts.iter().any(|t| t.file_id == files2[1].id) => vec![],
                        Ok(Ok(Some(ide::GotoDefinitionResult::Targets(ts)))) => vec![("accepted-import-does-not-resolve".to_string(), format!("accepting `{local}` inserts `{inserted}`, which lands in {:?}, not in the exporting module", ts.iter().map(|t| t.file_id).collect::<Vec<_>>()))],
                        Ok(Ok(_)) => vec![("accepted-import-does-not-resolve".to_string(), format!("accepting `{local}` inserts `{inserted}`, which resolves to nothing"))],
                        other => vec![("accepted-import-does-not-resolve".to_string(), format!("accepting `{local}` inserts `{inserted}`: {other:?}"))],
                    }
                }
                _ => vec![],
            }
        }
        other => vec![("completion-failed".to_string(), format!("{other:?}"))],
    }
}

fn unqualified_import_layer(rep: &mut Report) {
    let cases = unqualified_import_cases();
    let res: Vec<Vec<Violation>> = cases
        .par_iter()
        .map(|(name, mods, off, local, must)| {
            eval_unqualified_import(mods, *off, local, *must)
                .into_iter()
                .map(|(class, detail)| {
                    let parts: Vec<&str> = name.split('|').collect();
                    // key: the declarations sharing the imported spelling and the entry form
                    Violation { class, key: format!("unqualified-import|{}|{}", parts[4], parts[5]), witness: json!({"unqualified_import": name}), detail: format!("[{name}] {} // m: {}: {detail}", mods[0].1.trim().replace('\n', " / "), mods[1].1.trim().replace('\n', " / ")) }
                })
                .collect()
        })
        .collect();
    let mut l = Layer { name: "unqualified-imports-grid".into(), exhaustive: true, ..Default::default() };
    let mut musts = 0u64;
    for (v, c) in res.into_iter().zip(&cases) {
        l.states += 1;
        l.executions += 1;
        l.transitions += 1;
        musts += c.4 as u64;
        for x in v {
            rep.violation(x);
        }
    }
    rep.guard(musts > 100 && musts < l.states, "unqualified-imports grid has offered and not-offered cases");
    l.bound = format!("{} completions at an expression position of a module importing one name unqualified: every module content over a type `X` (public / private / opaque) with a constructor spelled X, Y or P, an optional second type `Y` (same visibilities) with a constructor spelled X, Y or Q, functions and constants (absent / public / private) x every declared spelling imported plain, with `as`, and as `type` x 3 cursor contexts; the imported name is offered exactly when the module exports a value under that spelling ({} offered, {} not); an offered name is accepted (its `replace` text inserted) and must then resolve into the exporting module", cases.len(), musts, l.states - musts);
    rep.layer(l);
}

/// What is being typed may spell a keyword or the beginning of one (`use` on the way to `user`):
/// every offered value name must still replace exactly the typed token.
fn typed_prefix_cases() -> Vec<(String, String, usize, usize)> {
    let mut prefixes: BTreeSet<String> = BTreeSet::new();
    for k in crate::core::alphabet::KEYWORDS {
        for i in 1..=k.len() {
            prefixes.insert(k[..i].to_string());
        }
    }
    for p in ["u", "us", "user", "n", "xy", "usex", "lets", "a1"] {
        prefixes.insert(p.to_string());
    }
    let mut out = vec![];
    for p in &prefixes {
        for (cname, tpl) in [("statement", "{P}"), ("operand", "n + {P}"), ("argument", "main({P}, 1, 2)"), ("let value", "let a = {P} a"), ("list element", "[n, {P}]")] {
            let body = tpl.replace("{P}", p);
            let text = format!("pub fn main(n, user_name, used) {{ {body} }}\n");
            let s = text.find(&body).unwrap() + tpl.find("{P}").unwrap();
            out.push((format!("typed-prefix|{p}|{cname}"), text, s, s + p.len()));
        }
    }
    out
}

fn eval_typed_prefix(text: &str, s: usize, e: usize) -> Vec<(String, String)> {
    let (host, file) = ide::AnalysisHost::new_single_file(text);
    let an = host.snapshot();
    let mut out = vec![];
    match catch(|| an.completions(FilePos::new(file, (e as u32).into()), None)) {
        Ok(Ok(items)) => {
            for it in items.unwrap_or_default().iter().filter(|i| i.kind != ide::CompletionItemKind::Keyword) {
                let (rs, re) = (u32::from(it.source_range.start()) as usize, u32::from(it.source_range.end()) as usize);
                if (rs, re) != (s, e) {
                    out.push(("replace-range".to_string(), format!("item `{}` replaces {rs}..{re} ({:?}), the token being typed is {s}..{e} ({:?})", it.label, text.get(rs..re).unwrap_or("?"), &text[s..e])));
                    break;
                }
            }
        }
        other => out.push(("completion-failed".to_string(), format!("{other:?}"))),
    }
    out
}

fn typed_prefix_layer(rep: &mut Report) {
    let cases = typed_prefix_cases();
    let mut l = Layer { name: "typed-prefixes".into(), exhaustive: true, ..Default::default() };
    for (name, text, s, e) in &cases {
        l.states += 1;
        l.executions += 1;
        l.transitions += 1;
        for (class, detail) in eval_typed_prefix(text, *s, *e) {
            let parts: Vec<&str> = name.split('|').collect();
            let kw = crate::core::alphabet::KEYWORDS.contains(&parts[1]);
            rep.violation(Violation { class, key: format!("typed-prefix|{}|{}", if kw { format!("keyword `{}`", parts[1]) } else { "not a keyword".to_string() }, parts[2]), witness: json!({"typed_prefix": name}), detail: format!("[{name}] {}: {detail}", text.trim()) });
        }
    }
    l.bound = format!("{} completions: every non-empty prefix of the 15 keywords (the keywords themselves included) and 8 other spellings, typed as a statement, an operand, a call argument, a let value and a list element: every offered value name replaces exactly the typed token", cases.len());
    rep.layer(l);
}

pub fn replay(which: Which, w: &Value) -> Vec<String> {
    if w.get("case").is_some() {
        let mut rep = Report::new("C18", Tier::Quick);
        dot_layer(&mut rep);
        return rep.violations.iter().filter(|v| Some(v.key.as_str()) == w["case"].as_str()).map(|v| v.detail.clone()).collect();
    }
    if let Some(name) = w["shadowing_program"].as_str() {
        let mut rep = Report::new("C05", Tier::Quick);
        shadowing_locals_layer(&mut rep);
        let kind_of = |v: &Violation| v.witness["shadowing_program"].as_str().map(|n| n.split('|').take(3).collect::<Vec<_>>().join("|"));
        let want = name.split('|').take(3).collect::<Vec<_>>().join("|");
        return rep.violations.iter().filter(|v| kind_of(v).as_deref() == Some(want.as_str())).map(|v| v.detail.clone()).collect();
    }
    if let Some(name) = w["typed_prefix"].as_str() {
        let Some((_, text, s, e)) = typed_prefix_cases().into_iter().find(|c| c.0 == name) else { return vec!["unknown typed-prefix case".into()] };
        return eval_typed_prefix(&text, s, e).into_iter().map(|(c, d)| format!("{c}: {d}")).collect();
    }
    if let Some(name) = w["unqualified_import"].as_str() {
        let Some((_, mods, off, local, must)) = unqualified_import_cases().into_iter().find(|c| c.0 == name) else { return vec!["unknown unqualified-import case".into()] };
        return eval_unqualified_import(&mods, off, &local, must).into_iter().map(|(c, d)| format!("{c}: {d}")).collect();
    }
    if let Some(name) = w["dot_case"].as_str() {
        let Some((_, mods, off, must, may)) = dot_grid_cases().into_iter().find(|c| c.0 == name) else { return vec!["unknown dot case".into()] };
        return eval_dot_case(&mods, off, &must, &may).into_iter().map(|(c, d)| format!("{c}: {d}")).collect();
    }
    if let Some(name) = w["namespace_program"].as_str() {
        let (base_name, pname) = name.split_once('@').unwrap_or((name, "m"));
        let Some((_, mods)) = namespace_programs().into_iter().find(|(n, _)| n == base_name) else { return vec!["unknown namespace program".into()] };
        let mods = MODULE_PATHS.iter().find(|p| p.0 == pname).map(|(_, path, decoys)| repath(&mods, path, decoys)).unwrap_or(mods);
        return eval_program(which, &mods, Layout::Space).2.into_iter().map(|(c, _, d)| format!("{c}: {d}")).collect();
    }
    // rebuild the program from (context, skeleton, assignment)
    let ctxs = contexts();
    let Some(ctx) = ctxs.iter().find(|c| Some(format!("{c:?}").as_str()) == w["context"].as_str()) else { return vec!["unknown context".into()] };
    let sks = skeletons(Tier::Thorough);
    let Some(sk) = sks.iter().find(|s| Some(format!("{s:?}").as_str()) == w["skeleton"].as_str()) else { return vec!["unknown skeleton".into()] };
    let assign: Vec<u8> = w["assignment"].as_array().map(|a| a.iter().filter_map(|x| x.as_u64()).map(|x| x as u8).collect()).unwrap_or_default();
    let mut c = Ctx::new(assign);
    c.wrap = w["wrap"].as_u64().unwrap_or(0) as u8;
    let Some(mods) = scopegen::program(*ctx, sk, &mut c) else { return vec![] };
    eval_program(which, &mods, Layout::Space).2.into_iter().map(|(c, _, d)| format!("{c}: {d}")).collect()
}
