//! C07 (rename to a fresh name preserves meaning) and C08 (rename refuses invalid names,
//! foreign symbols and ambiguous spellings): exhaustive over every identifier occurrence of the
//! base workspaces (C07) and over the finite product symbol kind x candidate name x locality (C08).
use crate::ana::sweep::{FRESH_LOWER, FRESH_UPPER};
use crate::ana::ws::{FileInfo, Workspace, WsFile, WsPackage};
use crate::core::{catch, panic_class, Layer, Report, Tier, Violation};
use crate::props::ide_sweep::base_workspaces;
use ide::{Analysis, FileId, FilePos, GotoDefinitionResult};
use rayon::prelude::*;
use serde_json::{json, Value};
use std::collections::{BTreeMap, BTreeSet};
use syntax::SyntaxKind;

fn occurrences(text: &str) -> Vec<(u32, u32, String)> {
    let p = syntax::parse_module(text);
    p.syntax_node()
        .descendants_with_tokens()
        .filter_map(|e| e.into_token())
        .filter(|t| matches!(t.kind(), SyntaxKind::IDENT | SyntaxKind::U_IDENT))
        .map(|t| (u32::from(t.text_range().start()), u32::from(t.text_range().end()), t.text().to_string()))
        .collect()
}

type Edits = BTreeMap<FileId, Vec<(u32, u32, String)>>;

fn rename_edits(an: &Analysis, file: FileId, off: u32, name: &str) -> Result<Result<Edits, String>, String> {
    catch(|| an.rename(FilePos::new(file, off.into()), name)).map(|r| match r {
        Ok(Ok(ws)) => {
            let mut m: Edits = BTreeMap::new();
            for (f, es) in ws.content_edits {
                let v = m.entry(f).or_default();
                for e in es {
                    v.push((u32::from(e.delete.start()), u32::from(e.delete.end()), e.insert.to_string()));
                }
                v.sort();
            }
            Ok(m)
        }
        Ok(Err(e)) => Err(e),
        Err(_) => Err("cancelled".into()),
    })
}

fn phi(edits: &[(u32, u32, String)], p: u32) -> u32 {
    let mut d: i64 = 0;
    for (s, e, ins) in edits {
        if *e <= p {
            d += ins.len() as i64 - (*e as i64 - *s as i64);
        }
    }
    (p as i64 + d) as u32
}

fn apply_edits(text: &str, edits: &[(u32, u32, String)]) -> String {
    let mut out = text.to_string();
    let mut es = edits.to_vec();
    es.sort();
    for (s, e, ins) in es.iter().rev() {
        out.replace_range(*s as usize..*e as usize, ins);
    }
    out
}

fn goto_of(an: &Analysis, file: FileId, off: u32) -> Option<(FileId, u32, u32)> {
    match catch(|| an.goto_definition(FilePos::new(file, off.into()))) {
        Ok(Ok(Some(GotoDefinitionResult::Targets(ts)))) if ts.len() == 1 => Some((ts[0].file_id, u32::from(ts[0].focus_range.start()), u32::from(ts[0].focus_range.end()))),
        _ => None,
    }
}

fn refs_of(an: &Analysis, file: FileId, off: u32) -> Option<Vec<(FileId, u32, u32)>> {
    match catch(|| an.references(FilePos::new(file, off.into()))) {
        Ok(Ok(Some(v))) => {
            let mut v: Vec<_> = v.into_iter().map(|r| (r.file_id, u32::from(r.range.start()), u32::from(r.range.end()))).collect();
            v.sort();
            Some(v)
        }
        _ => None,
    }
}

fn diags_of(an: &Analysis, file: FileId) -> Vec<(u32, u32, String)> {
    match catch(|| an.diagnostics(file)) {
        Ok(Ok(d)) => d.into_iter().map(|x| (u32::from(x.range.start()), u32::from(x.range.end()), format!("{:?}", x.kind))).collect(),
        _ => vec![],
    }
}

/// C07 oracle for one accepted rename. Returns (class, detail) failures.
fn c07_check(ws: &Workspace, files: &[FileInfo], an: &Analysis, fi: usize, off: u32, old: &str, new: &str, edits: &Edits) -> Vec<(String, String)> {
    let mut out = vec![];
    let f = &files[fi];
    // (a) edits replace whole identifier tokens spelled with the old name; pairwise disjoint
    for (file, es) in edits {
        let Some(fx) = files.iter().find(|x| x.id == *file) else {
            out.push(("edit-foreign-file".into(), format!("edit in a file that is not part of the workspace: {file:?}")));
            continue;
        };
        let occ = occurrences(&fx.text);
        for w in es.windows(2) {
            if w[0].1 > w[1].0 {
                out.push(("edits-overlap".into(), format!("edits {:?} and {:?} overlap in {}", w[0], w[1], fx.rel)));
            }
        }
        for (s, e, ins) in es {
            if ins != new {
                out.push(("edit-wrong-insert".into(), format!("edit inserts {ins:?}, expected {new:?}")));
            }
            match occ.iter().find(|o| o.0 == *s && o.1 == *e) {
                Some(o) if o.2 == old => {}
                Some(o) => out.push(("edit-other-spelling".into(), format!("edit {s}..{e} in {} replaces {:?}, which is not spelled {old:?}", fx.rel, o.2))),
                None => out.push(("edit-not-a-token".into(), format!("edit {s}..{e} in {} ({:?}) is not one identifier token", fx.rel, fx.text.get(*s as usize..*e as usize)))),
            }
        }
    }
    // (b) edits = references
    let refs = refs_of(an, f.id, off).unwrap_or_default();
    let mut es: Vec<(FileId, u32, u32)> = edits.iter().flat_map(|(f, v)| v.iter().map(move |e| (*f, e.0, e.1))).collect();
    es.sort();
    if es != refs {
        out.push(("edits-differ-from-references".into(), format!("rename at {}:{off} edits {es:?} but references are {refs:?}", f.rel)));
    }
    if !out.is_empty() {
        return out;
    }
    // (c),(d) re-analyse the edited workspace
    let mut ws2 = ws.clone();
    for fx in files.iter().filter(|x| x.rel != "gleam.toml") {
        let e = edits.get(&fx.id).cloned().unwrap_or_default();
        let nt = apply_edits(&fx.text, &e);
        for p in ws2.packages.iter_mut() {
            for wf in p.files.iter_mut() {
                if wf.text == fx.text && format!("{}", wf.rel) == fx.rel {
                    wf.text = nt.clone();
                }
            }
        }
    }
    let files2 = ws2.files();
    let host2 = ws2.host();
    let an2 = host2.snapshot();
    let none = vec![];
    for fx in files.iter().filter(|x| x.is_module) {
        let e_here = edits.get(&fx.id).unwrap_or(&none);
        for (s, _e, t) in occurrences(&fx.text) {
            let g = goto_of(an, fx.id, s);
            let g2 = goto_of(&an2, fx.id, phi(e_here, s));
            let mapped = g.map(|(tf, a, b)| {
                let et = edits.get(&tf).unwrap_or(&none);
                (tf, phi(et, a), phi(et, b))
            });
            if mapped != g2 {
                out.push(("binding-changed".into(), format!("after renaming {old:?} at {}:{off} to {new:?}: occurrence {t:?} at {}:{s} resolved to {g:?} before (expected {mapped:?} after) but resolves to {g2:?}", f.rel, fx.rel)));
                if out.len() > 3 {
                    return out;
                }
            }
        }
        let d1: Vec<_> = diags_of(an, fx.id).into_iter().map(|(a, b, k)| (phi(e_here, a), phi(e_here, b), k)).collect();
        let d2 = diags_of(&an2, fx.id);
        if d1 != d2 {
            out.push(("errors-changed".into(), format!("diagnostics of {} changed by the rename: {d1:?} -> {d2:?}", fx.rel)));
        }
    }
    // (e) rename back
    let e_here = edits.get(&f.id).unwrap_or(&none);
    match rename_edits(&an2, f.id, phi(e_here, off), old) {
        Ok(Ok(back)) => {
            for fx in files2.iter().filter(|x| x.rel != "gleam.toml") {
                let e = back.get(&fx.id).cloned().unwrap_or_default();
                let restored = apply_edits(&fx.text, &e);
                let orig = &files.iter().find(|o| o.id == fx.id).unwrap().text;
                if &restored != orig {
                    out.push(("round-trip".into(), format!("renaming back to {old:?} does not restore {}", fx.rel)));
                }
            }
        }
        other => out.push(("round-trip".into(), format!("renaming back to {old:?} at {}:{} was not accepted: {other:?}", f.rel, phi(e_here, off)))),
    }
    out
}

fn kind_key(text: &str, off: u32) -> String {
    let p = syntax::parse_module(text);
    let Some(t) = p.syntax_node().token_at_offset(off.into()).right_biased() else { return "?".into() };
    t.parent_ancestors().take(3).map(|n| format!("{:?}", n.kind())).collect::<Vec<_>>().join("<")
}


/// A library and several byte-identical client modules: every reference of a library symbol
/// sits at the same offsets in each client (copied / templated modules).
pub fn templated_workspace() -> Workspace {
    // `tag` is declared by two of the three constructors (not a common field), `v` by two
    // constructors with different types
    let lib = "pub type Shape {\n  Circle(radius: Int, tag: String)\n  Square(side: Int, tag: String)\n  Blob\n}\n\npub type Value {\n  IntValue(v: Int)\n  TextValue(v: String)\n}\n\npub const unit = 1\n\npub fn area(s: Shape) -> Int {\n  case s {\n    Circle(radius: r, tag: _) -> r * r * 3\n    Square(side: x, tag: t) -> x * x\n    Blob -> 0\n  }\n}\n\npub fn show(x: Value) -> String {\n  case x {\n    IntValue(v: _) -> \"i\"\n    TextValue(v: t) -> t\n  }\n}\n\npub fn toggle(flag: Bool, count: Int, label: String) -> Int {\n  case !flag {\n    True -> 0 - -count\n    False -> panic as label\n  }\n}\n";
    let client = "import lib.{type Shape, Circle, Square, TextValue, area}\nimport lib as l\n\npub fn run(s: Shape) -> Int {\n  let c = Circle(radius: l.unit, tag: \"c\")\n  let q = Square(side: 2, tag: \"q\")\n  let w = TextValue(v: \"w\")\n  area(c) + l.area(s) + area(q) + c.radius\n}\n";
    Workspace {
        packages: vec![WsPackage {
            name: "app".into(),
            files: vec![
                WsFile { rel: "src/lib.gleam".into(), text: lib.into() },
                WsFile { rel: "src/client_a.gleam".into(), text: client.into() },
                WsFile { rel: "src/client_b.gleam".into(), text: client.into() },
                WsFile { rel: "src/deep/client_c.gleam".into(), text: client.into() },
                // files whose very last token is a reference (no trailing newline)
                WsFile { rel: "src/tail_type.gleam".into(), text: "import lib.{type Shape}\n\npub type Figure = Shape".into() },
                WsFile { rel: "src/tail_const.gleam".into(), text: "import lib as l\n\npub const cap = l.unit".into() },
                WsFile { rel: "src/tail_fn.gleam".into(), text: "import lib.{area}\n\npub const measure = area".into() },
                // locals spelled like the imported module (bound by let, by a clause pattern, by use)
                // as the base of a field access: the label is the field, the base the local
                WsFile { rel: "src/shadow.gleam".into(), text: "import lib\n\npub type Conf {\n  MkConf(port: Int, host: String)\n}\n\npub fn start(conf: Conf) -> Int {\n  let lib = conf\n  lib.port\n}\n\npub fn pick(confs: List(Conf)) -> String {\n  case confs {\n    [lib, ..] -> lib.host\n    _ -> \"\"\n  }\n}\n\npub fn using(giver: fn(fn(Conf) -> Int) -> Int) -> Int {\n  use lib <- giver\n  lib.port\n}\n\npub fn total(c: Conf) -> Int {\n  lib.area(lib.Blob) + c.port\n}\n".into() },
            ],
            deps: vec![],
            is_local: true,
        }],
    }
}

/// Names of the templated workspace that denote ONE entity wherever they are spelled (no
/// shadowing, no second declaration): a rename started at any occurrence must be accepted and
/// edit every occurrence - an oracle that does not ask the analysis.
const TEMPLATE_UNIQUE: &[&str] = &["Circle", "Square", "Blob", "IntValue", "TextValue", "Shape", "Value", "unit", "area", "show", "toggle", "flag", "count", "label", "side", "Conf", "MkConf", "port", "host", "start", "pick", "using", "total", "conf", "confs", "giver"];

/// The templated workspace under name substitutions: constructors and types spelled like the
/// built-in ones (`Ok`, `Error`, `Nil`, `True`, `False`, `Result`, `Bool`), which a module may declare.
pub fn templated_variants() -> Vec<(String, Workspace, Vec<String>)> {
    let substitutions: Vec<(&str, Vec<(&str, &str)>)> = vec![
        ("templated", vec![]),
        ("templated@constructors Ok Error Nil", vec![("Circle", "Ok"), ("Square", "Error"), ("Blob", "Nil")]),
        ("templated@constructors True False", vec![("IntValue", "True"), ("TextValue", "False")]),
        ("templated@types Result Bool", vec![("Shape", "Result"), ("Value", "Bool")]),
        ("templated@type and constructor share a spelling", vec![("Shape", "Circle"), ("Value", "IntValue")]),
    ];
    let base = templated_workspace();
    substitutions
        .into_iter()
        .map(|(name, subst)| {
            let mut ws = base.clone();
            let rename = |t: &str| -> String {
                let mut out = String::new();
                let mut last = 0usize;
                for (s, e, tok) in occurrences(t) {
                    out.push_str(&t[last..s as usize]);
                    out.push_str(subst.iter().find(|(a, _)| *a == tok).map(|(_, b)| *b).unwrap_or(&tok));
                    last = e as usize;
                }
                out.push_str(&t[last..]);
                out
            };
            for p in ws.packages.iter_mut() {
                for f in p.files.iter_mut() {
                    f.text = rename(&f.text);
                }
            }
            // a spelling shared by a type and a constructor denotes two entities: not unique
            let mapped: Vec<String> = TEMPLATE_UNIQUE.iter().map(|u| subst.iter().find(|(a, _)| a == u).map(|(_, b)| b.to_string()).unwrap_or(u.to_string())).collect();
            let unique: Vec<String> = mapped.iter().filter(|u| mapped.iter().filter(|x| x == u).count() == 1).cloned().collect();
            (name.to_string(), ws, unique)
        })
        .collect()
}

/// Coverage by construction on the templated workspaces.
fn templated_coverage_layer(rep: &mut Report) {
    let mut l = Layer { name: "templated-coverage".into(), exhaustive: true, ..Default::default() };
    let variants = templated_variants();
    for (name, ws, unique) in &variants {
        let files = ws.files();
        let host = ws.host();
        let an = host.snapshot();
        for u in unique {
            // every occurrence of the spelling, in every module
            let mut all: BTreeMap<FileId, Vec<(u32, u32)>> = BTreeMap::new();
            for f in files.iter().filter(|f| f.is_module) {
                for (s, e, t) in occurrences(&f.text) {
                    if t == *u {
                        all.entry(f.id).or_default().push((s, e));
                    }
                }
            }
            let fresh = if u.chars().next().map_or(false, |c| c.is_uppercase()) { FRESH_UPPER } else { FRESH_LOWER };
            for f in files.iter().filter(|f| f.is_module) {
                for (s, _) in all.get(&f.id).cloned().unwrap_or_default() {
                    l.states += 1;
                    l.executions += 1;
                    l.transitions += 1;
                    let w = json!({"templated_variant": name, "file": f.rel, "offset": s, "name": u});
                    match rename_edits(&an, f.id, s, fresh) {
                        Err(m) => rep.violation(Violation { class: "panic".into(), key: panic_class(&m), witness: w, detail: format!("[{name}] rename of {u} at {}:{s} panicked: {m}", f.rel) }),
                        Ok(Err(e)) => rep.violation(Violation { class: "rename-refused".into(), key: format!("templated|{}|{}", name.split('@').nth(1).unwrap_or("plain"), kind_key(&f.text, s)), witness: w, detail: format!("[{name}] rename of `{u}` at {}:{s} is refused ({e}); the spelling denotes one declared entity of the workspace", f.rel) }),
                        Ok(Ok(edits)) => {
                            let got: BTreeMap<FileId, Vec<(u32, u32)>> = edits.iter().map(|(k, v)| (*k, v.iter().map(|e| (e.0, e.1)).collect())).filter(|(_, v): &(FileId, Vec<(u32, u32)>)| !v.is_empty()).collect();
                            if got != all {
                                let count = |m: &BTreeMap<FileId, Vec<(u32, u32)>>| m.values().map(|v| v.len()).sum::<usize>();
                                rep.violation(Violation { class: "rename-misses-occurrences".into(), key: format!("templated|{}|{}", name.split('@').nth(1).unwrap_or("plain"), kind_key(&f.text, s)), witness: w, detail: format!("[{name}] rename of `{u}` started at {}:{s} edits {} places, the spelling occurs {} times and denotes one entity everywhere", f.rel, count(&got), count(&all)) });
                            }
                        }
                    }
                }
            }
        }
    }
    l.bound = format!("{} variants of the templated workspace (plain; constructors spelled Ok / Error / Nil; True / False; types spelled Result / Bool; a type spelled like a constructor of another type) x every name that denotes a single entity x every occurrence of it in 8 modules (fields included; one module binds locals spelled like an imported module by let / clause pattern / use and accesses their fields): the rename is accepted and edits exactly all occurrences of the spelling", variants.len());
    rep.layer(l);
}

pub fn run_c07(tier: Tier) -> i32 {
    let mut rep = Report::new("C07", tier);
    let mut wss = base_workspaces();
    wss.push(("c08".into(), c08_workspace().0));
    for (n, w, _) in templated_variants() {
        wss.push((n, w));
    }
    let mut accepted = 0u64;
    let mut kinds_accepted: BTreeSet<String> = BTreeSet::new();
    // generated scoping programs: shadowing is the norm there, so a rename that captures or
    // misses an occurrence changes the binding graph
    {
        let gen = crate::props::scoping::generated_workspaces(tier, tier == Tier::Quick);
        let res: Vec<(u64, u64, Vec<Violation>, Vec<String>)> = gen
            .par_iter()
            .map(|(name, ws)| {
                let files = ws.files();
                let host = ws.host();
                let an = host.snapshot();
                let mut viol = vec![];
                let (mut n, mut acc) = (0u64, 0u64);
                let mut kinds = vec![];
                for (fi, f) in files.iter().enumerate().filter(|(_, f)| f.is_module) {
                    for (off, _, old) in occurrences(&f.text) {
                        let valid = if old.chars().next().map_or(false, |c| c.is_uppercase()) { FRESH_UPPER } else { FRESH_LOWER };
                        n += 1;
                        if let Ok(Ok(edits)) = rename_edits(&an, f.id, off, valid) {
                            acc += 1;
                            let kk = kind_key(&f.text, off);
                            kinds.push(kk.clone());
                            match catch(|| c07_check(ws, &files, &an, fi, off, &old, valid, &edits)) {
                                Ok(fails) => {
                                    for (class, detail) in fails {
                                        if viol.len() < 4 {
                                            viol.push(Violation { class: class.clone(), key: format!("{kk}|generated"), witness: json!({"workspace_json": ws.to_json(), "file": f.rel, "offset": off, "new_name": valid}), detail: format!("[{name}] {detail}\n      {}", files[0].text.trim()) });
                                        }
                                    }
                                }
                                Err(m) => viol.push(Violation { class: "panic".into(), key: panic_class(&m), witness: json!({"workspace_json": ws.to_json(), "file": f.rel, "offset": off, "new_name": valid}), detail: format!("[{name}] rename check panicked: {m}") }),
                            }
                        }
                    }
                }
                (n, acc, viol, kinds)
            })
            .collect();
        let mut l = Layer { name: "generated-scoping-programs".into(), states: gen.len() as u64, exhaustive: true, ..Default::default() };
        let mut acc_here = 0;
        for (n, a, v, k) in res {
            l.executions += n;
            l.transitions += n + a * 4;
            acc_here += a;
            kinds_accepted.extend(k);
            for x in v {
                rep.violation(x);
            }
        }
        accepted += acc_here;
        l.bound = format!("{} generated two-module programs (module contexts x single-statement scoping skeletons x every assignment of {{x, y}} to the slots) x every identifier occurrence; {acc_here} renames accepted and fully checked", gen.len());
        rep.layer(l);
    }
    for (name, ws) in &wss {
        let files = ws.files();
        let jobs: Vec<(usize, u32, String)> = files.iter().enumerate().filter(|(_, f)| f.is_module).flat_map(|(fi, f)| occurrences(&f.text).into_iter().map(move |(s, _, t)| (fi, s, t))).collect();
        let res: Vec<(u64, u64, Vec<Violation>, Vec<String>)> = jobs
            .par_iter()
            .map_init(|| ws.host(), |host, (fi, off, old)| {
                let an = host.snapshot();
                let mut viol = vec![];
                let mut acc = 0;
                let mut n = 0;
                let mut kinds = vec![];
                // a valid name for the symbol has the case class of its current spelling
                let valid = if old.chars().next().map_or(false, |c| c.is_uppercase()) { FRESH_UPPER } else { FRESH_LOWER };
                for new in [valid] {
                    n += 1;
                    match rename_edits(&an, files[*fi].id, *off, new) {
                        Ok(Ok(edits)) => {
                            acc += 1;
                            let kk = kind_key(&files[*fi].text, *off);
                            kinds.push(kk.clone());
                            match catch(|| c07_check(ws, &files, &an, *fi, *off, old, new, &edits)) {
                                Ok(fails) => {
                                    for (class, detail) in fails {
                                        viol.push(Violation { class: class.clone(), key: kk.clone(), witness: json!({"workspace": name, "file": files[*fi].rel, "offset": off, "new_name": new}), detail: format!("[{name}] {detail}") });
                                    }
                                }
                                Err(m) => viol.push(Violation { class: "panic".into(), key: panic_class(&m), witness: json!({"workspace": name, "file": files[*fi].rel, "offset": off, "new_name": new}), detail: format!("[{name}] checking rename at {}:{off} panicked: {m}", files[*fi].rel) }),
                            }
                        }
                        Ok(Err(_)) => {}
                        Err(m) => viol.push(Violation { class: "panic".into(), key: panic_class(&m), witness: json!({"workspace": name, "file": files[*fi].rel, "offset": off, "new_name": new}), detail: format!("[{name}] rename at {}:{off} panicked: {m}", files[*fi].rel) }),
                    }
                }
                (n, acc, viol, kinds)
            })
            .collect();
        let mut l = Layer { name: format!("workspace-{name}"), states: jobs.len() as u64, exhaustive: true, ..Default::default() };
        let mut acc_here = 0;
        for (n, a, v, k) in res {
            l.executions += n;
            l.transitions += n + a * 4;
            acc_here += a;
            kinds_accepted.extend(k);
            for x in v {
                rep.violation(x);
            }
        }
        accepted += acc_here;
        l.bound = format!("every identifier occurrence x a fresh name of the spelling's case class; {acc_here} renames accepted and fully checked (token edits, = references, binding graph isomorphic over EVERY occurrence, diagnostics unchanged, round trip)");
        rep.layer(l);
    }
    templated_coverage_layer(&mut rep);
    rep.distinct_nontrivial = accepted;
    rep.distinct_outcomes = kinds_accepted.len() as u64;
    rep.rule = "non-trivial = accepted renames (each re-analysed in a second host); outcomes = distinct syntactic positions (node-kind chains) at which a rename was accepted".into();
    rep.sample(json!({"workspace": "w1", "file": "src/main.gleam", "rename": "Rgb -> Zq9"}));
    rep.extra.insert("accepted_positions".into(), json!(kinds_accepted.iter().collect::<Vec<_>>()));
    rep.assumptions = vec!["fresh names zq9 / Zq9 occur nowhere in the workspaces (checked)".into()];
    for (_, ws) in &wss {
        for f in ws.files() {
            if f.text.contains(FRESH_LOWER) || f.text.contains(FRESH_UPPER) {
                rep.machinery("fresh name occurs in a workspace");
            }
        }
    }
    rep.guard(accepted > 100, "more than 100 accepted renames");
    rep.guard(kinds_accepted.len() >= 12, "renames accepted at >= 12 distinct syntactic positions");
    rep.finish()
}

fn find_ws<'a>(wss: &'a [(String, Workspace)], name: &str) -> Option<&'a Workspace> {
    wss.iter().find(|w| w.0 == name).map(|w| &w.1)
}

pub fn replay_c07(w: &Value) -> Vec<String> {
    if let Some(ws) = Workspace::from_json(&w["workspace_json"]) {
        let files = ws.files();
        let Some(fi) = files.iter().position(|f| Some(f.rel.as_str()) == w["file"].as_str()) else { return vec!["unknown file".into()] };
        let off = w["offset"].as_u64().unwrap_or(0) as u32;
        let new = w["new_name"].as_str().unwrap_or(FRESH_LOWER);
        let host = ws.host();
        let an = host.snapshot();
        let old = occurrences(&files[fi].text).into_iter().find(|o| o.0 == off).map(|o| o.2).unwrap_or_default();
        return match rename_edits(&an, files[fi].id, off, new) {
            Ok(Ok(e)) => c07_check(&ws, &files, &an, fi, off, &old, new, &e).into_iter().map(|(c, d)| format!("{c}: {d}")).collect(),
            Ok(Err(_)) => vec![],
            Err(m) => vec![format!("panic: {m}")],
        };
    }
    if let Some(vn) = w["templated_variant"].as_str() {
        let mut rep = Report::new("C07", Tier::Quick);
        templated_coverage_layer(&mut rep);
        return rep.violations.iter().filter(|v| v.witness["templated_variant"].as_str() == Some(vn) && v.witness["offset"] == w["offset"] && v.witness["file"] == w["file"]).map(|v| format!("{}: {}", v.class, v.detail)).collect();
    }
    let mut wss = base_workspaces();
    wss.push(("c08".into(), c08_workspace().0));
    for (n, w, _) in templated_variants() {
        wss.push((n, w));
    }
    let Some(ws) = find_ws(&wss, w["workspace"].as_str().unwrap_or("")) else { return vec!["unknown workspace".into()] };
    let files = ws.files();
    let Some(fi) = files.iter().position(|f| Some(f.rel.as_str()) == w["file"].as_str()) else { return vec!["unknown file".into()] };
    let off = w["offset"].as_u64().unwrap_or(0) as u32;
    let new = w["new_name"].as_str().unwrap_or(FRESH_LOWER);
    let host = ws.host();
    let an = host.snapshot();
    let old = occurrences(&files[fi].text).into_iter().find(|o| o.0 == off).map(|o| o.2).unwrap_or_default();
    match rename_edits(&an, files[fi].id, off, new) {
        Ok(Ok(e)) => c07_check(ws, &files, &an, fi, off, &old, new, &e).into_iter().map(|(c, d)| format!("{c}: {d}")).collect(),
        Ok(Err(_)) => vec![],
        Err(m) => vec![format!("panic: {m}")],
    }
}

// ---------------------------------------------------------------------------------------
// C08
// ---------------------------------------------------------------------------------------

const C08_MAIN: &str = "import dep
import dep.{type Ext, ext_fn, ExtCtor, ext_fn as ef}
import other/mod as om
import loc
import loc.{loc_fn as lf, loc_const as lc, LocCtor as Lc, type LocTy as Lt, loc_two}
import x/loc.{loc_fn as xlf} as xl
import local/dep.{dep_local} as ld

pub type Ty {
  Ctor(field: Int, second: String)
}

pub type Al = Ty

const cst = 1

pub fn func(param: Int, label inner: Int) {
  let local = param + inner + cst
  let t = Ctor(field: local, second: \"s\")
  let Ctor(field: ff, ..) = t
  let e = ext_fn(1)
  let q = dep.ext_fn(2)
  let r = ExtCtor
  let x: Ext = r
  let a: Al = t
  let b = Ok(1)
  let b2 = Error(2)
  let b3 = Nil
  let b4 = True
  let b5 = False
  let l = loc.loc_fn(1)
  let m = om.mod_fn(1)
  let g = ef(3)
  let w = dep.ExtCtor
  let u1 = lf(1)
  let u2 = lc
  let u3 = Lc
  let u4: Lt = u3
  let u5 = loc_two(1)
  let u6 = xlf(1)
  let u7 = dep_local(1)
  func(local, label: t.field)
}
";

#[derive(Clone, Copy, Debug, PartialEq, Eq)]
enum Class {
    Lower,
    Upper,
}

#[derive(Clone, Debug)]
struct Probe {
    name: &'static str,
    needle: &'static str,
    nth: usize,
    /// offset of the identifier inside the needle
    inner: usize,
    class: Class,
    /// symbol is of a renameable kind (not a module, built-in or alias spelling)
    renameable: bool,
    /// symbol is defined in a local package
    local: bool,
}

fn probes() -> Vec<Probe> {
    let p = |name, needle, nth, inner, class, renameable, local| Probe { name, needle, nth, inner, class, renameable, local };
    use Class::*;
    vec![
        p("local-def", "let local", 0, 4, Lower, true, true),
        p("local-use", "field: local", 0, 7, Lower, true, true),
        p("param-def", "func(param", 0, 5, Lower, true, true),
        p("param-use", "= param +", 0, 2, Lower, true, true),
        p("labelled-param-binder", "label inner", 0, 6, Lower, true, true),
        p("function-def", "fn func", 0, 3, Lower, true, true),
        p("function-use", "  func(local", 0, 2, Lower, true, true),
        p("constant-def", "const cst", 0, 6, Lower, true, true),
        p("constant-use", "+ cst", 0, 2, Lower, true, true),
        p("field-def", "Ctor(field: Int", 0, 5, Lower, true, true),
        p("field-construction-label", "Ctor(field: local", 0, 5, Lower, true, true),
        p("field-pattern-label", "Ctor(field: ff", 0, 5, Lower, true, true),
        p("field-access", "t.field", 0, 2, Lower, true, true),
        p("type-def", "type Ty", 0, 5, Upper, true, true),
        p("type-use", "Al = Ty", 0, 5, Upper, true, true),
        p("alias-def", "type Al", 0, 5, Upper, true, true),
        p("alias-use", "a: Al", 0, 3, Upper, true, true),
        p("constructor-def", "  Ctor(field: Int", 0, 2, Upper, true, true),
        p("constructor-use", "= Ctor(field: local", 0, 2, Upper, true, true),
        p("constructor-pattern", "let Ctor(", 0, 4, Upper, true, true),
        p("module-qualifier", "dep.ext_fn(2)", 0, 0, Lower, false, true),
        p("module-alias-qualifier", "om.mod_fn", 0, 0, Lower, false, true),
        p("builtin-constructor", "Ok(1)", 0, 0, Upper, false, true),
        p("builtin-constructor Error", "Error(2)", 0, 0, Upper, false, true),
        p("builtin-constructor Nil", "= Nil\n", 0, 2, Upper, false, true),
        p("builtin-constructor True", "= True\n", 0, 2, Upper, false, true),
        p("builtin-constructor False", "= False\n", 0, 2, Upper, false, true),
        p("aliased-import-use", "ef(3)", 0, 0, Lower, false, false),
        p("aliased-import-alias-name", "as ef", 0, 3, Lower, false, false),
        p("extern-fn-unqualified-use", "= ext_fn(1)", 0, 2, Lower, true, false),
        p("extern-fn-qualified-use", "dep.ext_fn(2)", 0, 4, Lower, true, false),
        p("extern-fn-import-item", "{type Ext, ext_fn,", 0, 11, Lower, true, false),
        p("extern-ctor-use", "= ExtCtor", 0, 2, Upper, true, false),
        p("extern-ctor-qualified-use", "dep.ExtCtor", 0, 4, Upper, true, false),
        p("extern-type-use", "x: Ext", 0, 3, Upper, true, false),
        p("other-local-package-fn-use", "loc.loc_fn", 0, 4, Lower, true, true),
        // aliases of symbols of a LOCAL package: only the alias rule can refuse these
        p("local-fn-alias-in-import", "as lf", 0, 3, Lower, false, true),
        p("local-const-alias-in-import", "as lc", 0, 3, Lower, false, true),
        p("local-ctor-alias-in-import", "as Lc", 0, 3, Upper, false, true),
        p("local-type-alias-in-import", "as Lt", 0, 3, Upper, false, true),
        p("local-fn-alias-use", "lf(1)", 0, 0, Lower, false, true),
        p("local-const-alias-use", "= lc\n", 0, 2, Lower, false, true),
        p("local-ctor-alias-use", "= Lc\n", 0, 2, Upper, false, true),
        p("local-type-alias-use", "u4: Lt", 0, 4, Upper, false, true),
        p("module-alias-in-import", "as om", 0, 3, Lower, false, true),
        p("module-name-in-import", "import loc\n", 0, 7, Lower, false, true),
        p("local-fn-import-item", "loc_two}", 0, 0, Lower, true, true),
        // aliased imports whose last path segment is also the accessor of ANOTHER import
        p("dep-item-in-aliased-import-clashing-segment", "{loc_fn as xlf}", 0, 1, Lower, true, false),
        p("local-item-in-aliased-import-clashing-segment", "{dep_local}", 0, 1, Lower, true, true),
        p("local-item-use-clashing-segment", "= dep_local(1)", 0, 2, Lower, true, true),
        p("local-fn-unqualified-use", "loc_two(1)", 0, 0, Lower, true, true),
    ]
}

pub fn c08_workspace() -> (Workspace, usize) {
    c08_workspace_v(false)
}

const C08_ERRS: &str = "pub type Ok {\n  Ok(v: Int)\n}\n\npub type Error {\n  Error(message: String)\n}\n\npub type Nil {\n  Nil\n}\n\npub type True {\n  True\n}\n\npub type False {\n  False\n}\n";

/// `type_imports`: main also imports the TYPES `Ok`, `Error`, `Nil`, `True`, `False` of a local
/// module whose constructors are spelled the same; the values stay the built-in ones.
pub fn c08_workspace_v(type_imports: bool) -> (Workspace, usize) {
    let main = if type_imports { C08_MAIN.replacen("\n\npub type Ty", "\nimport errs.{type Ok, type Error, type Nil, type True, type False}\n\npub type Ty", 1) } else { C08_MAIN.to_string() };
    let ws = Workspace {
        packages: vec![
            WsPackage { name: "app".into(), files: vec![WsFile { rel: "src/main.gleam".into(), text: main }, WsFile { rel: "src/errs.gleam".into(), text: C08_ERRS.into() }, WsFile { rel: "src/other/mod.gleam".into(), text: "pub fn mod_fn(x) { x }\n".into() }, WsFile { rel: "src/local/dep.gleam".into(), text: "pub fn dep_local(x) {\n  x\n}\n".into() }], deps: vec![1, 2], is_local: true },
            WsPackage { name: "dep".into(), files: vec![WsFile { rel: "src/dep.gleam".into(), text: "pub type Ext {\n  ExtCtor\n}\n\npub fn ext_fn(x) {\n  x\n}\n\npub const ext_const = 1\n".into() }, WsFile { rel: "src/x/loc.gleam".into(), text: "pub fn loc_fn(x) {\n  x\n}\n".into() }], deps: vec![], is_local: false },
            WsPackage { name: "loc".into(), files: vec![WsFile { rel: "src/loc.gleam".into(), text: "pub fn loc_fn(x) {\n  x\n}\n\npub fn loc_two(x) {\n  x\n}\n\npub const loc_const = 1\n\npub type LocTy {\n  LocCtor\n}\n".into() }], deps: vec![], is_local: true },
        ],
    };
    (ws, 0)
}

fn candidates() -> Vec<(&'static str, Option<Class>)> {
    let mut v: Vec<(&'static str, Option<Class>)> = crate::core::alphabet::KEYWORDS.iter().map(|k| (*k, None)).collect();
    // the words Gleam reserves although glas' lexer has no keyword token for them
    v.extend(["auto", "delegate", "derive", "echo", "else", "implement", "macro", "test"].iter().map(|k| (*k, None)));
    v.extend([
        ("a", Some(Class::Lower)),
        ("a_1", Some(Class::Lower)),
        ("zz9", Some(Class::Lower)),
        ("A", Some(Class::Upper)),
        ("Ab", Some(Class::Upper)),
        ("Zz9", Some(Class::Upper)),
        ("aB", None),
        ("A_b", None),
        ("_a", None),
        ("_", None),
        ("1", None),
        ("1.0", None),
        ("\"s\"", None),
        ("+", None),
        ("->", None),
        ("(", None),
        ("", None),
        (" ", None),
        ("a b", None),
        ("a.b", None),
        ("a(", None),
        (" a", None),
        ("a ", None),
        ("a\n", None),
        ("é", None),
        ("aé", None),
        ("😀", None),
        ("//a", None),
    ]);
    v
}

pub fn run_c08(tier: Tier) -> i32 {
    let mut rep = Report::new("C08", tier);
    let cands = candidates();
    let mut decisions: BTreeSet<String> = BTreeSet::new();
    let mut l = Layer { name: "decision-table".into(), exhaustive: true, ..Default::default() };
    let mut accepted = 0u64;
    for type_imports in [false, true] {
    let (ws, _) = c08_workspace_v(type_imports);
    let files = ws.files();
    let host = ws.host();
    let an = host.snapshot();
    let main = &files[0];
    let nonlocal: BTreeSet<FileId> = files.iter().filter(|f| !ws.packages[f.package].is_local).map(|f| f.id).collect();
    let vtag = if type_imports { "|beside type imports spelled like the built-ins" } else { "" };
    for p in probes() {
        let Some(pos) = main.text.match_indices(p.needle).nth(p.nth).map(|m| m.0 + p.inner) else {
            rep.machinery(format!("probe {} not found", p.name));
            continue;
        };
        let off = pos as u32;
        let prep = catch(|| an.prepare_rename(FilePos::new(main.id, off.into())));
        let prep_ok = match &prep {
            Ok(Ok(r)) => r.is_ok(),
            _ => {
                rep.violation(Violation { class: "panic".into(), key: format!("prepare|{}", p.name), witness: json!({"probe": p.name}), detail: format!("prepare_rename at {} panicked or was cancelled", p.name) });
                false
            }
        };
        let valid_name = if p.class == Class::Lower { "zz9" } else { "Zz9" };
        for (cand, cclass) in &cands {
            l.states += 1;
            l.executions += 1;
            l.transitions += 1;
            let expect_ok = p.renameable && p.local && *cclass == Some(p.class);
            let got = rename_edits(&an, main.id, off, cand);
            let w = json!({"probe": p.name, "candidate": cand, "type_imports": type_imports});
            match got {
                Err(m) => rep.violation(Violation { class: "panic".into(), key: format!("{}|{}", p.name, panic_class(&m)), witness: w, detail: format!("rename {:?} at {} panicked: {m}", cand, p.name) }),
                Ok(r) => {
                    decisions.insert(format!("{}:{}", p.name, r.is_ok()));
                    if let Ok(edits) = &r {
                        accepted += 1;
                        for f in edits.keys() {
                            if nonlocal.contains(f) {
                                let rel = files.iter().find(|x| x.id == *f).map(|x| x.path.clone()).unwrap_or_default();
                                rep.violation(Violation { class: "edit-in-dependency".into(), key: format!("{}", p.name), witness: w.clone(), detail: format!("rename of {} to {:?} edits {rel}, a file of a non-local package (build/packages)", p.name, cand) });
                            }
                        }
                    }
                    if r.is_ok() != expect_ok {
                        let why = if !p.renameable { "the symbol is a module / built-in / alias spelling" } else if !p.local { "the symbol is defined in a non-local package" } else { "the name is not one identifier token of the required class" };
                        let class = if r.is_ok() { "accepted-but-must-refuse" } else { "refused-but-valid" };
                        let cand_class = match cclass {
                            Some(Class::Lower) => "valid-lowercase",
                            Some(Class::Upper) => "valid-uppercase",
                            None => "invalid-name",
                        };
                        rep.violation(Violation { class: class.into(), key: format!("{}|{}{vtag}", p.name, cand_class), witness: w, detail: format!("rename of {} to {:?}: {} (expected {}: {why})", p.name, cand, if r.is_ok() { "accepted" } else { "refused" }, if expect_ok { "accept" } else { "refuse" }) });
                    }
                }
            }
        }
        // prepare <=> rename with a valid name for the kind
        let rv = rename_edits(&an, main.id, off, valid_name).map(|r| r.is_ok()).unwrap_or(false);
        l.executions += 1;
        if rv != prep_ok {
            rep.violation(Violation { class: "prepare-rename-disagree".into(), key: format!("{}{vtag}", p.name), witness: json!({"probe": p.name, "candidate": valid_name, "type_imports": type_imports}), detail: format!("{}: prepare_rename {} but rename to {:?} {}", p.name, if prep_ok { "accepts" } else { "refuses" }, valid_name, if rv { "is accepted" } else { "is refused" }) });
        }
    }
    }
    l.bound = format!("2 variants of the probe module (with / without type imports `import errs.{{type Ok, type Error, type Nil, type True, type False}}` of types whose constructors are spelled like the built-in values) x {} symbol probes (kinds x definition/use sites x local / other local package / build-packages package; all five built-in constructors) x {} candidate names (15 keywords of the lexer and the 8 further words Gleam reserves, valid and malformed identifiers of both cases, literals, operators, empty/space/multi-token, non-ASCII)", probes().len(), cands.len());
    rep.layer(l);
    {
        // at every identifier occurrence of the base workspaces and of the probe workspace:
        // prepare <=> rename with a valid name; malformed names are refused; no edit in a dependency
        let mut l2 = Layer { name: "every-identifier".into(), exhaustive: true, ..Default::default() };
        let mut wss = base_workspaces();
        wss.push(("c08".into(), c08_workspace().0));
        let bad_names = ["", " ", "a b", "1", "fn", "+", "a.b", "é"];
        for (name, ws) in wss {
            let files = ws.files();
            let host = ws.host();
            let an = host.snapshot();
            let nonlocal: BTreeSet<FileId> = files.iter().filter(|f| !ws.packages[f.package].is_local).map(|f| f.id).collect();
            for f in files.iter().filter(|f| f.is_module) {
                for (s, _, t) in occurrences(&f.text) {
                    l2.states += 1;
                    l2.executions += 3 + bad_names.len() as u64;
                    l2.transitions += 3 + bad_names.len() as u64;
                    let prep = matches!(catch(|| an.prepare_rename(FilePos::new(f.id, s.into()))), Ok(Ok(Ok(_))));
                    let lo = rename_edits(&an, f.id, s, "zz9");
                    let up = rename_edits(&an, f.id, s, "Zz9");
                    let ok = |r: &Result<Result<Edits, String>, String>| matches!(r, Ok(Ok(_)));
                    if prep != (ok(&lo) || ok(&up)) {
                        rep.violation(Violation { class: "prepare-rename-disagree".into(), key: kind_key(&f.text, s), witness: json!({"workspace": name, "file": f.rel, "offset": s}), detail: format!("[{name}] {t:?} at {}:{s}: prepare_rename {} but rename with a valid name {}", f.rel, if prep { "accepts" } else { "refuses" }, if ok(&lo) || ok(&up) { "is accepted" } else { "is refused" }) });
                    }
                    for r in [&lo, &up] {
                        if let Ok(Ok(edits)) = r {
                            if let Some(bad) = edits.keys().find(|k| nonlocal.contains(k)) {
                                let rel = files.iter().find(|x| x.id == *bad).map(|x| x.path.clone()).unwrap_or_default();
                                rep.violation(Violation { class: "edit-in-dependency".into(), key: kind_key(&f.text, s), witness: json!({"workspace": name, "file": f.rel, "offset": s}), detail: format!("[{name}] rename of {t:?} at {}:{s} edits {rel}, a file of a non-local package", f.rel) });
                            }
                            if nonlocal.contains(&f.id) {
                                rep.violation(Violation { class: "accepted-but-must-refuse".into(), key: format!("inside-dependency|{}", kind_key(&f.text, s)), witness: json!({"workspace": name, "file": f.rel, "offset": s}), detail: format!("[{name}] rename of {t:?} at {}:{s}, inside a file of a non-local package, is accepted", f.rel) });
                            }
                        }
                    }
                    // the symbol's own current spelling as the new name: a valid name of the right
                    // class wherever prepare accepts, refused like any other name where it does not
                    let own = rename_edits(&an, f.id, s, &t);
                    if prep != ok(&own) {
                        rep.violation(Violation { class: if ok(&own) { "accepted-but-must-refuse" } else { "refused-but-valid" }.into(), key: format!("own-name|{}", kind_key(&f.text, s)), witness: json!({"workspace": name, "file": f.rel, "offset": s, "name": t}), detail: format!("[{name}] {t:?} at {}:{s}: prepare_rename {} but rename to the symbol's own name {t:?} {}", f.rel, if prep { "accepts" } else { "refuses" }, if ok(&own) { "is accepted" } else { "is refused" }) });
                    }
                    for bn in bad_names {
                        if let Ok(Ok(_)) = rename_edits(&an, f.id, s, bn) {
                            rep.violation(Violation { class: "accepted-but-must-refuse".into(), key: format!("malformed-name|{}", kind_key(&f.text, s)), witness: json!({"workspace": name, "file": f.rel, "offset": s, "name": bn}), detail: format!("[{name}] rename of {t:?} at {}:{s} to {bn:?} is accepted", f.rel) });
                        }
                    }
                }
            }
        }
        l2.bound = "every identifier occurrence of the base workspaces w1-w5 and of the probe workspace: prepare_rename accepts <=> rename with a valid lowercase or uppercase name accepts <=> rename to the symbol's own current spelling accepts; 8 malformed names are refused; no accepted rename edits a file of a non-local package or is accepted from inside one".into();
        rep.layer(l2);
    }
    rep.distinct_nontrivial = accepted;
    rep.distinct_outcomes = decisions.len() as u64;
    rep.rule = "finite product fully enumerated; non-trivial = accepted renames; outcomes = distinct (probe, decision) pairs".into();
    rep.sample(json!({"probe": "constant-def", "candidate": "+"}));
    rep.assumptions = vec!["is_local=false is what the loader makes of build/packages/* (that mapping is C17's)".into()];
    rep.guard(accepted > 20, "accepted renames exist");
    rep.finish()
}

pub fn replay_c08(w: &Value) -> Vec<String> {
    if let Some(pn) = w["probe"].as_str() {
        let (ws, _) = c08_workspace_v(w["type_imports"].as_bool().unwrap_or(false));
        let files = ws.files();
        let host = ws.host();
        let an = host.snapshot();
        let Some(p) = probes().into_iter().find(|p| p.name == pn) else { return vec!["unknown probe".into()] };
        let pos = files[0].text.match_indices(p.needle).nth(p.nth).map(|m| m.0 + p.inner).unwrap_or(0) as u32;
        let cand = w["candidate"].as_str().unwrap_or("");
        let cclass = candidates().into_iter().find(|c| c.0 == cand).and_then(|c| c.1);
        let expect_ok = p.renameable && p.local && cclass == Some(p.class);
        return match rename_edits(&an, files[0].id, pos, cand) {
            Ok(r) if r.is_ok() == expect_ok => {
                let nonlocal: Vec<FileId> = files.iter().filter(|f| !ws.packages[f.package].is_local).map(|f| f.id).collect();
                match r {
                    Ok(e) if e.keys().any(|k| nonlocal.contains(k)) => vec!["edit in a dependency file".into()],
                    _ => {
                        let prep = matches!(catch(|| an.prepare_rename(FilePos::new(files[0].id, pos.into()))), Ok(Ok(Ok(_))));
                        if prep != expect_ok && cclass == Some(p.class) {
                            vec!["prepare_rename disagrees with rename".into()]
                        } else {
                            vec![]
                        }
                    }
                }
            }
            Ok(r) => vec![format!("rename {:?} at {}: accepted={} expected={}", cand, p.name, r.is_ok(), expect_ok)],
            Err(m) => vec![format!("panic: {m}")],
        };
    }
    vec![]
}
