//! C15 — no message sequence can take the server down.
//! Exhaustive enumeration of all sequences of <= m message templates after a fixed prologue,
//! driven against the real binary over stdio (S5) and the real router in-process (S4), with a
//! reference model of the allowed document outcomes.
use crate::core::{Layer, Report, Tier, Violation};
use crate::lsp::client::RefDoc;
use crate::lsp::inproc::{tree_text, InProc};
use crate::lsp::proc::Proc;
use rayon::prelude::*;
use serde_json::{json, Value};
use std::collections::{BTreeMap, BTreeSet};
use std::time::Duration;

const T1: &str = "pub fn main() {\n  let é = \"😀\"\n  1\n}\n";

fn ws_dir() -> String {
    crate::core::verif_root().join(".scratch/c15/ws").to_string_lossy().to_string()
}

fn uri(name: &str) -> String {
    match name {
        "untitled" => "untitled:Untitled-1".into(),
        "nonfile" => "http://example.com/x.gleam".into(),
        n => format!("file://{}/{}.gleam", ws_dir(), n),
    }
}

#[derive(Clone, Debug)]
pub enum Tpl {
    Notif { name: String, method: &'static str, params: Value },
    Req { name: String, method: &'static str, params: Value },
}

impl Tpl {
    pub fn name(&self) -> &str {
        match self {
            Tpl::Notif { name, .. } | Tpl::Req { name, .. } => name,
        }
    }
}

fn pos(l: u32, c: u32) -> Value {
    json!({"line": l, "character": c})
}

fn range(a: (u32, u32), b: (u32, u32)) -> Value {
    json!({"start": pos(a.0, a.1), "end": pos(b.0, b.1)})
}

pub fn templates() -> Vec<Tpl> {
    let mut v = vec![];
    let n = |name: &str, method: &'static str, params: Value| Tpl::Notif { name: name.into(), method, params };
    let r = |name: &str, method: &'static str, params: Value| Tpl::Req { name: name.into(), method, params };
    let open = |d: &str, text: &str| json!({"textDocument": {"uri": uri(d), "languageId": "gleam", "version": 1, "text": text}});
    v.push(n("open-d1-again", "textDocument/didOpen", open("d1", "fn again() { 2 }\n")));
    v.push(n("open-d2", "textDocument/didOpen", open("d2", "pub fn two() { 2 }\n")));
    v.push(n("open-d3-nonascii", "textDocument/didOpen", open("d3", "// é😀\nfn trois() { \"€\" }\n")));
    v.push(n("open-untitled", "textDocument/didOpen", open("untitled", "fn u() { 1 }\n")));
    v.push(n("open-nonfile", "textDocument/didOpen", open("nonfile", "fn h() { 1 }\n")));
    v.push(n("close-d1", "textDocument/didClose", json!({"textDocument": {"uri": uri("d1")}})));
    v.push(n("close-d3-never-opened", "textDocument/didClose", json!({"textDocument": {"uri": uri("d3")}})));
    v.push(n("save-d1", "textDocument/didSave", json!({"textDocument": {"uri": uri("d1")}})));
    for (nm, d, ty) in [("watch-created-d2", "d2", 1), ("watch-changed-d2", "d2", 2), ("watch-deleted-d2", "d2", 3), ("watch-created-d3-vanished", "d3", 1), ("watch-deleted-d1-open", "d1", 3), ("watch-changed-untitled", "untitled", 2)] {
        v.push(n(nm, "workspace/didChangeWatchedFiles", json!({"changes": [{"uri": uri(d), "type": ty}]})));
    }
    let chg = |d: &str, changes: Vec<Value>| json!({"textDocument": {"uri": uri(d), "version": 2}, "contentChanges": changes});
    let valid = json!({"range": range((2, 2), (2, 3)), "text": "42"});
    let singles: Vec<(&str, Value)> = vec![
        ("valid", valid.clone()),
        ("full", json!({"text": "fn full() { 3 }\n"})),
        ("col-beyond-line", json!({"range": range((2, 9), (2, 9)), "text": "X"})),
        ("line-last-plus-1", json!({"range": range((5, 0), (5, 0)), "text": "Y"})),
        ("line-far-beyond", json!({"range": range((900, 0), (900, 1)), "text": "ZZ"})),
        ("reversed-same-line", json!({"range": range((0, 6), (0, 2)), "text": "R"})),
        ("reversed-across-lines", json!({"range": range((2, 0), (0, 4)), "text": "Q"})),
        ("mid-surrogate", json!({"range": range((1, 12), (1, 12)), "text": "S"})),
        ("col-beyond-line-0", json!({"range": range((0, 20), (0, 20)), "text": "C"})),
        ("mid-surrogate-end-only", json!({"range": range((1, 11), (1, 12)), "text": "T"})),
        ("mid-surrogate-start-only", json!({"range": range((1, 12), (1, 13)), "text": "U"})),
        ("valid-start-end-beyond-line", json!({"range": range((2, 2), (2, 40)), "text": "V"})),
        ("valid-start-end-line-beyond", json!({"range": range((2, 2), (9, 0)), "text": "W"})),
        ("u32-max", json!({"range": range((4294967295, 4294967295), (4294967295, 4294967295)), "text": "M"})),
        ("end-col-u32-max", json!({"range": range((0, 0), (0, 4294967295)), "text": "E"})),
        // the same over-long columns on line 1, which holds a 2-byte and a 4-byte character
        ("col-beyond-line-multibyte", json!({"range": range((1, 40), (1, 40)), "text": "X"})),
        ("col-just-beyond-line-multibyte", json!({"range": range((1, 15), (1, 15)), "text": "X"})),
        ("valid-start-end-beyond-line-multibyte", json!({"range": range((1, 2), (1, 40)), "text": "V"})),
        ("end-col-u32-max-multibyte", json!({"range": range((1, 0), (1, 4294967295)), "text": "E"})),
    ];
    for (nm, c) in &singles {
        v.push(n(&format!("change-d1-{nm}"), "textDocument/didChange", chg("d1", vec![c.clone()])));
    }
    for (nm, c) in &singles[2..] {
        v.push(n(&format!("change-d1-{nm}-then-valid"), "textDocument/didChange", chg("d1", vec![c.clone(), valid.clone()])));
    }
    v.push(n("change-d1-valid-valid", "textDocument/didChange", chg("d1", vec![valid.clone(), json!({"range": range((0, 0), (0, 3)), "text": ""})])));
    v.push(n("change-d3-unknown", "textDocument/didChange", chg("d3", vec![valid.clone()])));
    v.push(n("change-d2-unknown-position", "textDocument/didChange", chg("d2", vec![json!({"range": range((900, 0), (900, 1)), "text": "ZZ"})])));
    v.push(n("change-untitled", "textDocument/didChange", chg("untitled", vec![valid.clone()])));
    // requests
    let tdp = |d: &str, p: (u32, u32)| json!({"textDocument": {"uri": uri(d)}, "position": pos(p.0, p.1)});
    let kinds: Vec<(&str, &'static str, Box<dyn Fn(&str, (u32, u32)) -> Value>)> = vec![
        ("hover", "textDocument/hover", Box::new(tdp)),
        ("definition", "textDocument/definition", Box::new(tdp)),
        ("references", "textDocument/references", Box::new(move |d, p| json!({"textDocument": {"uri": uri(d)}, "position": pos(p.0, p.1), "context": {"includeDeclaration": true}}))),
        ("highlight", "textDocument/documentHighlight", Box::new(tdp)),
        ("completion", "textDocument/completion", Box::new(tdp)),
        ("signatureHelp", "textDocument/signatureHelp", Box::new(tdp)),
        ("prepareRename", "textDocument/prepareRename", Box::new(tdp)),
        ("rename", "textDocument/rename", Box::new(move |d, p| json!({"textDocument": {"uri": uri(d)}, "position": pos(p.0, p.1), "newName": "renamed"}))),
        ("semanticTokens", "textDocument/semanticTokens/full", Box::new(move |d, _| json!({"textDocument": {"uri": uri(d)}}))),
        ("semanticTokensRange", "textDocument/semanticTokens/range", Box::new(move |d, p| json!({"textDocument": {"uri": uri(d)}, "range": range((0, 0), p)}))),
        ("syntaxTree", "glas/syntaxTree", Box::new(move |d, _| json!({"textDocument": {"uri": uri(d)}}))),
        ("formatting", "textDocument/formatting", Box::new(move |d, _| json!({"textDocument": {"uri": uri(d)}, "options": {"tabSize": 2, "insertSpaces": true}}))),
    ];
    for (nm, method, mk) in &kinds {
        v.push(r(&format!("{nm}-d1-valid"), method, mk("d1", (0, 8))));
        v.push(r(&format!("{nm}-d1-beyond"), method, mk("d1", (77, 99))));
    }
    for (nm, method, mk) in kinds.iter().take(4) {
        v.push(r(&format!("{nm}-d3-unknown"), method, mk("d3", (0, 0))));
    }
    for (nm, method, mk) in kinds.iter().skip(4).take(2) {
        v.push(r(&format!("{nm}-untitled"), method, mk("untitled", (0, 0))));
    }
    v.push(r("semanticTokensRange-reversed", "textDocument/semanticTokens/range", json!({"textDocument": {"uri": uri("d1")}, "range": range((3, 0), (0, 2))})));
    v.push(r("semanticTokensRange-mid-surrogate", "textDocument/semanticTokens/range", json!({"textDocument": {"uri": uri("d1")}, "range": range((1, 12), (1, 13))})));
    v.push(r("hover-mid-surrogate", "textDocument/hover", tdp("d1", (1, 12))));
    v.push(r("unknown-method", "glas/doesNotExist", json!({})));
    v
}


/// URI shapes a client may send: other schemes with and without authority / absolute path,
/// file URIs with a host, percent-encoding, non-ASCII, query / fragment, directories.
fn exotic_uris() -> Vec<(&'static str, String)> {
    let d = ws_dir();
    vec![
        ("untitled-abs", "untitled:/abs/new.gleam".to_string()),
        ("git-abs", "git:/repo/a.gleam".to_string()),
        ("scheme-host", "vscode-vfs://github/org/repo/src/a.gleam".to_string()),
        ("notebook-fragment", "vscode-notebook-cell:/ws/nb.ipynb#cell1".to_string()),
        ("file-host", "file://otherhost/share/x.gleam".to_string()),
        ("file-localhost", format!("file://localhost{d}/lh.gleam")),
        ("file-space", format!("file://{d}/with%20space.gleam")),
        ("file-nonascii", format!("file://{d}/%C3%A9t%C3%A9.gleam")),
        ("file-query", format!("file://{d}/q.gleam?rev=1")),
        ("file-fragment", format!("file://{d}/f.gleam#L1")),
        ("file-dir", format!("file://{d}/")),
        ("file-root", "file:///".to_string()),
        ("file-no-ext", format!("file://{d}/noext")),
        ("file-deep-missing-dir", format!("file://{d}/no/such/dir/m.gleam")),
        ("file-dotdot", format!("file://{d}/sub/../dd.gleam")),
        ("file-toml", format!("file://{d}/gleam.toml")),
    ]
}

pub fn uri_templates() -> Vec<(String, Vec<Tpl>)> {
    let valid = json!({"range": range((0, 0), (0, 0)), "text": "// x\n"});
    exotic_uris()
        .into_iter()
        .map(|(tag, u)| {
            let v = vec![
                Tpl::Notif { name: format!("open-{tag}"), method: "textDocument/didOpen", params: json!({"textDocument": {"uri": u, "languageId": "gleam", "version": 1, "text": "pub fn e() { 1 }\n"}}) },
                Tpl::Notif { name: format!("change-{tag}"), method: "textDocument/didChange", params: json!({"textDocument": {"uri": u, "version": 2}, "contentChanges": [valid.clone()]}) },
                Tpl::Req { name: format!("hover-{tag}"), method: "textDocument/hover", params: json!({"textDocument": {"uri": u}, "position": pos(0, 8)}) },
                Tpl::Notif { name: format!("close-{tag}"), method: "textDocument/didClose", params: json!({"textDocument": {"uri": u}}) },
                Tpl::Notif { name: format!("watch-{tag}"), method: "workspace/didChangeWatchedFiles", params: json!({"changes": [{"uri": u, "type": 2}]}) },
                Tpl::Req { name: format!("rename-{tag}"), method: "textDocument/rename", params: json!({"textDocument": {"uri": u}, "position": pos(0, 8), "newName": "renamed"}) },
            ];
            (tag.to_string(), v)
        })
        .collect()
}

/// Messages a client may send that the typed handlers have no place for: notifications whose
/// parameters do not deserialise (values out of range, wrong types, missing fields), notifications
/// and requests of methods the server does not implement, watched-file events for non-file URIs
/// of existing paths, a file name that is not UTF-8.
pub fn odd_templates() -> Vec<Tpl> {
    let n = |name: &str, method: &'static str, params: Value| Tpl::Notif { name: name.into(), method, params };
    let r = |name: &str, method: &'static str, params: Value| Tpl::Req { name: name.into(), method, params };
    let d = ws_dir();
    let chg = |line: Value, ch: Value| json!({"textDocument": {"uri": uri("d1"), "version": 2}, "contentChanges": [{"range": {"start": {"line": line, "character": ch}, "end": {"line": 0, "character": 0}}, "text": "X"}]});
    vec![
        n("odd-change-line-2pow32", "textDocument/didChange", chg(json!(4294967296u64), json!(0))),
        n("odd-change-character-negative", "textDocument/didChange", chg(json!(0), json!(-1))),
        n("odd-change-line-string", "textDocument/didChange", chg(json!("0"), json!(0))),
        n("odd-change-no-params", "textDocument/didChange", Value::Null),
        n("odd-change-changes-not-a-list", "textDocument/didChange", json!({"textDocument": {"uri": uri("d1"), "version": 2}, "contentChanges": {"text": "x"}})),
        n("odd-close-not-a-uri", "textDocument/didClose", json!({"textDocument": {"uri": "not a uri"}})),
        n("odd-open-no-text", "textDocument/didOpen", json!({"textDocument": {"uri": uri("d2"), "languageId": "gleam", "version": 1}})),
        n("odd-save-empty-params", "textDocument/didSave", json!({})),
        n("odd-watch-type-9", "workspace/didChangeWatchedFiles", json!({"changes": [{"uri": uri("d2"), "type": "created"}]})),
        n("odd-watch-untitled-existing-path", "workspace/didChangeWatchedFiles", json!({"changes": [{"uri": format!("untitled:{d}/d2.gleam"), "type": 2}]})),
        n("odd-watch-http-existing-path", "workspace/didChangeWatchedFiles", json!({"changes": [{"uri": format!("http://example.com{d}/d2.gleam"), "type": 1}]})),
        n("odd-open-non-utf8-file-name", "textDocument/didOpen", json!({"textDocument": {"uri": format!("file://{d}/proj/src/%FF.gleam"), "languageId": "gleam", "version": 1, "text": "pub fn f() { 1 }\n"}})),
        n("odd-configuration-garbage", "workspace/didChangeConfiguration", json!([1, 2])),
        n("odd-will-save", "textDocument/willSave", json!({"textDocument": {"uri": uri("d1")}, "reason": 1})),
        n("odd-workspace-folders", "workspace/didChangeWorkspaceFolders", json!({"event": {"added": [], "removed": []}})),
        n("odd-unknown-notification", "glas/noSuchNotification", json!({"x": 1})),
        n("odd-dollar-notification", "$/setTrace", json!({"value": "off"})),
        n("odd-cancel-unknown-request", "$/cancelRequest", json!({"id": 4242})),
        r("odd-hover-line-negative", "textDocument/hover", json!({"textDocument": {"uri": uri("d1")}, "position": {"line": -1, "character": 0}})),
        r("odd-hover-no-params", "textDocument/hover", Value::Null),
        r("odd-rename-name-number", "textDocument/rename", json!({"textDocument": {"uri": uri("d1")}, "position": pos(0, 8), "newName": 7})),
        r("odd-will-save-wait-until", "textDocument/willSaveWaitUntil", json!({"textDocument": {"uri": uri("d1")}, "reason": 1})),
        r("odd-dollar-request", "$/unknownRequest", json!({})),
    ]
}

// ------------------------------------------------------------------ reference model

#[derive(Clone, Debug, PartialEq)]
pub enum DocState {
    Unconstrained,
    Possible(BTreeSet<Option<String>>),
}

fn apply_allowed(t: &str, change: &Value) -> BTreeSet<Option<String>> {
    let mut out = BTreeSet::new();
    let text = change["text"].as_str().unwrap_or("");
    let Some(r) = change.get("range") else {
        out.insert(Some(text.to_string()));
        return out;
    };
    let g = |v: &Value| (v["line"].as_u64().unwrap_or(0).min(u32::MAX as u64) as u32, v["character"].as_u64().unwrap_or(0).min(u32::MAX as u64) as u32);
    let (s, e) = (g(&r["start"]), g(&r["end"]));
    let d = RefDoc::new(t);
    if let (Some(so), Some(eo)) = (d.offset_of(s.0, s.1), d.offset_of(e.0, e.1)) {
        if so <= eo {
            let mut d2 = d.clone();
            d2.replace(so, eo, text);
            out.insert(Some(d2.text));
            return out;
        }
    }
    // not a valid range: the edit may be dropped (document forgotten) or applied as the
    // positions denote under LSP leniency (column clamped to the line end, either side of a
    // surrogate pair, a line beyond the document = end of document, reversed ends swapped)
    out.insert(None);
    let len = |p: (u32, u32)| -> Vec<usize> {
        let v = d.lenient_offsets(p.0, p.1);
        if v.is_empty() {
            vec![t.len()]
        } else {
            v
        }
    };
    for so in len(s) {
        for eo in len(e) {
            let (a, b) = if so <= eo { (so, eo) } else { (eo, so) };
            let mut d2 = d.clone();
            d2.replace(a, b, text);
            out.insert(Some(d2.text));
        }
    }
    out
}

pub fn model_step(docs: &mut BTreeMap<String, DocState>, t: &Tpl) {
    let Tpl::Notif { method, params, .. } = t else { return };
    if t.name().starts_with("odd-") {
        // a notification the server cannot read or has no handler for changes no document; the
        // document it names (if it names one) may at most be forgotten
        if let Some(u) = params.get("textDocument").and_then(|d| d.get("uri")).and_then(|u| u.as_str()) {
            if let Some(DocState::Possible(set)) = docs.get_mut(u) {
                set.insert(None);
            }
        }
        return;
    }
    match *method {
        "textDocument/didOpen" => {
            let u = params["textDocument"]["uri"].as_str().unwrap_or("").to_string();
            let text = params["textDocument"]["text"].as_str().unwrap_or("").to_string();
            let mut s = BTreeSet::new();
            s.insert(Some(text));
            if !u.starts_with("file:") {
                s.insert(None);
            }
            docs.insert(u, DocState::Possible(s));
        }
        "textDocument/didClose" => {
            let u = params["textDocument"]["uri"].as_str().unwrap_or("").to_string();
            docs.insert(u, DocState::Unconstrained);
        }
        "textDocument/didChange" => {
            let u = params["textDocument"]["uri"].as_str().unwrap_or("").to_string();
            let cur = docs.get(&u).cloned().unwrap_or_else(|| DocState::Possible([None].into_iter().collect()));
            if let DocState::Possible(set) = cur {
                let mut cur_set = set;
                for ch in params["contentChanges"].as_array().cloned().unwrap_or_default() {
                    let mut next = BTreeSet::new();
                    for p in &cur_set {
                        match p {
                            None => {
                                next.insert(None);
                            }
                            Some(t) => next.extend(apply_allowed(t, &ch)),
                        }
                    }
                    cur_set = next;
                }
                docs.insert(u, DocState::Possible(cur_set));
            }
        }
        "workspace/didChangeWatchedFiles" => {
            for c in params["changes"].as_array().cloned().unwrap_or_default() {
                let u = c["uri"].as_str().unwrap_or("").to_string();
                let open = matches!(docs.get(&u), Some(DocState::Possible(s)) if s.iter().all(|x| x.is_some()));
                if !open {
                    docs.insert(u, DocState::Unconstrained);
                }
            }
        }
        _ => {}
    }
}

fn canary_docs() -> Vec<String> {
    vec![uri("d1"), uri("d2"), uri("d3"), uri("untitled")]
}

fn check_docs(docs: &BTreeMap<String, DocState>, observed: &BTreeMap<String, Option<String>>) -> Vec<(String, String)> {
    let mut out = vec![];
    for u in canary_docs() {
        let st = docs.get(&u).cloned().unwrap_or_else(|| DocState::Possible([None].into_iter().collect()));
        let DocState::Possible(set) = st else { continue };
        let Some(obs) = observed.get(&u) else { continue };
        let mut allowed: BTreeSet<Option<String>> = set.iter().map(|o| o.as_ref().map(|t| RefDoc::new(t.clone()).without_cr())).collect();
        // a document the server need not know may be known from disk (package loading reads
        // sibling files): its on-disk text is then the only other legitimate content
        if allowed.contains(&None) {
            if let Some(disk) = u.strip_prefix("file://").and_then(|p| std::fs::read_to_string(p).ok()) {
                allowed.insert(Some(RefDoc::new(disk).without_cr()));
            }
        }
        if !allowed.contains(obs) {
            let short = u.rsplit('/').next().unwrap_or(&u).to_string();
            out.push(("third-text".to_string(), format!("document {short}: server has {obs:?}, allowed outcomes {allowed:?}")));
        }
    }
    out
}

// ------------------------------------------------------------------ seam S5: real binary

pub struct SeqResult {
    pub problems: Vec<(String, String)>,
    pub responses: usize,
}

fn prologue_msgs() -> Vec<Value> {
    vec![
        json!({"jsonrpc": "2.0", "id": 1, "method": "initialize", "params": {"processId": null, "rootUri": format!("file://{}", ws_dir()), "capabilities": {}}}),
        json!({"jsonrpc": "2.0", "method": "initialized", "params": {}}),
        json!({"jsonrpc": "2.0", "method": "textDocument/didOpen", "params": {"textDocument": {"uri": uri("d1"), "languageId": "gleam", "version": 1, "text": T1}}}),
    ]
}


/// A burst of `n` requests written back to back (no waiting for answers): every one of them
/// must be answered once the server has gone quiet. Returns the ids left unanswered.
pub fn run_burst(n: usize) -> Result<Vec<i64>, String> {
    let mut p = Proc::spawn(&[]).map_err(|e| e.to_string())?;
    for m in prologue_msgs() {
        p.send(&m);
    }
    let mut answered: BTreeSet<i64> = BTreeSet::new();
    let mut init = false;
    let start = std::time::Instant::now();
    while !init && start.elapsed() < Duration::from_secs(20) {
        if let Ok(Some(v)) = p.recv(Duration::from_millis(50)) {
            if v["id"].as_i64() == Some(1) && v.get("method").is_none() {
                init = true;
            }
        }
    }
    if !init {
        return Err("no answer to initialize".into());
    }
    std::thread::sleep(Duration::from_millis(200));
    for i in 0..n {
        p.send(&json!({"jsonrpc": "2.0", "id": 1000 + i as i64, "method": "textDocument/hover", "params": {"textDocument": {"uri": uri("d1")}, "position": pos(0, 8)}}));
    }
    let pid = p.child.id();
    let mut quiet = 0;
    let start = std::time::Instant::now();
    while answered.len() < n && start.elapsed() < Duration::from_secs(30) {
        match p.recv(Duration::from_millis(20)) {
            Ok(Some(v)) => {
                quiet = 0;
                if let (Some(id), true) = (v["id"].as_i64(), v.get("method").is_none()) {
                    answered.insert(id);
                } else if let (Some(_), Some(_)) = (v.get("id"), v["method"].as_str()) {
                    let id = v["id"].clone();
                    p.send(&json!({"jsonrpc": "2.0", "id": id, "result": null}));
                }
            }
            Ok(None) => break,
            Err(()) => {
                // nothing to read: has the server physically gone quiet (every thread asleep)?
                if crate::props::race::server_quiet(pid) {
                    quiet += 1;
                } else {
                    quiet = 0;
                }
                if quiet >= 100 {
                    break;
                }
            }
        }
    }
    p.send(&json!({"jsonrpc": "2.0", "method": "exit", "params": null}));
    p.close_stdin();
    let _ = p.wait_exit(Duration::from_secs(2));
    Ok((0..n as i64).map(|i| 1000 + i).filter(|i| !answered.contains(i)).collect())
}

/// A client that supports `workspace/configuration`: every settings pull of the server is
/// answered with `reply` (whatever its shape); a second pull is provoked with
/// didChangeConfiguration. The server must stay alive and answer a hover afterwards.
pub fn run_config_reply(reply: &Value) -> Vec<(String, String)> {
    let mut problems = vec![];
    let mut p = match Proc::spawn(&[]) {
        Ok(p) => p,
        Err(e) => return vec![("machinery".into(), format!("cannot spawn server: {e}"))],
    };
    p.send(&json!({"jsonrpc": "2.0", "id": 1, "method": "initialize", "params": {"processId": null, "rootUri": format!("file://{}", ws_dir()), "capabilities": {"workspace": {"configuration": true, "didChangeConfiguration": {"dynamicRegistration": true}}}}}));
    p.send(&json!({"jsonrpc": "2.0", "method": "initialized", "params": {}}));
    p.send(&json!({"jsonrpc": "2.0", "method": "textDocument/didOpen", "params": {"textDocument": {"uri": uri("d1"), "languageId": "gleam", "version": 1, "text": T1}}}));
    let mut pulls = 0u32;
    let mut answered: BTreeSet<i64> = BTreeSet::new();
    let mut dead = false;
    let mut pump = |p: &mut Proc, pulls: &mut u32, answered: &mut BTreeSet<i64>, dead: &mut bool, until: &dyn Fn(u32, &BTreeSet<i64>) -> bool, budget: Duration| {
        let start = std::time::Instant::now();
        while !until(*pulls, answered) && start.elapsed() < budget {
            match p.recv(Duration::from_millis(50)) {
                Ok(Some(v)) => {
                    if let (Some(id), true) = (v["id"].as_i64(), v.get("method").is_none()) {
                        answered.insert(id);
                    } else if let (Some(_), Some(m)) = (v.get("id"), v["method"].as_str()) {
                        let id = v["id"].clone();
                        if m == "workspace/configuration" {
                            *pulls += 1;
                            p.send(&json!({"jsonrpc": "2.0", "id": id, "result": reply}));
                        } else {
                            p.send(&json!({"jsonrpc": "2.0", "id": id, "result": null}));
                        }
                    }
                }
                Ok(None) => {
                    *dead = true;
                    return;
                }
                Err(()) => {}
            }
        }
    };
    pump(&mut p, &mut pulls, &mut answered, &mut dead, &|_, a| a.contains(&1), Duration::from_secs(20));
    // the pull that follows `initialized` (if the server pulls at all), then a provoked one
    pump(&mut p, &mut pulls, &mut answered, &mut dead, &|n, _| n >= 1, Duration::from_secs(3));
    p.send(&json!({"jsonrpc": "2.0", "method": "workspace/didChangeConfiguration", "params": {"settings": null}}));
    pump(&mut p, &mut pulls, &mut answered, &mut dead, &|n, _| n >= 2, Duration::from_secs(3));
    p.send(&json!({"jsonrpc": "2.0", "id": 50, "method": "textDocument/hover", "params": {"textDocument": {"uri": uri("d1")}, "position": pos(0, 8)}}));
    pump(&mut p, &mut pulls, &mut answered, &mut dead, &|_, a| a.contains(&50), Duration::from_secs(20));
    if !answered.contains(&50) {
        if dead || !p.alive() {
            let st = p.wait_exit(Duration::from_secs(2));
            problems.push(("server-died".into(), format!("server process ended ({st:?}) after {pulls} settings pull(s) answered with {reply}; hover unanswered")));
        } else {
            problems.push(("no-response".into(), format!("hover not answered after {pulls} settings pull(s) answered with {reply}")));
        }
        return problems;
    }
    p.send(&json!({"jsonrpc": "2.0", "id": 2000, "method": "shutdown", "params": null}));
    pump(&mut p, &mut pulls, &mut answered, &mut dead, &|_, a| a.contains(&2000), Duration::from_secs(20));
    p.send(&json!({"jsonrpc": "2.0", "method": "exit", "params": null}));
    p.close_stdin();
    match p.wait_exit(Duration::from_secs(10)) {
        Some(st) if st.success() => {}
        Some(st) => problems.push(("bad-exit".into(), format!("server exited with {st} after shutdown/exit ({pulls} settings pulls answered with {reply})"))),
        None => problems.push(("no-exit".into(), "server did not exit after shutdown/exit".into())),
    }
    if pulls == 0 {
        problems.push(("vacuous".into(), "the server never pulled its settings".into()));
    }
    problems
}

pub fn run_seq_binary(seq: &[Tpl]) -> SeqResult {
    let mut problems = vec![];
    let mut p = match Proc::spawn(&[]) {
        Ok(p) => p,
        Err(e) => return SeqResult { problems: vec![("machinery".into(), format!("cannot spawn server: {e}"))], responses: 0 },
    };
    let mut docs: BTreeMap<String, DocState> = BTreeMap::new();
    docs.insert(uri("d1"), DocState::Possible([Some(T1.to_string())].into_iter().collect()));
    let mut expected_ids: BTreeMap<i64, String> = BTreeMap::new();
    let mut answered: BTreeMap<i64, usize> = BTreeMap::new();
    for m in prologue_msgs() {
        p.send(&m);
    }
    expected_ids.insert(1, "initialize".into());
    let mut next_id = 10i64;
    for t in seq {
        match t {
            Tpl::Notif { method, params, .. } => {
                p.send(&json!({"jsonrpc": "2.0", "method": method, "params": params}));
            }
            Tpl::Req { name, method, params } => {
                p.send(&json!({"jsonrpc": "2.0", "id": next_id, "method": method, "params": params}));
                expected_ids.insert(next_id, name.clone());
                next_id += 1;
            }
        }
        model_step(&mut docs, t);
    }
    let budget = Duration::from_secs(20);
    let mut dead = false;
    let mut pump = |p: &mut Proc, answered: &mut BTreeMap<i64, usize>, until: &dyn Fn(&BTreeMap<i64, usize>) -> bool, observed: &mut BTreeMap<i64, Value>| -> bool {
        let start = std::time::Instant::now();
        while !until(answered) {
            let left = budget.checked_sub(start.elapsed()).unwrap_or(Duration::ZERO);
            if left.is_zero() {
                return false;
            }
            match p.recv(left) {
                Ok(Some(v)) => {
                    if let (Some(id), true) = (v["id"].as_i64(), v.get("method").is_none()) {
                        *answered.entry(id).or_insert(0) += 1;
                        observed.insert(id, v);
                    } else if let (Some(_), Some(_)) = (v.get("id"), v["method"].as_str()) {
                        // a request from the server (e.g. configuration): answer with null
                        let id = v["id"].clone();
                        p.send(&json!({"jsonrpc": "2.0", "id": id, "result": null}));
                    }
                }
                Ok(None) => {
                    dead = true;
                    return false;
                }
                Err(()) => return false,
            }
        }
        true
    };
    let mut observed: BTreeMap<i64, Value> = BTreeMap::new();
    let ids: Vec<i64> = expected_ids.keys().copied().collect();
    let ok = pump(&mut p, &mut answered, &|a| ids.iter().all(|i| a.contains_key(i)), &mut observed);
    if !ok {
        let missing: Vec<&String> = expected_ids.iter().filter(|(i, _)| !answered.contains_key(i)).map(|(_, n)| n).collect();
        if dead || !p.alive() {
            let st = p.wait_exit(Duration::from_secs(2));
            problems.push(("server-died".into(), format!("server process ended ({st:?}) with requests unanswered: {missing:?}")));
        } else {
            problems.push(("no-response".into(), format!("no response within {budget:?} for {missing:?}")));
        }
        return SeqResult { problems, responses: answered.len() };
    }
    // canary
    let mut canary_ids = BTreeMap::new();
    for (i, u) in canary_docs().into_iter().enumerate() {
        let id = 1000 + i as i64;
        p.send(&json!({"jsonrpc": "2.0", "id": id, "method": "glas/syntaxTree", "params": {"textDocument": {"uri": u}}}));
        canary_ids.insert(id, u);
    }
    p.send(&json!({"jsonrpc": "2.0", "id": 2000, "method": "shutdown", "params": null}));
    let want: Vec<i64> = canary_ids.keys().copied().chain([2000]).collect();
    let ok = pump(&mut p, &mut answered, &|a| want.iter().all(|i| a.contains_key(i)), &mut observed);
    if !ok {
        if dead || !p.alive() {
            let st = p.wait_exit(Duration::from_secs(2));
            problems.push(("server-died".into(), format!("server process ended ({st:?}) before answering the canary")));
        } else {
            problems.push(("no-response".into(), "canary/shutdown not answered".into()));
        }
        return SeqResult { problems, responses: answered.len() };
    }
    p.send(&json!({"jsonrpc": "2.0", "method": "exit", "params": null}));
    p.close_stdin();
    match p.wait_exit(Duration::from_secs(10)) {
        Some(st) if st.success() => {}
        Some(st) => problems.push(("bad-exit".into(), format!("server exited with {st} after shutdown/exit"))),
        None => problems.push(("no-exit".into(), "server did not exit after shutdown/exit".into())),
    }
    for (id, n) in &answered {
        if *n != 1 {
            problems.push(("duplicate-response".into(), format!("request id {id} answered {n} times")));
        }
    }
    let mut obs_docs = BTreeMap::new();
    for (id, u) in &canary_ids {
        if let Some(v) = observed.get(id) {
            let t = v.get("result").and_then(|r| r.as_str()).map(tree_text);
            obs_docs.insert(u.clone(), t);
        }
    }
    problems.extend(check_docs(&docs, &obs_docs));
    SeqResult { problems, responses: answered.len() }
}

// ------------------------------------------------------------------ seam S4: in-process router

pub fn run_seq_inproc(seq: &[Tpl]) -> SeqResult {
    let mut problems = vec![];
    let mut srv = InProc::new();
    let mut docs: BTreeMap<String, DocState> = BTreeMap::new();
    docs.insert(uri("d1"), DocState::Possible([Some(T1.to_string())].into_iter().collect()));
    let _ = srv.open(&uri("d1"), T1);
    let mut responses = 0;
    for t in seq {
        match t {
            Tpl::Notif { name, method, params } => match srv.notify(method, params.clone()) {
                Ok(true) => {}
                Ok(false) => {
                    problems.push(("server-died".into(), format!("the handler of {name} ended the main loop (the router answered with a break)")));
                    return SeqResult { problems, responses };
                }
                Err(m) => {
                    problems.push(("server-died".into(), format!("handler of {name} panicked on the main loop: {}", crate::core::panic_class(&m))));
                    return SeqResult { problems, responses };
                }
            },
            Tpl::Req { name, method, params } => match srv.request(method, params.clone()) {
                Ok(_) => responses += 1,
                Err(m) => {
                    problems.push(("server-died".into(), format!("request {name} panicked outside the task guard: {}", crate::core::panic_class(&m))));
                    return SeqResult { problems, responses };
                }
            },
        }
        model_step(&mut docs, t);
    }
    let mut obs = BTreeMap::new();
    for u in canary_docs() {
        match srv.server_text(&u) {
            Ok(t) => {
                obs.insert(u, t);
            }
            Err(m) => {
                problems.push(("server-died".into(), format!("canary panicked: {}", crate::core::panic_class(&m))));
                return SeqResult { problems, responses };
            }
        }
    }
    problems.extend(check_docs(&docs, &obs));
    SeqResult { problems, responses }
}

fn seq_key(seq: &[Tpl], class: &str, detail: &str) -> String {
    // identify the failing site by the template(s) that matter: the last didChange/didOpen-like
    // notification for document problems, the last message for crashes
    let names: Vec<&str> = seq.iter().map(|t| t.name()).collect();
    match class {
        "third-text" => names.iter().rev().find(|n| n.starts_with("change-") || n.starts_with("open-")).unwrap_or(&"?").to_string(),
        _ => {
            let _ = detail;
            names.last().unwrap_or(&"(prologue)").to_string()
        }
    }
}

fn all_seqs(tpls: &[Tpl], m: usize) -> Vec<Vec<usize>> {
    let mut out: Vec<Vec<usize>> = vec![vec![]];
    let mut frontier: Vec<Vec<usize>> = vec![vec![]];
    for _ in 0..m {
        let mut next = vec![];
        for f in &frontier {
            for i in 0..tpls.len() {
                let mut g = f.clone();
                g.push(i);
                next.push(g);
            }
        }
        out.extend(next.iter().cloned());
        frontier = next;
    }
    out
}

/// Minimise a failing sequence by dropping elements while the same class persists.
fn minimise(tpls: &[Tpl], seq: &[usize], class: &str, run: &dyn Fn(&[Tpl]) -> SeqResult) -> Vec<usize> {
    let mut cur = seq.to_vec();
    loop {
        let mut shrunk = false;
        for i in 0..cur.len() {
            let mut c = cur.clone();
            c.remove(i);
            let ts: Vec<Tpl> = c.iter().map(|&j| tpls[j].clone()).collect();
            if run(&ts).problems.iter().any(|p| p.0 == class) {
                cur = c;
                shrunk = true;
                break;
            }
        }
        if !shrunk {
            return cur;
        }
    }
}

pub fn run(tier: Tier) -> i32 {
    let mut rep = Report::new("C15", tier);
    let dir = ws_dir();
    let _ = std::fs::create_dir_all(&dir);
    let _ = std::fs::write(format!("{dir}/d2.gleam"), "pub fn two() { 2 }\n");
    let _ = std::fs::remove_file(format!("{dir}/d3.gleam"));
    if !std::path::Path::new(&crate::lsp::proc::server_bin()).exists() {
        rep.machinery(format!("server binary {} not built", crate::lsp::proc::server_bin()));
        return rep.finish();
    }
    let tpls = templates();
    let mut outcome_classes: BTreeSet<String> = BTreeSet::new();
    let mut with_change = 0u64;
    let mut do_layer = |rep: &mut Report, name: &str, seqs: &[Vec<usize>], binary: bool| {
        let res: Vec<(usize, SeqResult)> = seqs
            .par_iter()
            .enumerate()
            .map(|(i, s)| {
                let ts: Vec<Tpl> = s.iter().map(|&j| tpls[j].clone()).collect();
                (i, if binary { run_seq_binary(&ts) } else { run_seq_inproc(&ts) })
            })
            .collect();
        let mut l = Layer { name: name.into(), states: seqs.len() as u64, exhaustive: true, ..Default::default() };
        let mut seen_keys: BTreeSet<String> = BTreeSet::new();
        for (i, r) in res {
            l.executions += 1;
            l.transitions += seqs[i].len() as u64 + r.responses as u64;
            if r.problems.is_empty() {
                outcome_classes.insert("ok".into());
            }
            for (class, detail) in r.problems {
                outcome_classes.insert(class.clone());
                if class == "machinery" {
                    rep.machinery(detail);
                    continue;
                }
                let ts: Vec<Tpl> = seqs[i].iter().map(|&j| tpls[j].clone()).collect();
                let k0 = format!("{class}|{}", seq_key(&ts, &class, &detail));
                if !seen_keys.insert(k0) {
                    continue;
                }
                let runner: &dyn Fn(&[Tpl]) -> SeqResult = if binary { &run_seq_binary } else { &run_seq_inproc };
                let min = minimise(&tpls, &seqs[i], &class, runner);
                let mts: Vec<Tpl> = min.iter().map(|&j| tpls[j].clone()).collect();
                let names: Vec<&str> = mts.iter().map(|t| t.name()).collect();
                rep.violation(Violation {
                    class: class.clone(),
                    key: names.join(" ; "),
                    witness: json!({"seam": if binary { "binary" } else { "inproc" }, "sequence": names}),
                    detail: format!("[{}] after the prologue, sequence {names:?}: {detail}", if binary { "real binary" } else { "in-process router" }),
                });
            }
        }
        rep.layer(l);
    };
    let _ = &mut with_change;
    let m_bin = tier.pick(2usize, 2usize);
    let seqs = all_seqs(&tpls, m_bin);
    with_change += seqs.iter().filter(|s| s.iter().any(|&i| tpls[i].name().starts_with("change-"))).count() as u64;
    do_layer(&mut rep, &format!("binary-all-sequences-le{m_bin}"), &seqs, true);
    let m_in = tier.pick(2usize, 3usize);
    let seqs_in = all_seqs(&tpls, m_in);
    do_layer(&mut rep, &format!("inproc-all-sequences-le{m_in}"), &seqs_in, false);
    // non-initial store: a document has been forgotten (its slot in the store is vacant) before
    // the sequence starts - every pair of templates after each way of losing d1
    {
        let idx = |name: &str| tpls.iter().position(|t| t.name() == name);
        // a second document is opened first, so that the vacated slot lies below an occupied one
        let prefixes: [&[&str]; 4] = [
            &["open-d2", "change-d1-line-far-beyond"],
            &["open-d2", "change-d1-reversed-same-line"],
            &["open-d2", "open-d3-nonascii", "change-d2-unknown-position"],
            &["open-d2", "open-d3-nonascii", "change-d1-line-far-beyond"],
        ];
        let pairs = all_seqs(&tpls, 2);
        let mut seqs3: Vec<Vec<usize>> = vec![];
        for pre in prefixes {
            let Some(pi) = pre.iter().map(|f| idx(f)).collect::<Option<Vec<usize>>>() else {
                continue;
            };
            for p in &pairs {
                if p.len() == 2 {
                    let mut s = pi.clone();
                    s.extend(p.iter().copied());
                    seqs3.push(s);
                }
            }
        }
        rep.guard(!seqs3.is_empty(), "forgotten-document prefixes found");
        do_layer(&mut rep, "inproc-pairs-after-a-forgotten-document", &seqs3, false);
    }
    // the life of one document: every sequence of <= 4 (quick) / 5 (thorough) messages about d1, and one message more over a core alphabet
    // (open again, valid / full / unappliable change, close, save, watched-file deleted, a request)
    // and the opening of a second document - closed, vanished and re-used store slots included
    {
        let names = ["open-d1-again", "change-d1-valid", "change-d1-full", "change-d1-line-far-beyond", "close-d1", "save-d1", "watch-deleted-d1-open", "open-d2", "hover-d1-valid"];
        let idx: Vec<usize> = names.iter().filter_map(|n| tpls.iter().position(|t| t.name() == *n)).collect();
        rep.guard(idx.len() == names.len(), "life-cycle templates found");
        // full alphabet to depth 4 (quick) / 5 (thorough); one level deeper over the six messages
        // that change the store (no save, no request, no second open of d1)
        let depth = tier.pick(4usize, 5usize);
        let core: Vec<usize> = idx.iter().copied().filter(|i| !matches!(tpls[*i].name(), "save-d1" | "hover-d1-valid" | "open-d1-again")).collect();
        let mut seqs: Vec<Vec<usize>> = vec![];
        for (alphabet, d) in [(&idx, depth), (&core, depth + 1)] {
            let mut frontier: Vec<Vec<usize>> = vec![vec![]];
            for level in 0..d {
                let mut next = vec![];
                for f in &frontier {
                    for &i in alphabet.iter() {
                        let mut g = f.clone();
                        g.push(i);
                        next.push(g);
                    }
                }
                if alphabet.len() == idx.len() || level + 1 == d {
                    seqs.extend(next.iter().cloned());
                }
                frontier = next;
            }
        }
        do_layer(&mut rep, &format!("inproc-life-of-a-document-le{}", depth + 1), &seqs, false);
    }
    // URI shapes: per URI all sequences over its own six messages (followed by the canary checks)
    let mut uri_classes: BTreeSet<String> = BTreeSet::new();
    {
        let groups = uri_templates();
        let m_uri = tier.pick(2usize, 3usize);
        for binary in [true, false] {
            let mut flat: Vec<Tpl> = vec![];
            let mut seqs: Vec<Vec<usize>> = vec![];
            for (_, g) in &groups {
                let base = flat.len();
                flat.extend(g.iter().cloned());
                let local: Vec<Tpl> = g.clone();
                for sq in all_seqs(&local, m_uri) {
                    if !sq.is_empty() {
                        seqs.push(sq.into_iter().map(|i| i + base).collect());
                    }
                }
            }
            let res: Vec<(usize, SeqResult)> = seqs
                .par_iter()
                .enumerate()
                .map(|(i, sq)| {
                    let ts: Vec<Tpl> = sq.iter().map(|&j| flat[j].clone()).collect();
                    (i, if binary { run_seq_binary(&ts) } else { run_seq_inproc(&ts) })
                })
                .collect();
            let mut l = Layer { name: format!("uri-shapes-{}", if binary { "binary" } else { "inproc" }), states: seqs.len() as u64, exhaustive: true, ..Default::default() };
            for (i, r) in res {
                l.executions += 1;
                l.transitions += seqs[i].len() as u64 + r.responses as u64;
                for (class, detail) in r.problems {
                    if class == "machinery" {
                        rep.machinery(detail);
                        continue;
                    }
                    uri_classes.insert(class.clone());
                    let names: Vec<String> = seqs[i].iter().map(|&j| flat[j].name().to_string()).collect();
                    let tag = names[0].splitn(2, '-').nth(1).unwrap_or("").to_string();
                    rep.violation(Violation { class: class.clone(), key: format!("uri-shape|{tag}|{}", names.iter().map(|n| n.split('-').next().unwrap_or("")).collect::<Vec<_>>().join(">")), witness: json!({"seam": if binary { "binary" } else { "inproc" }, "sequence": names}), detail: format!("[{}] after the prologue, sequence {names:?}: {detail}", if binary { "real binary" } else { "in-process router" }) });
                }
            }
            l.bound = format!("{} URI shapes (other schemes with/without authority and absolute path, file URIs with host / percent-encoding / query / fragment / directory / missing directory / `..`) x all sequences of 1..={m_uri} of that URI's own messages {{didOpen, didChange, hover, didClose, watched-file event, rename}}", groups.len());
            rep.layer(l);
        }
    }
    // odd messages: every one alone, every ordered pair of them, and each before / after three
    // ordinary messages (an edit, a request, an open) - on both seams
    {
        let dirp = format!("{}/proj", ws_dir());
        let _ = std::fs::create_dir_all(format!("{dirp}/src"));
        let _ = std::fs::write(format!("{dirp}/gleam.toml"), "name = \"proj\"\nversion = \"1.0.0\"\n");
        let _ = std::fs::write(format!("{dirp}/src/ok.gleam"), "pub fn ok() { 1 }\n");
        let odd = odd_templates();
        let ordinary: Vec<Tpl> = tpls.iter().filter(|t| matches!(t.name(), "change-d1-valid" | "hover-d1-valid" | "open-d2")).cloned().collect();
        let mut flat: Vec<Tpl> = odd.clone();
        flat.extend(ordinary.iter().cloned());
        let no = odd.len();
        let mut seqs: Vec<Vec<usize>> = vec![];
        for i in 0..no {
            seqs.push(vec![i]);
            for j in 0..flat.len() {
                seqs.push(vec![i, j]);
                if j >= no {
                    seqs.push(vec![j, i]);
                }
            }
        }
        for binary in [true, false] {
            let res: Vec<(usize, SeqResult)> = seqs
                .par_iter()
                .enumerate()
                .map(|(i, sq)| {
                    let ts: Vec<Tpl> = sq.iter().map(|&j| flat[j].clone()).collect();
                    (i, if binary { run_seq_binary(&ts) } else { run_seq_inproc(&ts) })
                })
                .collect();
            let mut l = Layer { name: format!("odd-messages-{}", if binary { "binary" } else { "inproc" }), states: seqs.len() as u64, exhaustive: true, ..Default::default() };
            let mut seen: BTreeSet<String> = BTreeSet::new();
            // shortest sequences first: a message that is fatal alone is reported alone
            let mut order: Vec<usize> = (0..res.len()).collect();
            order.sort_by_key(|&k| seqs[res[k].0].len());
            let mut fatal_alone: BTreeSet<usize> = BTreeSet::new();
            for k in order {
                let (i, r) = &res[k];
                l.executions += 1;
                l.transitions += seqs[*i].len() as u64 + r.responses as u64;
                for (class, detail) in &r.problems {
                    if class == "machinery" {
                        rep.machinery(detail.clone());
                        continue;
                    }
                    uri_classes.insert(class.clone());
                    if seqs[*i].len() == 1 {
                        fatal_alone.insert(seqs[*i][0]);
                    } else if seqs[*i].iter().any(|j| fatal_alone.contains(j)) {
                        continue;
                    }
                    let names: Vec<String> = seqs[*i].iter().map(|&j| flat[j].name().to_string()).collect();
                    let key = format!("odd-message|{class}|{}", names.join(">"));
                    if seen.insert(key.clone()) {
                        rep.violation(Violation { class: class.clone(), key, witness: json!({"seam": if binary { "binary" } else { "inproc" }, "odd_sequence": names}), detail: format!("[{}] after the prologue, sequence {names:?}: {detail}", if binary { "real binary" } else { "in-process router" }) });
                    }
                }
            }
            l.bound = format!("{} odd messages (notifications with parameters that do not deserialise - out-of-range, negative, wrongly typed, missing -, methods the server does not implement as notification and as request, `$/` messages, watched-file events for non-file URIs of existing paths, a file name that is not UTF-8): each alone, every ordered pair of them, and each before and after an ordinary edit / request / open; canary and shutdown follow", no);
            rep.layer(l);
        }
    }
    // settings replies of every JSON shape, from a client that supports workspace/configuration
    {
        let shapes: Vec<Value> = vec![
            json!(null), json!([]), json!([null]), json!([{}]), json!([{"gleam": {"binary": "/nonexistent/gleam"}}]), json!([{"gleam": {"binary": 42}}]),
            json!([{"gleam": {"binary": null}}]), json!([{"gleam": "/usr/local/bin/gleam"}]), json!([{"gleam": null}]), json!([{"gleam": [1]}]), json!([{"gleam": 7}]),
            json!({"gleam": "/usr/local/bin/gleam"}), json!({"gleam": {"binary": "/nonexistent/gleam"}}), json!({}), json!("gleam"), json!([1, 2]), json!(42), json!(true), json!([[1]]), json!(["gleam"]), json!([true]), json!([3.5]),
        ];
        let res: Vec<(usize, Vec<(String, String)>)> = shapes.par_iter().enumerate().map(|(i, sh)| (i, run_config_reply(sh))).collect();
        let mut l = Layer { name: "settings-replies".into(), exhaustive: true, ..Default::default() };
        let mut pulled = 0;
        for (i, probs) in res {
            l.states += 1;
            l.executions += 1;
            l.transitions += 4;
            if !probs.iter().any(|p| p.0 == "vacuous") {
                pulled += 1;
            }
            for (class, detail) in probs {
                match class.as_str() {
                    "machinery" => rep.machinery(detail),
                    "vacuous" => {}
                    _ => {
                        let kind = |v: &Value| match v { Value::Null => "null", Value::Bool(_) => "boolean", Value::Number(_) => "number", Value::String(_) => "string", Value::Array(_) => "array", Value::Object(_) => "object" };
                        let sh = &shapes[i];
                        let inner = sh.as_array().and_then(|a| a.first()).map(|f| format!(" of {}", kind(f))).unwrap_or_default();
                        rep.violation(Violation { class, key: format!("settings reply|{}{inner}", kind(sh)), witness: json!({"settings_reply": sh}), detail: format!("[real binary] client supporting workspace/configuration answers the settings pull with {sh}: {detail}") });
                    }
                }
            }
        }
        rep.guard(pulled > 0, "the server pulls its settings from a client that supports workspace/configuration");
        l.bound = format!("{} JSON shapes of the client's answer to the server's workspace/configuration request (null, arrays / objects / scalars at the top and at the `gleam` and `binary` levels), given after `initialized` and again after didChangeConfiguration: the server stays alive, answers a hover, exits 0", shapes.len());
        rep.layer(l);
    }
    // bursts: n requests written without waiting for answers, n around and above the server's
    // limit of concurrently handled requests (the number of cores)
    {
        let sizes: Vec<usize> = vec![4, 15, 16, 17, 24, 32, 48, 60, 64, 96];
        let res: Vec<(usize, Result<Vec<i64>, String>)> = sizes.iter().map(|&n| (n, run_burst(n))).collect();
        let mut l = Layer { name: "request-bursts".into(), exhaustive: false, ..Default::default() };
        for (n, r) in res {
            l.states += 1;
            l.executions += 1;
            l.transitions += n as u64;
            match r {
                Err(e) => rep.machinery(format!("burst of {n}: {e}")),
                Ok(missing) if missing.is_empty() => {}
                Ok(missing) => rep.violation(Violation { class: "no-response".into(), key: "burst of requests above the concurrency limit".into(), witness: json!({"burst": n}), detail: format!("[real binary] {n} hover requests written back to back: {} of them are never answered although the server has gone quiet (every thread asleep, nothing to read); first unanswered ids {:?}", missing.len(), missing.iter().take(5).collect::<Vec<_>>()) }),
            }
        }
        l.bound = format!("bursts of {sizes:?} hover requests written without waiting for answers (a fresh server each); all must be answered by the time the server is physically quiet. A finite list of burst sizes, one run each - the interleaving inside the server is not controlled here");
        rep.layer(l);
    }
    if tier == Tier::Thorough {
        // binary, m = 3, sequences that contain a didChange and whose other two messages are notifications
        let notif: Vec<usize> = (0..tpls.len()).filter(|&i| matches!(tpls[i], Tpl::Notif { .. })).collect();
        let mut s3 = vec![];
        for &a in &notif {
            for &b in &notif {
                for &c in &notif {
                    let s = vec![a, b, c];
                    if s.iter().filter(|&&i| tpls[i].name().starts_with("change-")).count() >= 2 {
                        s3.push(s);
                    }
                }
            }
        }
        do_layer(&mut rep, "binary-3-notifications-with-2-changes", &s3, true);
    }
    rep.layer(Layer { name: "templates".into(), states: tpls.len() as u64, transitions: tpls.len() as u64, executions: 0, exhaustive: true, bound: format!("{} message templates: {:?}", tpls.len(), tpls.iter().map(|t| t.name().to_string()).collect::<Vec<_>>()), ..Default::default() });
    rep.distinct_nontrivial = with_change;
    outcome_classes.extend(uri_classes);
    rep.distinct_outcomes = outcome_classes.len() as u64;
    rep.rule = "all sequences of <= m templates after initialize/initialized/didOpen(d1); non-trivial = sequences containing at least one didChange".into();
    rep.sample(json!({"sequence": ["change-d1-reversed-same-line", "hover-d1-valid"]}));
    rep.assumptions = vec!["document text is observed through glas/syntaxTree (leaf texts of the printed tree)".into(), "closed documents and documents touched by file-watch events are unconstrained in the text oracle".into()];
    rep.guard(with_change > 100, "sequences with document changes");
    rep.finish()
}

pub fn replay(w: &Value) -> Vec<String> {
    if let Some(n) = w["burst"].as_u64() {
        return match run_burst(n as usize) {
            Ok(m) if m.is_empty() => vec![],
            Ok(m) => vec![format!("no-response: {} of {n} requests unanswered", m.len())],
            Err(e) => vec![format!("machinery: {e}")],
        };
    }
    if let Some(sh) = w.get("settings_reply") {
        return run_config_reply(sh).into_iter().filter(|p| p.0 != "vacuous").map(|(c, d)| format!("{c}: {d}")).collect();
    }
    let mut tpls = templates();
    for (_, g) in uri_templates() {
        tpls.extend(g);
    }
    tpls.extend(odd_templates());
    let mut ts = vec![];
    let dirp = format!("{}/proj", ws_dir());
    let _ = std::fs::create_dir_all(format!("{dirp}/src"));
    let _ = std::fs::write(format!("{dirp}/gleam.toml"), "name = \"proj\"\nversion = \"1.0.0\"\n");
    let names = if w.get("odd_sequence").is_some() { &w["odd_sequence"] } else { &w["sequence"] };
    for n in names.as_array().cloned().unwrap_or_default() {
        let Some(t) = tpls.iter().find(|t| Some(t.name()) == n.as_str()) else { return vec![format!("unknown template {n}")] };
        ts.push(t.clone());
    }
    let dir = ws_dir();
    let _ = std::fs::create_dir_all(&dir);
    let _ = std::fs::write(format!("{dir}/d2.gleam"), "pub fn two() { 2 }\n");
    let r = if w["seam"].as_str() == Some("inproc") { run_seq_inproc(&ts) } else { run_seq_binary(&ts) };
    r.problems.into_iter().map(|(c, d)| format!("{c}: {d}")).collect()
}
