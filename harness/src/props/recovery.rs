//! C03 — a syntax error inside one definition does not disturb the others.
//! Exhaustive enumeration of <=k token edits (non-opening alphabet) inside each victim body.
use crate::core::alphabet;
use crate::core::{catch, panic_class, Layer, Report, Tier, Violation};
use rayon::prelude::*;
use serde_json::json;
use std::collections::BTreeSet;
use syntax::ast::{self, AstNode};
use syntax::SyntaxKind;

#[derive(Clone, Debug, PartialEq, Eq)]
struct Def {
    kind: SyntaxKind,
    name: String,
    text: String,
    start: usize,
    end: usize,
}

fn defs_of(text: &str) -> Result<(Vec<Def>, Vec<(usize, usize, String)>), String> {
    catch(|| {
        let p = syntax::parse_module(text);
        let root = p.root();
        let defs = root
            .statements()
            .map(|s| {
                let n = s.syntax();
                let name = match &s {
                    ast::ModuleStatement::Function(f) => f.name().and_then(|n| n.text()).map(|t| t.to_string()),
                    ast::ModuleStatement::ModuleConstant(c) => c.name().and_then(|n| n.text()).map(|t| t.to_string()),
                    ast::ModuleStatement::Adt(a) => a.name().and_then(|n| n.text()).map(|t| t.to_string()),
                    ast::ModuleStatement::TypeAlias(a) => a.name().and_then(|n| n.text()).map(|t| t.to_string()),
                    ast::ModuleStatement::Import(i) => i.module_path().map(|m| m.syntax().text().to_string()),
                }
                .unwrap_or_default();
                Def { kind: n.kind(), name, text: n.text().to_string(), start: usize::from(n.text_range().start()), end: usize::from(n.text_range().end()) }
            })
            .collect();
        let errs = p.errors().iter().map(|e| (usize::from(e.range.start()), usize::from(e.range.end()), format!("{:?}", e.kind))).collect();
        (defs, errs)
    })
}

/// A victim: definition index plus the byte range of its body interior (between the first `{`
/// and the last `}` of the definition).
struct Victim {
    def: usize,
    open_end: usize,
    close_start: usize,
    body_kind: String,
}

fn victims(text: &str, defs: &[Def]) -> Vec<Victim> {
    let mut out = vec![];
    for (i, d) in defs.iter().enumerate() {
        let toks: Vec<_> = syntax::lexer::GleamLexer::new(&text[d.start..d.end]).collect();
        let first = toks.iter().find(|t| t.kind == SyntaxKind::L_BRACE);
        let last = toks.iter().rev().find(|t| !t.kind.is_trivia());
        if let (Some(f), Some(l)) = (first, last) {
            if l.kind == SyntaxKind::R_BRACE {
                out.push(Victim {
                    def: i,
                    open_end: d.start + usize::from(f.range.end()),
                    close_start: d.start + usize::from(l.range.start()),
                    body_kind: format!("{:?}", d.kind),
                });
            }
        }
    }
    out
}

fn interior_tokens(text: &str) -> Vec<(SyntaxKind, String)> {
    syntax::lexer::GleamLexer::new(text).filter(|t| !t.kind.is_trivia()).map(|t| (t.kind, t.text.to_string())).collect()
}

fn balanced(toks: &[(SyntaxKind, String)]) -> bool {
    let mut d = 0i32;
    for (k, _) in toks {
        match k {
            SyntaxKind::L_BRACE => d += 1,
            SyntaxKind::R_BRACE => {
                d -= 1;
                if d < 0 {
                    return false;
                }
            }
            _ => {}
        }
    }
    d == 0
}

#[derive(Clone, Debug)]
enum Edit {
    Ins(usize, usize),
    Del(usize),
    Rep(usize, usize),
}

fn apply(toks: &[(SyntaxKind, String)], e: &Edit, alpha: &[(SyntaxKind, String)]) -> Vec<(SyntaxKind, String)> {
    let mut v = toks.to_vec();
    match *e {
        Edit::Ins(i, a) => v.insert(i, alpha[a].clone()),
        Edit::Del(i) => {
            v.remove(i);
        }
        Edit::Rep(i, a) => v[i] = alpha[a].clone(),
    }
    v
}

fn edits(n: usize, na: usize) -> Vec<Edit> {
    let mut v = vec![];
    for i in 0..n {
        v.push(Edit::Del(i));
    }
    for i in 0..=n {
        for a in 0..na {
            v.push(Edit::Ins(i, a));
        }
    }
    for i in 0..n {
        for a in 0..na {
            v.push(Edit::Rep(i, a));
        }
    }
    v
}

struct Case<'a> {
    prefix: &'a str,
    suffix: &'a str,
    others: &'a [Def],
    victim_start: usize,
    next_start_from_end: Option<usize>,
}

/// Evaluates one damaged interior; returns (class, detail) per failure.
fn eval(case: &Case, interior: &[(SyntaxKind, String)]) -> (Vec<(String, String)>, usize) {
    let mut text = String::with_capacity(case.prefix.len() + case.suffix.len() + interior.len() * 4);
    text.push_str(case.prefix);
    for (_, t) in interior {
        text.push(' ');
        text.push_str(t);
    }
    text.push(' ');
    text.push_str(case.suffix);
    let r_start = case.victim_start;
    let r_end = match case.next_start_from_end {
        Some(from_end) => text.len() - from_end,
        None => text.len(),
    };
    let mut out = vec![];
    match defs_of(&text) {
        Err(m) => out.push(("panic".to_string(), format!("parser panicked: {}", panic_class(&m)))),
        Ok((defs, errs)) => {
            let outside: Vec<&Def> = defs.iter().filter(|d| d.end <= r_start || d.start >= r_end).collect();
            let same = outside.len() == case.others.len()
                && outside.iter().zip(case.others).all(|(a, b)| a.kind == b.kind && a.name == b.name && a.text == b.text);
            if !same {
                let got: Vec<String> = outside.iter().map(|d| format!("{:?} {}", d.kind, d.name)).collect();
                let want: Vec<String> = case.others.iter().map(|d| format!("{:?} {}", d.kind, d.name)).collect();
                out.push(("definitions-disturbed".into(), format!("other definitions recognised: {got:?}, expected {want:?}")));
            }
            for (s, e, k) in &errs {
                if !(*s >= r_start && *e <= r_end) {
                    out.push(("error-outside".into(), format!("syntax error {k} at {s}..{e} outside the damaged region {r_start}..{r_end}")));
                    break;
                }
            }
            return (out, errs.len());
        }
    }
    (out, 0)
}

fn ctx_of(toks: &[(SyntaxKind, String)], e: &Edit, alpha: &[(SyntaxKind, String)]) -> String {
    let k = |i: usize| toks.get(i).map(|t| format!("{:?}", t.0)).unwrap_or_else(|| "END".into());
    let p = |i: usize| if i == 0 { "BEGIN".to_string() } else { k(i - 1) };
    match *e {
        Edit::Ins(i, a) => format!("ins {:?} between {} and {}", alpha[a].0, p(i), k(i)),
        Edit::Del(i) => format!("del {} after {}", k(i), p(i)),
        Edit::Rep(i, a) => format!("rep {} by {:?} after {}", k(i), alpha[a].0, p(i)),
    }
}

pub fn run(tier: Tier) -> i32 {
    let mut rep = Report::new("C03", tier);
    let alpha: Vec<(SyntaxKind, String)> = alphabet::sigma_damage()
        .into_iter()
        .map(|s| {
            let k = syntax::lexer::GleamLexer::new(s).next().map(|t| t.kind).unwrap_or(SyntaxKind::ERROR);
            (k, s.to_string())
        })
        .collect();
    let mut files = crate::props::parser::seed_files();
    // grammar-derived victims: every production of the reference grammar as the body of a
    // definition placed between fixed neighbours (so every construct also occurs LAST in a body)
    {
        use crate::gleam::ast::{Expr, Item, Module, Stmt};
        use crate::gleam::print::{print_module, Layout};
        let nb = |n: &str| Item::Fn { public: false, external: false, target: None, name: n.into(), params: vec![], ret: None, body: Some(vec![Stmt::Expr(Expr::Int("0".into()))]) };
        let items = if tier == Tier::Thorough { crate::gleam::enumerate::items(1) } else { crate::gleam::enumerate::items_small() };
        for (i, it) in items.into_iter().enumerate() {
            let m = Module { items: vec![nb("before"), it, nb("after"), Item::Const { public: false, name: "tail".into(), ann: None, value: Expr::Int("1".into()) }] };
            files.push((format!("gen/{i}"), print_module(&m, Layout::Space).text));
        }
    }
    // every way a top-level definition can begin, as the definition right after the victim (what
    // re-synchronises the top-level loop after damage that ends the victim's block early)
    {
        let neighbours = [
            "opaque type O { O(a: Int) }",
            "pub opaque type O { O(a: Int) }",
            "type T { A B }",
            "pub type T { A(x: Int) }",
            "type Al = Int",
            "pub type Al = List(Int)",
            "const c = 1",
            "pub const c: Int = 1",
            "import a/b",
            "import a/b.{c, type D} as e",
            "fn n() { 0 }",
            "pub fn n() { 0 }",
            "@external(erlang, \"m\", \"f\")\nfn n() -> Int",
            "@target(erlang)\nfn n() { 0 }",
            "@external(javascript, \"m\", \"f\")\npub fn n(a: Int) -> Int",
        ];
        let victims_src = ["fn victim(x) { case x { 1 -> 2 _ -> 3 } }", "fn victim(x) { let y = #(x, [x]) y }", "type Victim { Va(f: Int, g: List(Int)) Vb }"];
        for (vi, vs) in victims_src.iter().enumerate() {
            for (k, nbr) in neighbours.iter().enumerate() {
                files.push((format!("gen/neighbour-{vi}-{k}"), format!("fn before() {{ 0 }}\n{vs}\n{nbr}\nconst tail = 1\n")));
            }
        }
    }
    let mut body_kinds_with_errors: BTreeSet<String> = BTreeSet::new();
    let mut body_kinds: BTreeSet<String> = BTreeSet::new();
    let mut distinct_damaged = 0u64;
    let mut gen_layer = Layer { name: "grammar-derived-victims".into(), exhaustive: true, ..Default::default() };
    let mut gen_victims = 0u64;
    for (fname, raw) in &files {
        let Ok((defs0, errs0)) = defs_of(raw) else { continue };
        if !errs0.is_empty() || defs0.len() < 3 {
            rep.machinery(format!("seed {fname} is not an error-free file of >=3 definitions"));
            continue;
        }
        let small = fname.contains("c03_small");
        if fname.contains("c03_small2") && tier == Tier::Quick {
            // second small file: k=1 in quick like every seed, k=2 in thorough
        }
        let k = if small && tier == Tier::Thorough { 2 } else { 1 };
        // quick tier, compact seeds: a second edit restricted to the END of the body (insert
        // before the closing brace, replace or delete the last token) on top of every first edit
        let tail2 = small && tier == Tier::Quick;
        for v in victims(raw, &defs0) {
            if fname.starts_with("gen/") && v.def != 1 {
                continue;
            }
            let d = &defs0[v.def];
            let prefix = &raw[..v.open_end];
            let suffix = &raw[v.close_start..];
            let toks = interior_tokens(&raw[v.open_end..v.close_start]);
            let others: Vec<Def> = defs0.iter().enumerate().filter(|(i, _)| *i != v.def).map(|(_, d)| d.clone()).collect();
            let case = Case {
                prefix,
                suffix,
                others: &others,
                victim_start: d.start,
                next_start_from_end: defs0.get(v.def + 1).map(|n| raw.len() - n.start),
            };
            // Baseline: the re-spaced original must satisfy the oracle with zero errors.
            let (b, nerr) = eval(&case, &toks);
            if !b.is_empty() || nerr != 0 {
                rep.machinery(format!("baseline of {fname} victim {} does not satisfy the oracle: {b:?}", d.name));
                continue;
            }
            body_kinds.insert(v.body_kind.clone());
            let e1 = edits(toks.len(), alpha.len());
            let res: Vec<(u64, u64, u64, Vec<Violation>)> = e1
                .par_iter()
                .map(|ed| {
                    let mut n = 0u64;
                    let mut with_err = 0u64;
                    let mut skipped = 0u64;
                    let mut viol = vec![];
                    let t1 = apply(&toks, ed, &alpha);
                    let mut check = |interior: &[(SyntaxKind, String)], desc: String, n: &mut u64, with_err: &mut u64, viol: &mut Vec<Violation>| {
                        *n += 1;
                        let (fails, nerr) = eval(&case, interior);
                        if nerr > 0 {
                            *with_err += 1;
                        }
                        for (class, detail) in fails {
                            if viol.len() < 4 {
                                viol.push(Violation {
                                    class: class.clone(),
                                    key: format!("{}|{}", v.body_kind, desc),
                                    witness: json!({"file": fname, "raw": raw, "victim": d.name, "interior": interior.iter().map(|t| t.1.clone()).collect::<Vec<_>>(), "edit": desc}),
                                    detail: format!("{fname}: victim {:?} {} damaged by [{desc}]: {detail}", d.kind, d.name),
                                });
                            }
                        }
                    };
                    if balanced(&t1) {
                        check(&t1, ctx_of(&toks, ed, &alpha), &mut n, &mut with_err, &mut viol);
                    } else {
                        skipped += 1;
                    }
                    if k >= 2 || tail2 {
                        let second: Vec<Edit> = if k >= 2 {
                            edits(t1.len(), alpha.len())
                        } else {
                            let n1 = t1.len();
                            let mut v: Vec<Edit> = (0..alpha.len()).map(|a| Edit::Ins(n1, a)).collect();
                            if n1 > 0 {
                                v.push(Edit::Del(n1 - 1));
                                v.extend((0..alpha.len()).map(|a| Edit::Rep(n1 - 1, a)));
                            }
                            v
                        };
                        for ed2 in second {
                            let t2 = apply(&t1, &ed2, &alpha);
                            if balanced(&t2) {
                                let desc = format!("{} ; {}", ctx_of(&toks, ed, &alpha), ctx_of(&t1, &ed2, &alpha));
                                check(&t2, desc, &mut n, &mut with_err, &mut viol);
                            } else {
                                skipped += 1;
                            }
                        }
                    }
                    (n, with_err, skipped, viol)
                })
                .collect();
            let mut l = Layer { name: format!("{fname}:{}:{}", v.body_kind, d.name), exhaustive: true, ..Default::default() };
            let mut skipped = 0;
            let mut with_err = 0;
            for (n, we, sk, viol) in res {
                l.transitions += n;
                l.executions += n;
                with_err += we;
                skipped += sk;
                for x in viol {
                    rep.violation(x);
                }
            }
            l.states = l.executions;
            distinct_damaged += l.executions;
            if with_err > 0 {
                body_kinds_with_errors.insert(v.body_kind.clone());
            }
            l.bound = format!("all sequences of <= {k} edits (insert/delete/replace, {} non-opening symbols) over {} interior tokens; {skipped} unbalanced results excluded; {with_err} damaged variants produced syntax errors", alpha.len(), toks.len());
            if fname.starts_with("gen/") {
                gen_layer.states += l.states;
                gen_layer.transitions += l.transitions;
                gen_layer.executions += l.executions;
                gen_victims += 1;
            } else {
                rep.layer(l);
            }
        }
    }
    gen_layer.bound = format!("{gen_victims} victims generated from the reference grammar (every production as the body of a definition between fixed neighbours; and 3 victims followed by each of 15 ways a top-level definition can begin: opaque / pub opaque / plain types, aliases, constants, imports, functions, attributes) x all single edits");
    rep.layer(gen_layer);
    rep.distinct_nontrivial = distinct_damaged;
    rep.distinct_outcomes = 1 + rep.violations.iter().map(|v| v.class.clone()).collect::<BTreeSet<_>>().len() as u64;
    rep.rule = "every damaged variant is a distinct (victim, edit sequence); non-trivial = brace-balanced damaged variants actually parsed".into();
    rep.sample(json!({"file": "seeds/c03_small.gleam", "victim": "f", "edit": "ins HASH between LET_KW and IDENT"}));
    rep.assumptions = vec!["seed files are well-formed (checked: zero syntax errors, >= 3 definitions)".into()];
    rep.guard(body_kinds.len() >= 3, "victims of at least 3 body kinds (function, custom type, import)");
    rep.guard(body_kinds_with_errors == body_kinds, "every body kind had damage that produced syntax errors");
    rep.finish()
}

pub fn replay(w: &serde_json::Value) -> Vec<String> {
    let Some(raw) = w["raw"].as_str().map(|s| s.to_string()) else {
        return vec!["witness has no file text".into()];
    };
    let raw = &raw;
    let Ok((defs0, _)) = defs_of(raw) else { return vec!["seed does not parse".into()] };
    for v in victims(raw, &defs0) {
        let d = &defs0[v.def];
        if Some(d.name.as_str()) != w["victim"].as_str() {
            continue;
        }
        let others: Vec<Def> = defs0.iter().enumerate().filter(|(i, _)| *i != v.def).map(|(_, d)| d.clone()).collect();
        let case = Case { prefix: &raw[..v.open_end], suffix: &raw[v.close_start..], others: &others, victim_start: d.start, next_start_from_end: defs0.get(v.def + 1).map(|n| raw.len() - n.start) };
        let interior: Vec<(SyntaxKind, String)> = w["interior"].as_array().map(|a| a.iter().filter_map(|x| x.as_str()).map(|s| (syntax::lexer::GleamLexer::new(s).next().map(|t| t.kind).unwrap_or(SyntaxKind::ERROR), s.to_string())).collect()).unwrap_or_default();
        return eval(&case, &interior).0.into_iter().map(|(c, d)| format!("{c}: {d}")).collect();
    }
    vec!["victim not found".into()]
}
