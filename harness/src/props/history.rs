//! C11 — answers after any edit history equal a fresh analysis of the result.
//! Stateless bounded exhaustive exploration of change histories (state = history) on the real
//! `AnalysisHost::apply_change`, compared with two fresh instances queried in different orders.
use crate::ana::sweep::{self, run_query, Outcome, Q, ALL_Q};
use crate::core::{Layer, Report, Tier, Violation};
use ide::{AnalysisHost, Change, Dependency, FileId, FileSet, PackageGraph, SourceRoot, VfsPath};
use rayon::prelude::*;
use serde_json::{json, Value};
use std::collections::BTreeSet;
use std::sync::Arc;

const A: &[&str] = &[
    "import b\npub fn main() { b.inc(1) }\nfn local(x) { x + 1 }\npub fn both(y) { #(local(y), main()) }\n",
    "import b\npub fn main() { b.inc(2) }\nfn local(x) { x + 1 }\npub fn both(y) { #(local(y), main()) }\n",
    "import b\npub fn main() { b.inc(1) }\nfn local(x) { x +. 1.0 }\npub fn both(y) { #(local(y), main()) }\n",
    "fn first() { \"s\" }\nimport b\npub fn main() { b.inc(1) }\nfn local(x) { x + 1 }\npub fn both(y) { #(local(y), main()) }\n",
    "import b\npub fn main() { b.inc(1) }\npub fn both(y) { #(local(y), main()) }\n",
    "import b\npub fn both(y) { #(local(y), main()) }\nfn local(x) { x + 1 }\npub fn main() { b.inc(1) }\n",
    "import b\npub fn main() { b.incr(1) }\nfn local(x) { x + 1 }\npub fn both(y) { #(local(y), main()) }\n",
    "import b\npub fn main( { b.inc(1) }\nfn local(x) { x + 1 }\npub fn both(y) { #(local(y), main()) }\n",
    "",
    "pub fn main() { b.inc(1) }\nfn local(x) { x + 1 }\npub fn both(y) { #(local(y), main()) }\n",
    "import b\nimport l\npub fn main() { l.lib_fn(b.inc(1)) }\nfn local(x) { x + 1 }\npub fn both(y) { #(local(y), main()) }\n",
    "import b.{type T, T, inc}\npub fn main() { inc(T(1).v) }\nfn local(x: T) { x.v }\npub fn both(y) { #(local(y), main()) }\n",
    "pub fn main() { 1 }\npub fn p(x, k) { q(x, k) }\npub fn q(y, j) { p(y, j) }\npub fn r(z, w) { #(p(z, w), q(w, z), fn(u, v) { #(v, u) }) }\n",
    // a recursion group whose members show the group's type variables in different orders: the
    // letters must not depend on the order in which the group's functions are finished
    "pub fn main() { 1 }\npub fn f(x, y) { g(y, x) }\npub fn g(a, b) { f(b, a) }\npub fn h(c, d, e) { #(f(c, d), i(e, d, c)) }\npub fn i(s, t, u) { h(u, s, t) }\n",
    // a recursion group whose members have locals with type variables of their own, without and
    // with a call to a function imported unqualified (interned before or after the module's own
    // functions, depending on the history)
    "pub fn main() { 1 }\npub fn f1(x) { let p = [] f2(x) }\npub fn f2(y) { let q = [] f1(y) }\n",
    "import b.{inc}\npub fn main() { 1 }\npub fn f1(x) { let p = [] f2(x) }\npub fn f2(y) { let q = [] inc(1) f1(y) }\n",
];

const B: &[&str] = &[
    "pub fn inc(n: Int) -> Int { n + 1 }\npub type T { T(v: Int) }\n",
    "pub fn inc(n: Float) -> Float { n +. 1.0 }\npub type T { T(v: Int) }\n",
    "pub fn incr(n: Int) -> Int { n + 1 }\npub type T { T(v: Int) }\n",
    "fn inc(n: Int) -> Int { n + 1 }\npub type T { T(v: Int) }\n",
    "pub fn inc(n: Int) -> Int { n + 1 }\npub type T { T(v: String, w: Int) }\n",
    "pub type T { T(v: Int) }\npub fn inc(n: Int) -> Int { n + 1 }\n",
    "pub fn inc(n: Int -> Int { n + 1 \npub type T { T(v: Int) }\n",
    "",
    // a function whose inferred type mentions a custom type, and the same with the type renamed in
    // place (what is shown for the function must follow the rename whatever was asked before)
    "pub fn inc(n: Int) -> Int { n + 1 }\npub type T { T(v: Int) }\npub fn mk() { T(1) }\npub fn mks() { [mk()] }\n",
    "pub fn inc(n: Int) -> Int { n + 1 }\npub type R { T(v: Int) }\npub fn mk() { T(1) }\npub fn mks() { [mk()] }\n",
    // imports names from `a` unqualified: with a's version 11 (which imports from `b` unqualified) the two modules import from each other
    "import a.{both}\npub fn inc(n: Int) -> Int { n + 1 }\npub type T { T(v: Int) }\npub fn back(y) { both(y) }\n",
];

const C: &[&str] = &["import a\npub fn use_a() { a.main() }\n", "import a\nimport b\npub fn use_a(t: b.T) { #(a.both(t), t.v) }\n"];

const L: &str = "pub fn lib_fn(x) { x }\n";

const F_A: FileId = FileId(0);
const F_B: FileId = FileId(1);
const F_C: FileId = FileId(2);
const F_APP_TOML: FileId = FileId(3);
const F_L: FileId = FileId(4);
const F_LIB_TOML: FileId = FileId(5);
/// a module of `lib` with the same name as app's `b` (the importing package's own module must win, always)
const F_LB: FileId = FileId(6);
/// a second file of app with the module name `b` (test/b.gleam next to src/b.gleam): which one an
/// import means must at least not change from run to run
const F_DUP: FileId = FileId(7);
const DUP: &str = "pub fn inc(n: Int) -> Float { 1.0 }\npub fn only_test() { 2 }\npub type T { T(v: Int) }\n";
const LB: &str = "pub fn inc(n: Int) -> String { \"lib\" }\npub fn only_lib() { 1 }\n";

#[derive(Clone, Debug, PartialEq, Eq)]
pub struct WState {
    a: usize,
    b: usize,
    c: Option<usize>,
    dep: bool,
    swapped: bool,
    /// the package graph lists the packages in the other order (same packages, same edges)
    gswapped: bool,
    /// app also has test/b.gleam
    dup: bool,
}

impl WState {
    fn init() -> Self {
        WState { a: 0, b: 0, c: None, dep: false, swapped: false, gswapped: false, dup: false }
    }

    fn roots(&self) -> Vec<SourceRoot> {
        let mut app = FileSet::default();
        app.insert(F_A, VfsPath::new("/ws/app/src/a.gleam"));
        app.insert(F_B, VfsPath::new("/ws/app/src/b.gleam"));
        if self.c.is_some() {
            app.insert(F_C, VfsPath::new("/ws/app/src/c.gleam"));
        }
        if self.dup {
            app.insert(F_DUP, VfsPath::new("/ws/app/test/b.gleam"));
        }
        app.insert(F_APP_TOML, VfsPath::new("/ws/app/gleam.toml"));
        let mut lib = FileSet::default();
        lib.insert(F_L, VfsPath::new("/ws/lib/src/l.gleam"));
        lib.insert(F_LB, VfsPath::new("/ws/lib/src/b.gleam"));
        lib.insert(F_LIB_TOML, VfsPath::new("/ws/lib/gleam.toml"));
        let mut v = vec![SourceRoot::new(app, "/ws/app".into()), SourceRoot::new(lib, "/ws/lib".into())];
        if self.swapped {
            v.reverse();
        }
        v
    }

    fn graph(&self) -> PackageGraph {
        let mut g = PackageGraph::default();
        let (app, lib) = if self.gswapped {
            let lib = g.add_package("lib".into(), F_LIB_TOML, true);
            (g.add_package("app".into(), F_APP_TOML, true), lib)
        } else {
            let app = g.add_package("app".into(), F_APP_TOML, true);
            (app, g.add_package("lib".into(), F_LIB_TOML, true))
        };
        if self.dep {
            g.add_dep(app, Dependency { package: lib });
        }
        g
    }

    fn full_change(&self) -> Change {
        let mut ch = Change::default();
        ch.change_file(F_A, Arc::from(A[self.a]));
        ch.change_file(F_B, Arc::from(B[self.b]));
        if let Some(c) = self.c {
            ch.change_file(F_C, Arc::from(C[c]));
        }
        if self.dup {
            ch.change_file(F_DUP, Arc::from(DUP));
        }
        ch.change_file(F_APP_TOML, Arc::from("name = \"app\"\n"));
        ch.change_file(F_L, Arc::from(L));
        ch.change_file(F_LB, Arc::from(LB));
        ch.change_file(F_LIB_TOML, Arc::from("name = \"lib\"\n"));
        ch.set_roots(self.roots());
        ch.set_package_graph(self.graph());
        ch
    }

    fn module_files(&self) -> Vec<(FileId, &'static str, String)> {
        let mut v = vec![(F_A, "a", A[self.a].to_string()), (F_B, "b", B[self.b].to_string())];
        if let Some(c) = self.c {
            v.push((F_C, "c", C[c].to_string()));
        }
        if self.dup {
            v.push((F_DUP, "test:b", DUP.to_string()));
        }
        v.push((F_L, "l", L.to_string()));
        v.push((F_LB, "lib:b", LB.to_string()));
        v
    }
}

#[derive(Clone, Copy, Debug, PartialEq, Eq)]
pub enum Chg {
    SetA(usize),
    SetB(usize),
    AddC(usize),
    RemoveC,
    AddDep,
    RemoveDep,
    SwapRoots,
    /// the package graph is sent again with its packages in the other order; the roots are not
    SwapGraph,
    SameAgain,
    /// test/b.gleam appears next to src/b.gleam / disappears again
    ToggleDup,
}

#[derive(Clone, Copy, Debug, PartialEq, Eq)]
pub enum Menu {
    None,
    Full,
    FileA,
    Reverse,
    HoverOnly,
    RefsOnly,
}

fn changes() -> Vec<Chg> {
    let mut v = vec![];
    for i in 0..A.len() {
        v.push(Chg::SetA(i));
    }
    for i in 0..B.len() {
        v.push(Chg::SetB(i));
    }
    v.extend([Chg::AddC(0), Chg::AddC(1), Chg::RemoveC, Chg::AddDep, Chg::RemoveDep, Chg::SwapRoots, Chg::SwapGraph, Chg::SameAgain, Chg::ToggleDup]);
    v
}

const MENUS: &[Menu] = &[Menu::None, Menu::Full, Menu::FileA, Menu::Reverse, Menu::HoverOnly, Menu::RefsOnly];

/// Applies a change to the model state and returns the delta the server would send.
fn step(st: &mut WState, c: Chg) -> Change {
    let mut ch = Change::default();
    step_into(st, c, &mut ch);
    ch
}

/// Adds the delta of one change to a `Change` under construction (several deltas may share one).
fn step_into(st: &mut WState, c: Chg, ch: &mut Change) {
    match c {
        Chg::SetA(v) => {
            st.a = v;
            ch.change_file(F_A, Arc::from(A[v]));
        }
        Chg::SetB(v) => {
            st.b = v;
            ch.change_file(F_B, Arc::from(B[v]));
        }
        Chg::AddC(v) => {
            let structural = st.c.is_none();
            st.c = Some(v);
            ch.change_file(F_C, Arc::from(C[v]));
            if structural {
                ch.set_roots(st.roots());
            }
        }
        Chg::RemoveC => {
            if st.c.is_some() {
                st.c = None;
                ch.change_file(F_C, Arc::from(""));
                ch.set_roots(st.roots());
            }
        }
        Chg::AddDep => {
            st.dep = true;
            ch.set_package_graph(st.graph());
        }
        Chg::RemoveDep => {
            st.dep = false;
            ch.set_package_graph(st.graph());
        }
        Chg::SwapRoots => {
            st.swapped = !st.swapped;
            ch.set_roots(st.roots());
        }
        Chg::SwapGraph => {
            st.gswapped = !st.gswapped;
            ch.set_package_graph(st.graph());
        }
        Chg::SameAgain => {
            ch.change_file(F_A, Arc::from(A[st.a]));
        }
        Chg::ToggleDup => {
            st.dup = !st.dup;
            ch.change_file(F_DUP, Arc::from(if st.dup { DUP } else { "" }));
            ch.set_roots(st.roots());
        }
    }
}

type Answers = Vec<(FileId, u32, Q, String)>;

fn sweep_files(host: &AnalysisHost, files: &[(FileId, &'static str, String)], queries: &[Q], reverse: bool, stride: usize) -> Answers {
    let an = host.snapshot();
    let mut plan: Vec<(FileId, u32, Q)> = vec![];
    for (id, _, text) in files {
        let b = sweep::token_boundaries(text);
        for (i, &o) in b.iter().enumerate() {
            if i % stride != 0 && i + 1 != b.len() {
                continue;
            }
            for &q in queries {
                if !sweep::positional(q) && o != 0 {
                    continue;
                }
                plan.push((*id, o, q));
            }
        }
    }
    if reverse {
        plan.reverse();
    }
    let mut out: Answers = plan
        .into_iter()
        .map(|(f, o, q)| {
            let s = match run_query(&an, q, f, o).outcome {
                Outcome::Ok(s) => s,
                Outcome::Cancelled => "<cancelled>".into(),
                // which query of a cycle notices it first depends on what is memoised: a failing
                // query is compared as failing, not by its message (failing at all is C10's matter)
                Outcome::Panic(_) => "<panic>".to_string(),
            };
            (f, o, q, s)
        })
        .collect();
    out.sort_by(|x, y| (x.0, x.1, x.2).cmp(&(y.0, y.1, y.2)));
    out
}

fn run_menu(host: &AnalysisHost, st: &WState, m: Menu) {
    let files = st.module_files();
    match m {
        Menu::None => {}
        Menu::Full => {
            sweep_files(host, &files, ALL_Q, false, 2);
        }
        Menu::FileA => {
            sweep_files(host, &files[..1], ALL_Q, false, 1);
        }
        Menu::Reverse => {
            sweep_files(host, &files, ALL_Q, true, 2);
        }
        Menu::HoverOnly => {
            sweep_files(host, &files, &[Q::Hover], false, 1);
        }
        Menu::RefsOnly => {
            sweep_files(host, &files, &[Q::Refs], false, 1);
        }
    }
}

fn first_diff(x: &Answers, y: &Answers) -> Option<String> {
    if x.len() != y.len() {
        return Some(format!("different number of answers: {} vs {}", x.len(), y.len()));
    }
    for (a, b) in x.iter().zip(y) {
        if a != b {
            let cut = |s: &str| s.chars().take(220).collect::<String>();
            return Some(format!("{:?} at {:?}:{}: {:?} vs {:?}", a.2, a.0, a.1, cut(&a.3), cut(&b.3)));
        }
    }
    None
}

/// Replays one history on the real host; returns (class, key, detail) if the final answers differ.
pub fn eval_history(hist: &[(Chg, Menu)], stride: usize) -> (Option<(String, String, String)>, bool, u64) {
    eval_history_opt(hist, stride, false)
}

/// `batched`: the deltas of all steps travel in ONE `Change` (as the server does for several
/// content changes of one notification, or a reload followed by client text); the menu of the
/// first step is run before the batch (warm caches), the menu of the last one after it.
pub fn eval_history_opt(hist: &[(Chg, Menu)], stride: usize, batched: bool) -> (Option<(String, String, String)>, bool, u64) {
    let mut st = WState::init();
    let mut host = AnalysisHost::new();
    host.apply_change(st.full_change());
    let initial = st.clone();
    if batched {
        if let Some((_, m)) = hist.first() {
            run_menu(&host, &st, *m);
        }
        let mut ch = Change::default();
        for (c, _) in hist {
            step_into(&mut st, *c, &mut ch);
        }
        host.apply_change(ch);
        if let Some((_, m)) = hist.last() {
            run_menu(&host, &st, *m);
        }
    } else {
        for (c, m) in hist {
            let ch = step(&mut st, *c);
            host.apply_change(ch);
            run_menu(&host, &st, *m);
        }
    }
    let files = st.module_files();
    let inc = sweep_files(&host, &files, ALL_Q, false, stride);
    let mut fa = AnalysisHost::new();
    fa.apply_change(st.full_change());
    let fresh_a = sweep_files(&fa, &files, ALL_Q, false, stride);
    let mut fb = AnalysisHost::new();
    fb.apply_change(st.full_change());
    let fresh_b = sweep_files(&fb, &files, ALL_Q, true, stride);
    let n = (inc.len() * 3) as u64;
    let changed = st != initial;
    let last = hist.last().map(|h| format!("{:?}", h.0)).unwrap_or_default();
    if let Some(d) = first_diff(&fresh_a, &fresh_b) {
        let q = d.split(' ').next().unwrap_or("").to_string();
        return (Some(("nondeterministic".into(), format!("{q}"), format!("two fresh instances (forward / reverse query order) disagree: {d}"))), changed, n);
    }
    if let Some(d) = first_diff(&inc, &fresh_a) {
        let q = d.split(' ').next().unwrap_or("").to_string();
        return (Some(("stale-after-history".into(), format!("{q}|after {last}"), format!("incremental vs fresh: {d}"))), changed, n);
    }
    (None, changed, n)
}

fn hist_json(h: &[(Chg, Menu)]) -> Value {
    json!(h.iter().map(|(c, m)| json!([format!("{c:?}"), format!("{m:?}")])).collect::<Vec<_>>())
}

fn parse_hist(v: &Value) -> Option<Vec<(Chg, Menu)>> {
    let mut out = vec![];
    for e in v.as_array()? {
        let c = e[0].as_str()?;
        let m = e[1].as_str()?;
        let chg = changes().into_iter().find(|x| format!("{x:?}") == c)?;
        let menu = MENUS.iter().copied().find(|x| format!("{x:?}") == m)?;
        out.push((chg, menu));
    }
    Some(out)
}

pub fn run(tier: Tier) -> i32 {
    let mut rep = Report::new("C11", tier);
    let chgs = changes();
    let depth = tier.pick(2usize, 3usize);
    let stride = tier.pick(2usize, 1usize);
    // action alphabet: (change, menu); at the deepest level of the thorough tier menus are {None, Full}
    let mut total_changed = 0u64;
    for n in 0..=depth {
        let menus_at = |level: usize| -> Vec<Menu> {
            if tier == Tier::Thorough && depth == 3 && n == 3 && level > 0 {
                vec![Menu::None, Menu::Full]
            } else if tier == Tier::Quick && n == 2 && level > 0 {
                vec![Menu::None, Menu::Full, Menu::RefsOnly]
            } else {
                MENUS.to_vec()
            }
        };
        // enumerate all histories of exactly n steps
        let mut hists: Vec<Vec<(Chg, Menu)>> = vec![vec![]];
        for level in 0..n {
            let ms = menus_at(level);
            let mut next = vec![];
            for h in &hists {
                for c in &chgs {
                    for m in &ms {
                        let mut h2 = h.clone();
                        h2.push((*c, *m));
                        next.push(h2);
                    }
                }
            }
            hists = next;
        }
        let res: Vec<(Option<Violation>, bool, u64)> = hists
            .par_iter()
            .map(|h| {
                let r = crate::core::catch(|| eval_history(h, stride));
                match r {
                    Ok((v, changed, q)) => (
                        v.map(|(class, key, detail)| Violation { class, key, witness: json!({"history": hist_json(h)}), detail: format!("history {:?}: {detail}", h) }),
                        changed,
                        q,
                    ),
                    Err(m) => (Some(Violation { class: "panic".into(), key: crate::core::panic_class(&m), witness: json!({"history": hist_json(h)}), detail: format!("history {h:?} panicked: {m}") }), false, 0),
                }
            })
            .collect();
        let mut l = Layer { name: format!("histories-len{n}"), states: hists.len() as u64, exhaustive: true, ..Default::default() };
        for (v, changed, q) in res {
            l.transitions += q;
            l.executions += 1;
            if changed {
                total_changed += 1;
            }
            if let Some(v) = v {
                rep.violation(v);
            }
        }
        l.bound = format!("all histories of exactly {n} (change, query-menu) steps: {} changes x menus {:?}; final sweep stride {stride}", chgs.len(), menus_at(1));
        if tier == Tier::Thorough && n == 3 {
            rep.caps.push(json!({"layer": "histories-len3", "cap": "query menus after the first step restricted to {None, Full}", "completed": "all change sequences of length 3"}));
        }
        rep.layer(l);
    }
    // batched deltas: k changes in one Change object
    {
        let k = tier.pick(2usize, 3usize);
        let menus: &[Menu] = &[Menu::None, Menu::Full];
        let mut hists: Vec<Vec<(Chg, Menu)>> = vec![];
        for len in 2..=k {
            let mut seqs: Vec<Vec<Chg>> = vec![vec![]];
            for _ in 0..len {
                let mut next = vec![];
                for sq in &seqs {
                    for c in &chgs {
                        let mut s2 = sq.clone();
                        s2.push(*c);
                        next.push(s2);
                    }
                }
                seqs = next;
            }
            for sq in seqs {
                for before in menus {
                    let mut h: Vec<(Chg, Menu)> = sq.iter().map(|c| (*c, Menu::None)).collect();
                    h[0].1 = *before;
                    hists.push(h);
                }
            }
        }
        let res: Vec<(Option<Violation>, bool, u64)> = hists
            .par_iter()
            .map(|h| match crate::core::catch(|| eval_history_opt(h, stride, true)) {
                Ok((v, changed, q)) => (v.map(|(class, key, detail)| Violation { class, key: format!("batched|{key}"), witness: json!({"history": hist_json(h), "batched": true}), detail: format!("batched history {:?} (one Change): {detail}", h) }), changed, q),
                Err(m) => (Some(Violation { class: "panic".into(), key: crate::core::panic_class(&m), witness: json!({"history": hist_json(h), "batched": true}), detail: format!("batched history {h:?} panicked: {m}") }), false, 0),
            })
            .collect();
        let mut l = Layer { name: "batched-deltas".into(), states: hists.len() as u64, exhaustive: true, ..Default::default() };
        for (v, changed, q) in res {
            l.transitions += q;
            l.executions += 1;
            if changed {
                total_changed += 1;
            }
            if let Some(v) = v {
                rep.violation(v);
            }
        }
        l.bound = format!("all sequences of 2..={k} changes ({} each) whose deltas travel in ONE Change object, with the full query menu run before the batch or not; final sweep stride {stride}", chgs.len());
        rep.layer(l);
    }
    // histories through a workspace whose two modules import names from each other (a transient
    // state while code is moved between modules): three steps over the five changes that make
    // and break the cycle, every query menu after every step
    {
        let cyc: Vec<Chg> = vec![Chg::SetA(11), Chg::SetB(B.len() - 1), Chg::SetA(0), Chg::SetB(0), Chg::SetA(4)];
        let mut hists: Vec<Vec<(Chg, Menu)>> = vec![vec![]];
        for _ in 0..3 {
            let mut next = vec![];
            for h in &hists {
                for c in &cyc {
                    for m in MENUS {
                        let mut h2 = h.clone();
                        h2.push((*c, *m));
                        next.push(h2);
                    }
                }
            }
            hists = next;
        }
        // only histories that pass through the cyclic state
        let hists: Vec<Vec<(Chg, Menu)>> = hists
            .into_iter()
            .filter(|h| {
                let (mut a, mut b) = (0usize, 0usize);
                let mut cyclic = false;
                for (c, _) in h {
                    match c {
                        Chg::SetA(v) => a = *v,
                        Chg::SetB(v) => b = *v,
                        _ => {}
                    }
                    cyclic |= a == 11 && b == B.len() - 1;
                }
                cyclic
            })
            .collect();
        let res: Vec<(Option<Violation>, bool, u64)> = hists
            .par_iter()
            .map(|h| match crate::core::catch(|| eval_history(h, stride)) {
                Ok((v, changed, q)) => (v.map(|(class, key, detail)| Violation { class, key: format!("import-cycle|{key}"), witness: json!({"history": hist_json(h)}), detail: format!("history {:?} (through two modules importing from each other): {detail}", h) }), changed, q),
                Err(m) => (Some(Violation { class: "panic".into(), key: crate::core::panic_class(&m), witness: json!({"history": hist_json(h)}), detail: format!("history {h:?} panicked: {m}") }), false, 0),
            })
            .collect();
        let mut l = Layer { name: "import-cycle-histories".into(), states: hists.len() as u64, exhaustive: true, ..Default::default() };
        for (v, changed, q) in res {
            l.transitions += q;
            l.executions += 1;
            if changed {
                total_changed += 1;
            }
            if let Some(v) = v {
                rep.violation(v);
            }
        }
        l.bound = format!("all histories of 3 (change, query-menu) steps over the 5 changes that make and break an import cycle between a and b (a imports names from b, b imports names from a; plus the plain versions of both and a version of a without imports) x all 6 menus that pass through the cyclic state: {} histories; queries in the cyclic state may fail, the final answers must equal a fresh instance's", hists.len());
        rep.layer(l);
    }
    seeds_layer(&mut rep, tier);
    rep.distinct_nontrivial = total_changed;
    rep.distinct_outcomes = 1 + rep.violations.iter().map(|v| v.class.clone()).collect::<BTreeSet<_>>().len() as u64;
    rep.rule = "state = history (hidden salsa state is not hashable); every history replayed on a new host; non-trivial = histories whose final workspace differs from the initial one".into();
    rep.sample(json!({"history": [["SetB(1)", "Full"], ["SetA(2)", "None"]]}));
    rep.assumptions = vec!["set-like answers are compared sorted; file ids are fixed by the harness as the server's slab keys would be".into()];
    rep.guard(total_changed > 100, "histories that change the workspace");
    rep.finish()
}

/// Digest of all answers for every workspace state reachable by at most one change.
pub fn worker_seed_digest(dump_state: Option<usize>) -> i32 {
    let mut states = vec![WState::init()];
    for c in changes() {
        let mut st = WState::init();
        let _ = step(&mut st, c);
        if !states.contains(&st) {
            states.push(st);
        }
    }
    for (i, st) in states.iter().enumerate() {
        let mut h = AnalysisHost::new();
        h.apply_change(st.full_change());
        let ans = sweep_files(&h, &st.module_files(), ALL_Q, false, 1);
        if dump_state == Some(i) {
            for a in &ans {
                println!("{:?}\t{}\t{:?}\t{}", a.0, a.1, a.2, a.3.replace('\n', "\\n"));
            }
        } else if dump_state.is_none() {
            let mut d = 0u64;
            for a in &ans {
                for b in a.3.bytes() {
                    d = crate::core::mix(d, b as u64);
                }
                d = crate::core::mix(d, a.1 as u64);
            }
            println!("{i}\t{d:016x}\t{}", ans.len());
        }
    }
    0
}

fn seeds_layer(rep: &mut Report, tier: Tier) {
    let exe = std::env::current_exe().unwrap();
    let k = tier.pick(4u64, 16u64);
    let run = |seed: u64, dump: Option<usize>| -> Option<String> {
        let mut cmd = std::process::Command::new(&exe);
        cmd.args(["worker", "c11-seeds"]);
        if let Some(d) = dump {
            cmd.arg(d.to_string());
        }
        cmd.env("GMC_HASH_SEED", seed.to_string());
        let out = cmd.output().ok()?;
        if !out.status.success() {
            return None;
        }
        Some(String::from_utf8_lossy(&out.stdout).to_string())
    };
    let outs: Vec<Option<String>> = (0..k).into_par_iter().map(|s| run(s, None)).collect();
    let Some(Some(base)) = outs.first().cloned() else {
        rep.machinery("seed worker failed");
        return;
    };
    let nstates = base.lines().count() as u64;
    let mut queries = 0u64;
    for l in base.lines() {
        queries += l.split('\t').nth(2).and_then(|x| x.parse::<u64>().ok()).unwrap_or(0);
    }
    let mut distinct_orders = BTreeSet::new();
    for (seed, o) in outs.iter().enumerate() {
        let Some(o) = o else {
            rep.machinery(format!("seed worker {seed} failed"));
            continue;
        };
        distinct_orders.insert(o.clone());
        for (a, b) in base.lines().zip(o.lines()) {
            if a != b {
                let idx: usize = a.split('\t').next().and_then(|x| x.parse().ok()).unwrap_or(0);
                let d0 = run(0, Some(idx)).unwrap_or_default();
                let d1 = run(seed as u64, Some(idx)).unwrap_or_default();
                let diff = d0.lines().zip(d1.lines()).find(|(x, y)| x != y).map(|(x, y)| format!("{} | vs | {}", x.chars().take(260).collect::<String>(), y.chars().take(260).collect::<String>())).unwrap_or_default();
                let q = diff.split('\t').nth(2).unwrap_or("").to_string();
                rep.violation(Violation { class: "nondeterministic-across-runs".into(), key: format!("{q}|state {idx}"), witness: json!({"state_index": idx, "seed_a": 0, "seed_b": seed}), detail: format!("workspace state {idx}: answers differ between hash seeds 0 and {seed}: {diff}") });
                break;
            }
        }
    }
    rep.layer(Layer {
        name: "hash-seeds".into(),
        states: nstates,
        transitions: queries * k,
        executions: nstates * k,
        exhaustive: false,
        bound: format!("every workspace state reachable by <=1 change ({nstates}) x full sweep x hash seeds 0..{k} (a finite list of environment answers, not an exhaustive space); distinct digests: {}", distinct_orders.len()),
        ..Default::default()
    });
}

pub fn replay(w: &Value) -> Vec<String> {
    if let (Some(idx), Some(sb)) = (w["state_index"].as_u64(), w["seed_b"].as_u64()) {
        let exe = std::env::current_exe().unwrap();
        let run = |seed: u64| std::process::Command::new(&exe).args(["worker", "c11-seeds", &idx.to_string()]).env("GMC_HASH_SEED", seed.to_string()).output().map(|o| String::from_utf8_lossy(&o.stdout).to_string()).unwrap_or_default();
        let (a, b) = (run(0), run(sb));
        return if a == b { vec![] } else { vec![format!("answers differ between seeds 0 and {sb}")] };
    }
    let Some(h) = parse_hist(&w["history"]) else { return vec!["bad witness".into()] };
    let batched = w["batched"].as_bool().unwrap_or(false);
    match crate::core::catch(|| eval_history_opt(&h, 1, batched)) {
        Ok((Some((c, _, d)), _, _)) => vec![format!("{c}: {d}")],
        Ok((None, _, _)) => vec![],
        Err(m) => vec![format!("panic: {m}")],
    }
}
