//! C17 — modules and packages resolve according to the project layout.
//! Configuration enumeration: real directory trees x dependency shapes x module placement x
//! open orders, driven through the real loader (didOpen on the real router), against a
//! reference model of Gleam's project layout.
use crate::core::{Layer, Report, Tier, Violation};
use crate::lsp::client::RefDoc;
use crate::lsp::inproc::InProc;
use rayon::prelude::*;
use serde_json::{json, Value};
use std::collections::BTreeSet;
use std::path::{Path, PathBuf};

#[derive(Clone, Copy, Debug, PartialEq, Eq)]
pub struct Cfg {
    dep1: bool,        // app depends on dep1 (registry-style, build/packages/dep1)
    lib: bool,         // app depends on lib (path = "../lib")
    dep1_dep2: bool,   // dep1 depends on dep2 (transitive for app)
    app_dep2: bool,    // app depends on dep2 directly
    nested: bool,      // a package root app/sub inside app's directory
    util_in_test: bool, // module util lives in test/ instead of src/
}

fn all_cfgs() -> Vec<Cfg> {
    let mut v = vec![];
    for m in 0..64u32 {
        let b = |i: u32| m & (1 << i) != 0;
        v.push(Cfg { dep1: b(0), lib: b(1), dep1_dep2: b(2), app_dep2: b(3), nested: b(4), util_in_test: b(5) });
    }
    v
}

const MAIN: &str = "import util\nimport dep1mod\nimport dep2mod\nimport libmod\nimport deep/nested\nimport t_only\nimport shared\nimport inner\n\npub fn main() {\n  util.u()\n  dep1mod.d1()\n  dep2mod.d2()\n  libmod.l()\n  nested.n()\n  t_only.t()\n  shared.s()\n  inner.i()\n  own()\n}\n\nfn own() {\n  1\n}\n";
const DEP1MOD: &str = "import dep2mod\n\npub fn d1() {\n  dep2mod.d2()\n}\n";
const INNER: &str = "import util\n\npub fn i() {\n  util.u()\n}\n";
const LOOSE: &str = "pub fn f() {\n  1\n}\n\nfn g() {\n  f()\n}\n";

fn write(p: &Path, text: &str) {
    let _ = std::fs::create_dir_all(p.parent().unwrap());
    let _ = std::fs::write(p, text);
}

/// Creates the tree for a configuration; returns its base directory.
fn build_tree(base: &Path, c: &Cfg) {
    let app = base.join("app");
    let mut deps = String::new();
    if c.dep1 {
        deps += "dep1 = \"~> 1.0\"\n";
    }
    if c.app_dep2 {
        deps += "dep2 = \"~> 1.0\"\n";
    }
    if c.lib {
        deps += "lib = { path = \"../lib\" }\n";
    }
    write(&app.join("gleam.toml"), &format!("name = \"app\"\nversion = \"1.0.0\"\n\n[dependencies]\n{deps}"));
    write(&app.join("src/main.gleam"), MAIN);
    write(&app.join(if c.util_in_test { "test/util.gleam" } else { "src/util.gleam" }), "pub fn u() {\n  1\n}\n");
    write(&app.join("src/deep/nested.gleam"), "pub fn n() {\n  1\n}\n");
    write(&app.join("test/t_only.gleam"), "pub fn t() {\n  1\n}\n");
    write(&app.join("src/shared.gleam"), "pub fn s() {\n  \"app\"\n}\n");
    // registry-style packages are always present on disk (a stale build directory is normal);
    // whether they are dependencies is decided by gleam.toml
    let d1 = app.join("build/packages/dep1");
    write(&d1.join("gleam.toml"), &format!("name = \"dep1\"\nversion = \"1.0.0\"\n\n[dependencies]\n{}", if c.dep1_dep2 { "dep2 = \"~> 1.0\"\n" } else { "" }));
    write(&d1.join("src/dep1mod.gleam"), DEP1MOD);
    write(&d1.join("src/shared.gleam"), "pub fn s() {\n  \"dep1\"\n}\n");
    let d2 = app.join("build/packages/dep2");
    write(&d2.join("gleam.toml"), "name = \"dep2\"\nversion = \"1.0.0\"\n");
    write(&d2.join("src/dep2mod.gleam"), "pub fn d2() {\n  2\n}\n");
    let lib = base.join("lib");
    write(&lib.join("gleam.toml"), "name = \"lib\"\nversion = \"1.0.0\"\n");
    write(&lib.join("src/libmod.gleam"), "pub fn l() {\n  3\n}\n");
    if c.nested {
        let sub = app.join("sub");
        write(&sub.join("gleam.toml"), "name = \"sub\"\nversion = \"1.0.0\"\n");
        write(&sub.join("src/inner.gleam"), INNER);
    }
    write(&base.join("loose/free.gleam"), LOOSE);
}

#[derive(Clone, Copy, Debug, PartialEq, Eq, PartialOrd, Ord)]
pub enum Doc {
    Main,
    Dep1Mod,
    Inner,
    Loose,
    LibMod,
}

fn doc_path(base: &Path, d: Doc) -> PathBuf {
    match d {
        Doc::Main => base.join("app/src/main.gleam"),
        Doc::Dep1Mod => base.join("app/build/packages/dep1/src/dep1mod.gleam"),
        Doc::Inner => base.join("app/sub/src/inner.gleam"),
        Doc::Loose => base.join("loose/free.gleam"),
        Doc::LibMod => base.join("lib/src/libmod.gleam"),
    }
}

fn uri_of(p: &Path) -> String {
    format!("file://{}", p.display())
}

/// Reference model: allowed definition targets (paths relative to base) for a call `m.f()`
/// in the given document; empty = must not resolve.
fn expected_targets(c: &Cfg, doc: Doc, call: &str) -> Vec<String> {
    let util = if c.util_in_test { "app/test/util.gleam" } else { "app/src/util.gleam" };
    let s = |x: &str| x.to_string();
    match (doc, call) {
        (Doc::Main, "util.u") => vec![s(util)],
        (Doc::Main, "dep1mod.d1") => if c.dep1 { vec![s("app/build/packages/dep1/src/dep1mod.gleam")] } else { vec![] },
        (Doc::Main, "dep2mod.d2") => if c.app_dep2 { vec![s("app/build/packages/dep2/src/dep2mod.gleam")] } else { vec![] },
        (Doc::Main, "libmod.l") => if c.lib { vec![s("lib/src/libmod.gleam")] } else { vec![] },
        (Doc::Main, "nested.n") => vec![s("app/src/deep/nested.gleam")],
        (Doc::Main, "t_only.t") => vec![s("app/test/t_only.gleam")],
        (Doc::Main, "shared.s") => {
            let mut v = vec![s("app/src/shared.gleam")];
            if c.dep1 {
                v.push(s("app/build/packages/dep1/src/shared.gleam"));
            }
            v
        }
        (Doc::Main, "inner.i") => vec![],
        (Doc::Dep1Mod, "dep2mod.d2") => if c.dep1_dep2 { vec![s("app/build/packages/dep2/src/dep2mod.gleam")] } else { vec![] },
        // the nested package `sub` does not depend on app: util is not visible from it
        (Doc::Inner, "util.u") => vec![],
        _ => vec![],
    }
}

fn pos_of(text: &str, needle: &str, inner: usize) -> (u32, u32) {
    let o = text.find(needle).map(|i| i + inner).unwrap_or(0);
    RefDoc::new(text).pos_of(o)
}

fn definition(srv: &mut InProc, uri: &str, pos: (u32, u32)) -> Result<Vec<String>, String> {
    match srv.request("textDocument/definition", json!({"textDocument": {"uri": uri}, "position": {"line": pos.0, "character": pos.1}}))? {
        Ok(v) => Ok(v.as_array().map(|a| a.iter().filter_map(|l| l["uri"].as_str().map(|s| s.to_string())).collect()).unwrap_or_default()),
        Err(_) => Ok(vec![]),
    }
}

fn doc_text(d: Doc) -> &'static str {
    match d {
        Doc::Main => MAIN,
        Doc::Dep1Mod => DEP1MOD,
        Doc::Inner => INNER,
        Doc::Loose => LOOSE,
        Doc::LibMod => "pub fn l() {\n  3\n}\n",
    }
}

pub fn eval_config(base: &Path, c: &Cfg, order: &[Doc]) -> (u64, Vec<(String, String, String)>) {
    eval_config_reload(base, c, order, None)
}

/// What happens to app/gleam.toml after the documents are open (the watcher reports the change).
#[derive(Clone, Copy, Debug, PartialEq, Eq)]
pub enum Reload {
    /// saved with the same content
    Same,
    /// dep1 dropped from [dependencies] (its directory stays under build/packages)
    DropDep1,
    /// saved in a state that does not parse, then saved again as it was
    BrokenThenRepaired,
    /// saved in a state that does not parse
    Broken,
}

fn app_manifest(c: &Cfg) -> String {
    let mut deps = String::new();
    if c.dep1 {
        deps += "dep1 = \"~> 1.0\"\n";
    }
    if c.app_dep2 {
        deps += "dep2 = \"~> 1.0\"\n";
    }
    if c.lib {
        deps += "lib = { path = \"../lib\" }\n";
    }
    format!("name = \"app\"\nversion = \"1.0.0\"\n\n[dependencies]\n{deps}")
}

/// `c` describes the tree as built; with a reload the expectations are those of the manifest's
/// final content. `base` must not be shared with other jobs when the manifest is rewritten.
pub fn eval_config_reload(base: &Path, c: &Cfg, order: &[Doc], reload: Option<Reload>) -> (u64, Vec<(String, String, String)>) {
    let mut out = vec![];
    let mut n = 0u64;
    let mut srv = InProc::new();
    for d in order {
        let p = doc_path(base, *d);
        if let Err(m) = srv.open(&uri_of(&p), doc_text(*d)) {
            out.push(("loader-panic".into(), format!("open {d:?}"), format!("didOpen of {d:?} panicked: {}", crate::core::panic_class(&m))));
            return (n, out);
        }
    }
    let built = *c;
    let mut after = *c;
    if let Some(r) = reload {
        let toml = base.join("app/gleam.toml");
        let uri = uri_of(&toml);
        let mut notify = |content: String, srv: &mut InProc, out: &mut Vec<(String, String, String)>| {
            write(&toml, &content);
            if let Err(m) = srv.notify("workspace/didChangeWatchedFiles", json!({"changes": [{"uri": uri, "type": 2}]})) {
                out.push(("loader-panic".into(), format!("manifest reload {r:?}"), format!("watched-file event for app/gleam.toml panicked: {}", crate::core::panic_class(&m))));
            }
        };
        match r {
            Reload::Same => notify(app_manifest(&built), &mut srv, &mut out),
            Reload::DropDep1 => {
                after.dep1 = false;
                notify(app_manifest(&after), &mut srv, &mut out);
            }
            Reload::BrokenThenRepaired => {
                notify("name = \"app\nversion = [\n".to_string(), &mut srv, &mut out);
                notify(app_manifest(&built), &mut srv, &mut out);
            }
            Reload::Broken => notify("name = \"app\nversion = [\n".to_string(), &mut srv, &mut out),
        }
        if !out.is_empty() {
            return (n, out);
        }
        // whatever the manifest says now: a package under build/packages that was a listed
        // dependency when its document was opened stays external (a package the root never
        // listed is the stale-dependency situation of the base layer's known finding)
        if order.contains(&Doc::Dep1Mod) && built.dep1 {
            let duri = uri_of(&doc_path(base, Doc::Dep1Mod));
            let p = pos_of(DEP1MOD, "fn d1", 3);
            n += 1;
            if let Ok(Ok(v)) = srv.request("textDocument/prepareRename", json!({"textDocument": {"uri": duri}, "position": {"line": p.0, "character": p.1}})) {
                if !v.is_null() {
                    out.push(("external-editable".into(), format!("prepareRename in build/packages|after manifest reload {r:?}"), format!("after the manifest was saved ({r:?}), prepareRename accepts a function declared in a file under build/packages")));
                }
            }
            n += 1;
            if let Ok(Ok(v)) = srv.request("textDocument/rename", json!({"textDocument": {"uri": duri}, "position": {"line": p.0, "character": p.1}, "newName": "renamed"})) {
                if !v.is_null() {
                    out.push(("external-editable".into(), format!("rename in build/packages|after manifest reload {r:?}"), format!("after the manifest was saved ({r:?}), rename edits a function declared in a file under build/packages: {v}")));
                }
            }
        }
        if r == Reload::Broken {
            // nothing else is specified for a manifest that does not parse
            return (n, out);
        }
    }
    let c = &after;
    // paths are compared after resolving `..` components (a path dependency is reached as app/../lib)
    let rel = |u: &str| {
        let Some(p) = u.strip_prefix("file://") else { return u.to_string() };
        let mut parts: Vec<&str> = vec![];
        for comp in p.split('/') {
            match comp {
                ".." => {
                    parts.pop();
                }
                "." | "" => {}
                c => parts.push(c),
            }
        }
        let norm = format!("/{}", parts.join("/"));
        Path::new(&norm).strip_prefix(base).ok().map(|r| r.to_string_lossy().to_string()).unwrap_or(norm)
    };
    let check_calls = |srv: &mut InProc, d: Doc, calls: &[&str], out: &mut Vec<(String, String, String)>, n: &mut u64| {
        let text = doc_text(d);
        let uri = uri_of(&doc_path(base, d));
        for call in calls {
            let (m, f) = call.split_once('.').unwrap();
            let fpos = pos_of(text, &format!("{call}("), m.len() + 1);
            let want = expected_targets(c, d, call);
            *n += 1;
            match definition(srv, &uri, fpos) {
                Err(e) => out.push(("query-panic".into(), format!("{d:?}|{call}"), format!("definition at {call} in {d:?} panicked: {e}"))),
                Ok(got) => {
                    let got: Vec<String> = got.iter().map(|u| rel(u)).collect();
                    let ok = if want.is_empty() { got.is_empty() } else { got.len() == 1 && want.contains(&got[0]) };
                    if !ok {
                        let class = if want.is_empty() { "resolves-but-not-visible" } else if got.is_empty() { "visible-but-unresolved" } else { "resolves-to-wrong-file" };
                        out.push((class.into(), format!("{d:?}|{call}"), format!("in {d:?}, `{call}()` (function {f}): go-to-definition gives {got:?}, the layout model allows {want:?}")));
                    }
                }
            }
        }
    };
    if order.contains(&Doc::Main) {
        check_calls(&mut srv, Doc::Main, &["util.u", "dep1mod.d1", "dep2mod.d2", "libmod.l", "nested.n", "t_only.t", "shared.s", "inner.i"], &mut out, &mut n);
        // own symbol
        let uri = uri_of(&doc_path(base, Doc::Main));
        n += 1;
        match definition(&mut srv, &uri, pos_of(MAIN, "  own()", 2)) {
            Ok(g) if g.len() == 1 && rel(&g[0]) == "app/src/main.gleam" => {}
            other => out.push(("own-symbol-unresolved".into(), "Main|own".into(), format!("call to a function of the same module does not resolve: {other:?}"))),
        }
        // external vs local: prepareRename
        let mut prep = |needle: &str, inner: usize| -> Result<bool, String> {
            let p = pos_of(MAIN, needle, inner);
            srv.request("textDocument/prepareRename", json!({"textDocument": {"uri": uri}, "position": {"line": p.0, "character": p.1}})).map(|r| matches!(r, Ok(v) if !v.is_null()))
        };
        if c.dep1 {
            n += 1;
            if let Ok(true) = prep("dep1mod.d1(", 8) {
                out.push(("external-editable".into(), "prepareRename|dep1mod.d1".into(), "prepareRename accepts a function defined under build/packages (external packages must be navigable but not editable)".into()));
            }
        }
        if c.lib {
            n += 1;
            if let Ok(false) = prep("libmod.l(", 7) {
                out.push(("local-not-editable".into(), "prepareRename|libmod.l".into(), "prepareRename refuses a function of a path dependency (a local package)".into()));
            }
        }
        n += 1;
        if let Ok(false) = prep("util.u(", 5) {
            out.push(("local-not-editable".into(), "prepareRename|util.u".into(), "prepareRename refuses a function of the root package".into()));
        }
    }
    if order.contains(&Doc::Dep1Mod) && (reload.is_none() || c.dep1) {
        check_calls(&mut srv, Doc::Dep1Mod, &["dep2mod.d2"], &mut out, &mut n);
    }
    if order.contains(&Doc::Inner) && c.nested {
        check_calls(&mut srv, Doc::Inner, &["util.u"], &mut out, &mut n);
    }
    if order.contains(&Doc::Loose) {
        let uri = uri_of(&doc_path(base, Doc::Loose));
        n += 2;
        match definition(&mut srv, &uri, pos_of(LOOSE, "  f()", 2)) {
            Ok(g) if g.len() == 1 && rel(&g[0]) == "loose/free.gleam" => {}
            other => out.push(("free-standing-no-answer".into(), "Loose|definition".into(), format!("free-standing file: go-to-definition of a local call gives {other:?}"))),
        }
        let p = pos_of(LOOSE, "fn f", 3);
        match srv.request("textDocument/hover", json!({"textDocument": {"uri": uri}, "position": {"line": p.0, "character": p.1}})) {
            Ok(Ok(v)) if !v.is_null() => {}
            other => out.push(("free-standing-no-answer".into(), "Loose|hover".into(), format!("free-standing file: hover on its own function gives {other:?}"))),
        }
        // find-references inside the free-standing file: the declaration and its use
        n += 1;
        match srv.request("textDocument/references", json!({"textDocument": {"uri": uri}, "position": {"line": p.0, "character": p.1}, "context": {"includeDeclaration": true}})) {
            Ok(Ok(v)) if v.as_array().map_or(0, |a| a.len()) >= 2 => {}
            other => out.push(("free-standing-no-answer".into(), "Loose|references".into(), format!("free-standing file: references of its own function (declared and called in the file) gives {other:?}"))),
        }
        // only packages under build/packages are external: a free-standing file is editable
        n += 1;
        match srv.request("textDocument/prepareRename", json!({"textDocument": {"uri": uri}, "position": {"line": p.0, "character": p.1}})) {
            Ok(Ok(v)) if !v.is_null() => {}
            other => out.push(("local-not-editable".into(), "Loose|prepareRename".into(), format!("free-standing file: prepareRename on its own function is refused ({other:?}); only packages under build/packages are external")))
        }
        n += 1;
        match srv.request("textDocument/rename", json!({"textDocument": {"uri": uri}, "position": {"line": p.0, "character": p.1}, "newName": "renamed"})) {
            Ok(Ok(v)) if !v.is_null() => {}
            other => out.push(("local-not-editable".into(), "Loose|rename".into(), format!("free-standing file: rename of its own function is refused ({other:?})")))
        }
    }
    (n, out)
}


// ------------------------------------------------------------------ module naming from paths

/// One module file somewhere under src/ or test/ of the root package or of a registry
/// dependency; directory and file names range over {a/x, src, test}.
#[derive(Clone, Debug)]
pub struct NameCfg {
    in_dep: bool,
    top: &'static str,
    dirs: Vec<&'static str>,
    stem: &'static str,
}

fn name_cfgs() -> Vec<NameCfg> {
    let comps = ["a", "src", "test"];
    let mut dirs: Vec<Vec<&'static str>> = vec![vec![]];
    for a in comps {
        dirs.push(vec![a]);
        for b in comps {
            dirs.push(vec![a, b]);
        }
    }
    let mut out = vec![];
    for in_dep in [false, true] {
        for top in ["src", "test"] {
            // test/ modules of a dependency are not part of its interface
            if in_dep && top == "test" {
                continue;
            }
            for d in &dirs {
                for stem in ["x", "src", "test"] {
                    out.push(NameCfg { in_dep, top, dirs: d.clone(), stem });
                }
            }
        }
    }
    out
}

fn name_main(c: &NameCfg) -> (String, Vec<(String, bool)>) {
    // candidate import names: every non-empty suffix of top/dirs/stem
    let mut path: Vec<&str> = vec![c.top];
    path.extend(c.dirs.iter().copied());
    path.push(c.stem);
    let full = path[1..].join("/");
    let mut cands: Vec<(String, bool)> = vec![];
    for i in 0..path.len() {
        let name = path[i..].join("/");
        let want = name == full;
        if !cands.iter().any(|(n, _)| *n == name) {
            cands.push((name, want));
        }
    }
    let mut text = String::new();
    for (k, (name, _)) in cands.iter().enumerate() {
        text += &format!("import {name} as m{k}\n");
    }
    text += "\npub fn main() {\n";
    for k in 0..cands.len() {
        text += &format!("  m{k}.f()\n");
    }
    text += "}\n";
    (text, cands)
}

pub fn eval_name_cfg(base: &Path, c: &NameCfg) -> (u64, Vec<(String, String, String)>) {
    let app = base.join("app");
    let _ = std::fs::remove_dir_all(base);
    write(&app.join("gleam.toml"), &format!("name = \"app\"\nversion = \"1.0.0\"\n\n[dependencies]\n{}", if c.in_dep { "dep1 = \"~> 1.0\"\n" } else { "" }));
    let (main, cands) = name_main(c);
    write(&app.join("src/main.gleam"), &main);
    let pkg = if c.in_dep { app.join("build/packages/dep1") } else { app.clone() };
    if c.in_dep {
        write(&pkg.join("gleam.toml"), "name = \"dep1\"\nversion = \"1.0.0\"\n");
    }
    let mut rel = PathBuf::from(c.top);
    for d in &c.dirs {
        rel.push(d);
    }
    rel.push(format!("{}.gleam", c.stem));
    let file = pkg.join(&rel);
    write(&file, "pub fn f() {\n  1\n}\n");
    let mut out = vec![];
    let mut n = 0;
    let mut srv = InProc::new();
    let uri = uri_of(&app.join("src/main.gleam"));
    if let Err(m) = srv.open(&uri, &main) {
        out.push(("loader-panic".into(), "naming|open".into(), format!("didOpen panicked: {}", crate::core::panic_class(&m))));
        return (n, out);
    }
    let shape = format!("{}{}/{}{}", if c.in_dep { "dep:" } else { "" }, c.top, c.dirs.iter().map(|d| format!("{d}/")).collect::<String>(), c.stem);
    for (k, (name, want)) in cands.iter().enumerate() {
        n += 1;
        let pos = pos_of(&main, &format!("m{k}.f("), 3 + k.to_string().len() - 1);
        match definition(&mut srv, &uri, pos) {
            Err(e) => out.push(("query-panic".into(), format!("naming|{shape}"), format!("definition panicked: {e}"))),
            Ok(got) => {
                let hit = got.len() == 1 && got[0] == uri_of(&file);
                if *want && !hit {
                    out.push(("visible-but-unresolved".into(), format!("naming|{shape}|import {name}"), format!("module file {} must be importable as `{name}`: go-to-definition through `import {name}` gives {got:?}", rel.display())));
                }
                if !*want && !got.is_empty() {
                    out.push(("resolves-but-not-visible".into(), format!("naming|{shape}|import {name}"), format!("module file {} is not called `{name}`, but `import {name}` resolves to {got:?}", rel.display())));
                }
            }
        }
    }
    (n, out)
}

fn naming_layer(rep: &mut Report, root: &Path) {
    let cfgs = name_cfgs();
    let res: Vec<(u64, Vec<Violation>)> = cfgs
        .par_iter()
        .enumerate()
        .map(|(i, c)| {
            let (n, fails) = eval_name_cfg(&root.join(format!("n{i}")), c);
            (n, fails.into_iter().map(|(class, key, detail)| Violation { class, key, witness: json!({"naming_index": i, "cfg": format!("{c:?}")}), detail: format!("[{c:?}] {detail}") }).collect())
        })
        .collect();
    let mut l = Layer { name: "module-naming".into(), states: cfgs.len() as u64, exhaustive: true, ..Default::default() };
    for (n, v) in res {
        l.executions += 1;
        l.transitions += n;
        for x in v {
            rep.violation(x);
        }
    }
    l.bound = format!("{} trees: one module file at <pkg>/<src|test>/<0-2 directories>/<stem>.gleam with directory names and stems from {{a, x, src, test}} (root package: src and test; registry dependency: src), imported from the root package under EVERY suffix of its path; exactly the name below src/ or test/ must resolve", cfgs.len());
    rep.layer(l);
}

fn orders(c: &Cfg, tier: Tier) -> Vec<Vec<Doc>> {
    let mut docs = vec![Doc::Main, Doc::Dep1Mod, Doc::Loose, Doc::LibMod];
    if c.nested {
        docs.push(Doc::Inner);
    }
    let mut out: Vec<Vec<Doc>> = vec![];
    // all permutations of up to `k` distinct documents
    let k = tier.pick(3usize, 4usize);
    fn rec(cur: &mut Vec<Doc>, docs: &[Doc], k: usize, out: &mut Vec<Vec<Doc>>) {
        if !cur.is_empty() {
            out.push(cur.clone());
        }
        if cur.len() == k {
            return;
        }
        for d in docs {
            if !cur.contains(d) {
                cur.push(*d);
                rec(cur, docs, k, out);
                cur.pop();
            }
        }
    }
    rec(&mut vec![], &docs, k, &mut out);
    out
}

pub fn run(tier: Tier) -> i32 {
    let mut rep = Report::new("C17", tier);
    let root = crate::core::verif_root().join(".scratch/c17");
    let _ = std::fs::remove_dir_all(&root);
    let cfgs = all_cfgs();
    let jobs: Vec<(usize, Cfg, Vec<Doc>)> = cfgs.iter().enumerate().flat_map(|(i, c)| orders(c, tier).into_iter().map(move |o| (i, *c, o))).collect();
    for (i, c) in cfgs.iter().enumerate() {
        build_tree(&root.join(format!("t{i}")), c);
    }
    let res: Vec<(u64, Vec<Violation>)> = jobs
        .par_iter()
        .map(|(i, c, order)| {
            let base = root.join(format!("t{i}"));
            let (n, fails) = eval_config(&base, c, order);
            let v = fails
                .into_iter()
                .map(|(class, key, detail)| (class, if key.starts_with("Dep1Mod") { format!("{key}|app depends on dep1={}", c.dep1) } else { key }, detail))
                .map(|(class, key, detail)| Violation { class, key, witness: json!({"cfg": format!("{c:?}"), "cfg_index": i, "order": order.iter().map(|d| format!("{d:?}")).collect::<Vec<_>>()}), detail: format!("[{c:?}, opened {order:?}] {detail}") })
                .collect();
            (n, v)
        })
        .collect();
    let mut l = Layer { name: "project-trees".into(), states: jobs.len() as u64, exhaustive: true, ..Default::default() };
    let mut classes = BTreeSet::new();
    for (n, v) in res {
        l.executions += 1;
        l.transitions += n;
        for x in v {
            classes.insert(x.class.clone());
            rep.violation(x);
        }
    }
    l.bound = format!("64 project trees (registry dep, path dep, transitive dep, direct dep on the transitive one, nested package root, module in src/ vs test/; plus nested module directories, equal module names in package and dependency, a free-standing file) x all open orders of <= {} distinct documents out of 5; real directories, real loader via didOpen on the real router", tier.pick(3, 4));
    rep.layer(l);
    // manifest reloads: the same trees, documents opened, then app/gleam.toml saved again
    {
        let kinds = [Reload::Same, Reload::DropDep1, Reload::BrokenThenRepaired, Reload::Broken];
        let orders: [&[Doc]; 3] = [&[Doc::Main, Doc::Dep1Mod], &[Doc::Dep1Mod, Doc::Main], &[Doc::Main]];
        let mut rjobs: Vec<(usize, Cfg, Reload, usize)> = vec![];
        for (i, c) in cfgs.iter().enumerate() {
            for r in kinds {
                if r == Reload::DropDep1 && !c.dep1 {
                    continue;
                }
                for oi in 0..orders.len() {
                    rjobs.push((i, *c, r, oi));
                }
            }
        }
        let res: Vec<(u64, Vec<Violation>)> = rjobs
            .par_iter()
            .enumerate()
            .map(|(j, (i, c, r, oi))| {
                let base = root.join(format!("r{j}"));
                build_tree(&base, c);
                let (n, fails) = eval_config_reload(&base, c, orders[*oi], Some(*r));
                let _ = std::fs::remove_dir_all(&base);
                let v = fails
                    .into_iter()
                    .map(|(class, key, detail)| Violation { class, key: format!("manifest-reload {r:?}|{key}"), witness: json!({"cfg": format!("{c:?}"), "cfg_index": i, "order": orders[*oi].iter().map(|d| format!("{d:?}")).collect::<Vec<_>>(), "reload": format!("{r:?}")}), detail: format!("[{c:?}, opened {:?}, then app/gleam.toml saved: {r:?}] {detail}", orders[*oi]) })
                    .collect();
                (n, v)
            })
            .collect();
        let mut l = Layer { name: "manifest-reloads".into(), states: rjobs.len() as u64, exhaustive: true, ..Default::default() };
        let mut seen = BTreeSet::new();
        for (n, v) in res {
            l.executions += 1;
            l.transitions += n;
            for x in v {
                classes.insert(x.class.clone());
                if seen.insert(x.key.clone()) {
                    rep.violation(x);
                }
            }
        }
        l.bound = "the 64 project trees x 3 open orders of {main, a module under build/packages} x app/gleam.toml saved afterwards (watched-file event): with the same content / with dep1 dropped from [dependencies] / broken then repaired / broken: the layout model's expectations for the manifest's final content, and files under build/packages stay external (prepareRename and rename refused) whatever the manifest says".into();
        rep.layer(l);
    }
    naming_layer(&mut rep, &root);
    rep.distinct_nontrivial = jobs.len() as u64 + name_cfgs().len() as u64;
    rep.distinct_outcomes = classes.len() as u64 + 1;
    rep.rule = "a configuration = (project tree, sequence of opened documents); all are distinct; expected targets from the layout model".into();
    rep.sample(json!({"cfg": "dep1+lib, util in test/", "order": ["Dep1Mod", "Main"]}));
    rep.assumptions = vec!["path dependencies have no registry dependencies of their own (where gleam would place them is the external tool's business)".into(), "registry packages are present under build/packages whether or not gleam.toml lists them".into()];
    rep.guard(jobs.len() > 500, "more than 500 configurations");
    rep.finish()
}

pub fn replay(w: &Value) -> Vec<String> {
    if let Some(i) = w["naming_index"].as_u64() {
        let cfgs = name_cfgs();
        let Some(c) = cfgs.get(i as usize) else { return vec!["bad index".into()] };
        let base = crate::core::verif_root().join(".scratch/c17-replay");
        return eval_name_cfg(&base, c).1.into_iter().map(|(c, _, d)| format!("{c}: {d}")).collect();
    }
    let cfgs = all_cfgs();
    let i = w["cfg_index"].as_u64().unwrap_or(0) as usize;
    let Some(c) = cfgs.get(i) else { return vec!["bad index".into()] };
    let base = crate::core::verif_root().join(".scratch/c17-replay");
    let _ = std::fs::remove_dir_all(&base);
    build_tree(&base, c);
    let order: Vec<Doc> = w["order"].as_array().cloned().unwrap_or_default().iter().filter_map(|d| match d.as_str()? {
        "Main" => Some(Doc::Main),
        "Dep1Mod" => Some(Doc::Dep1Mod),
        "Inner" => Some(Doc::Inner),
        "Loose" => Some(Doc::Loose),
        "LibMod" => Some(Doc::LibMod),
        _ => None,
    }).collect();
    eval_config(&base, c, &order).1.into_iter().map(|(c, _, d)| format!("{c}: {d}")).collect()
}
