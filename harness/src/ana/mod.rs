//! E3: workspaces, the query sweeper and the range monitor over the real `ide::Analysis`.
pub mod sweep;
pub mod ws;
