//! Workspaces built exactly as the server builds them: one SourceRoot per package root,
//! a PackageGraph with is_local, file ids assigned by the harness.
use ide::{AnalysisHost, Change, Dependency, FileId, FileSet, PackageGraph, SourceRoot, VfsPath};
use serde_json::{json, Value};
use std::sync::Arc;

#[derive(Clone, Debug, PartialEq, Eq, Hash)]
pub struct WsFile {
    /// path relative to the package root, e.g. "src/a.gleam"
    pub rel: String,
    pub text: String,
}

#[derive(Clone, Debug, PartialEq, Eq, Hash)]
pub struct WsPackage {
    pub name: String,
    pub files: Vec<WsFile>,
    pub deps: Vec<usize>,
    pub is_local: bool,
}

#[derive(Clone, Debug, PartialEq, Eq, Hash, Default)]
pub struct Workspace {
    pub packages: Vec<WsPackage>,
}

#[derive(Clone, Debug)]
pub struct FileInfo {
    pub id: FileId,
    pub package: usize,
    pub rel: String,
    pub path: String,
    pub text: String,
    pub is_module: bool,
}

impl Workspace {
    /// Single package "app" with modules given as (module name, text).
    pub fn single(mods: &[(&str, &str)]) -> Self {
        Workspace {
            packages: vec![WsPackage {
                name: "app".into(),
                files: mods.iter().map(|(m, t)| WsFile { rel: format!("src/{m}.gleam"), text: t.to_string() }).collect(),
                deps: vec![],
                is_local: true,
            }],
        }
    }

    pub fn root_of(&self, p: usize) -> String {
        let pk = &self.packages[p];
        if pk.is_local {
            format!("/ws/{}", pk.name)
        } else {
            format!("/ws/app/build/packages/{}", pk.name)
        }
    }

    /// File table: for each package its modules, then its gleam.toml. Ids are dense and stable
    /// for a given shape.
    pub fn files(&self) -> Vec<FileInfo> {
        let mut out = vec![];
        let mut id = 0u32;
        for (pi, p) in self.packages.iter().enumerate() {
            let root = self.root_of(pi);
            for f in &p.files {
                out.push(FileInfo { id: FileId(id), package: pi, rel: f.rel.clone(), path: format!("{root}/{}", f.rel), text: f.text.clone(), is_module: f.rel.ends_with(".gleam") });
                id += 1;
            }
            out.push(FileInfo { id: FileId(id), package: pi, rel: "gleam.toml".into(), path: format!("{root}/gleam.toml"), text: format!("name = \"{}\"\n", p.name), is_module: false });
            id += 1;
        }
        out
    }

    pub fn full_change(&self) -> Change {
        let files = self.files();
        let mut change = Change::default();
        let mut roots = vec![];
        let mut graph = PackageGraph::default();
        let mut pids = vec![];
        for (pi, p) in self.packages.iter().enumerate() {
            let mut fs = FileSet::default();
            let mut toml = FileId(0);
            for f in files.iter().filter(|f| f.package == pi) {
                fs.insert(f.id, VfsPath::new(&f.path));
                change.change_file(f.id, Arc::from(f.text.as_str()));
                if f.rel == "gleam.toml" {
                    toml = f.id;
                }
            }
            roots.push(SourceRoot::new(fs, self.root_of(pi).into()));
            pids.push(graph.add_package(p.name.as_str().into(), toml, p.is_local));
        }
        for (pi, p) in self.packages.iter().enumerate() {
            for &d in &p.deps {
                graph.add_dep(pids[pi], Dependency { package: pids[d] });
            }
        }
        change.set_roots(roots);
        change.set_package_graph(graph);
        change
    }

    pub fn host(&self) -> AnalysisHost {
        let mut h = AnalysisHost::new();
        h.apply_change(self.full_change());
        h
    }

    pub fn to_json(&self) -> Value {
        json!(self.packages.iter().map(|p| json!({
            "name": p.name, "is_local": p.is_local, "deps": p.deps,
            "files": p.files.iter().map(|f| json!({"rel": f.rel, "text": f.text})).collect::<Vec<_>>()
        })).collect::<Vec<_>>())
    }

    pub fn from_json(v: &Value) -> Option<Workspace> {
        let mut packages = vec![];
        for p in v.as_array()? {
            packages.push(WsPackage {
                name: p["name"].as_str()?.to_string(),
                is_local: p["is_local"].as_bool()?,
                deps: p["deps"].as_array()?.iter().filter_map(|d| d.as_u64()).map(|d| d as usize).collect(),
                files: p["files"].as_array()?.iter().filter_map(|f| Some(WsFile { rel: f["rel"].as_str()?.to_string(), text: f["text"].as_str()?.to_string() })).collect(),
            });
        }
        Some(Workspace { packages })
    }
}
