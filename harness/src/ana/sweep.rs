//! The query sweeper: calls every `Analysis` method inside catch_unwind, normalises the
//! answers (set-like collections sorted) and collects every reported range for the monitor.
use crate::ana::ws::FileInfo;
use crate::core::{catch, panic_class};
use ide::{Analysis, FileId, FilePos, GotoDefinitionResult};
use syntax::{TextRange, TextSize};

#[derive(Clone, Copy, Debug, PartialEq, Eq, Hash, PartialOrd, Ord)]
pub enum Q {
    Hover,
    Goto,
    Refs,
    Highlight,
    Compl,
    ComplDot,
    ComplAt,
    SigHelp,
    PrepRename,
    RenameLower,
    RenameUpper,
    SynHl,
    SynHlRange,
    Diagnostics,
    SyntaxTree,
}

pub const ALL_Q: &[Q] = &[
    Q::Hover, Q::Goto, Q::Refs, Q::Highlight, Q::Compl, Q::ComplDot, Q::ComplAt, Q::SigHelp, Q::PrepRename,
    Q::RenameLower, Q::RenameUpper, Q::SynHl, Q::SynHlRange, Q::Diagnostics, Q::SyntaxTree,
];

/// Queries that take a position (the others are per file).
pub fn positional(q: Q) -> bool {
    !matches!(q, Q::SynHl | Q::Diagnostics | Q::SyntaxTree)
}

#[derive(Clone, Debug, PartialEq, Eq)]
pub struct RangeRec {
    pub what: &'static str,
    pub file: FileId,
    pub range: TextRange,
    /// name-like results must cover whole tokens
    pub name_like: bool,
    /// focus must lie inside this range, if given
    pub inside: Option<TextRange>,
}

#[derive(Clone, Debug, PartialEq, Eq)]
pub enum Outcome {
    Ok(String),
    Cancelled,
    Panic(String),
}

pub struct Ans {
    pub outcome: Outcome,
    pub ranges: Vec<RangeRec>,
}

pub const FRESH_LOWER: &str = "zq9";
pub const FRESH_UPPER: &str = "Zq9";

fn rr(what: &'static str, file: FileId, range: TextRange, name_like: bool) -> RangeRec {
    RangeRec { what, file, range, name_like, inside: None }
}

pub fn run_query(an: &Analysis, q: Q, file: FileId, off: u32) -> Ans {
    let pos = FilePos::new(file, TextSize::from(off));
    let mut ranges = vec![];
    let r = catch(|| -> Result<String, ide::Cancelled> {
        Ok(match q {
            Q::Hover => {
                let h = an.hover(pos)?;
                if let Some(h) = &h {
                    ranges.push(rr("hover", file, h.range, true));
                }
                format!("{h:?}")
            }
            Q::Goto => {
                let g = an.goto_definition(pos)?;
                if let Some(GotoDefinitionResult::Targets(ts)) = &g {
                    for t in ts {
                        ranges.push(RangeRec { what: "goto.focus", file: t.file_id, range: t.focus_range, name_like: true, inside: Some(t.full_range) });
                        ranges.push(rr("goto.full", t.file_id, t.full_range, false));
                    }
                }
                format!("{g:?}")
            }
            Q::Refs => {
                let mut r = an.references(pos)?;
                if let Some(v) = &mut r {
                    v.sort_by_key(|f| (f.file_id, f.range.start(), f.range.end()));
                    for f in v.iter() {
                        ranges.push(rr("references", f.file_id, f.range, true));
                    }
                }
                format!("{r:?}")
            }
            Q::Highlight => {
                let mut r = an.highlight_related(pos)?;
                r.sort_by_key(|h| (h.range.start(), h.range.end(), h.is_definition));
                for h in &r {
                    ranges.push(rr("highlight", file, h.range, true));
                }
                format!("{r:?}")
            }
            Q::Compl | Q::ComplDot | Q::ComplAt => {
                let trig = match q {
                    Q::ComplDot => Some('.'),
                    Q::ComplAt => Some('@'),
                    _ => None,
                };
                let r = an.completions(pos, trig)?;
                let mut items: Vec<String> = vec![];
                if let Some(v) = &r {
                    for it in v {
                        ranges.push(rr("completion.source_range", file, it.source_range, !it.source_range.is_empty()));
                        items.push(format!("{it:?}"));
                    }
                }
                items.sort();
                format!("{}:{items:?}", r.is_some())
            }
            Q::SigHelp => {
                let r = an.signature_help(pos)?;
                match &r {
                    Some(s) => format!("Some({:?} {:?} {:?} {:?})", s.signature, s.active_parameter, s.parameter_ranges(), s.doc),
                    None => "None".into(),
                }
            }
            Q::PrepRename => {
                let r = an.prepare_rename(pos)?;
                if let Ok((range, _)) = &r {
                    ranges.push(rr("prepare_rename", file, *range, true));
                }
                format!("{r:?}")
            }
            Q::RenameLower | Q::RenameUpper => {
                let name = if q == Q::RenameLower { FRESH_LOWER } else { FRESH_UPPER };
                let r = an.rename(pos, name)?;
                match &r {
                    Ok(ws) => {
                        let mut v: Vec<(FileId, TextRange, String)> = vec![];
                        for (f, edits) in &ws.content_edits {
                            for e in edits {
                                ranges.push(rr("rename.edit", *f, e.delete, true));
                                v.push((*f, e.delete, e.insert.to_string()));
                            }
                        }
                        v.sort_by_key(|x| (x.0, x.1.start(), x.1.end()));
                        format!("Ok({v:?})")
                    }
                    Err(e) => format!("Err({e:?})"),
                }
            }
            Q::SynHl => {
                let r = an.syntax_highlight(file, None)?;
                for h in &r {
                    ranges.push(rr("semantic_highlight", file, h.range, true));
                }
                format!("{r:?}")
            }
            Q::SynHlRange => {
                let r = an.syntax_highlight(file, Some(TextRange::new(TextSize::from(off / 2), TextSize::from(off))))?;
                for h in &r {
                    ranges.push(rr("semantic_highlight", file, h.range, true));
                }
                format!("{r:?}")
            }
            Q::Diagnostics => {
                let r = an.diagnostics(file)?;
                for d in &r {
                    ranges.push(rr("diagnostic", file, d.range, false));
                    for (fr, _) in &d.notes {
                        ranges.push(rr("diagnostic.note", fr.file_id, fr.range, false));
                    }
                }
                format!("{r:?}")
            }
            Q::SyntaxTree => an.syntax_tree(file)?,
        })
    });
    let outcome = match r {
        Ok(Ok(s)) => Outcome::Ok(s),
        Ok(Err(_)) => Outcome::Cancelled,
        Err(m) => Outcome::Panic(panic_class(&m)),
    };
    Ans { outcome, ranges }
}

/// Token boundaries of a text (starts of all tokens, plus the end), deduplicated.
pub fn token_boundaries(text: &str) -> Vec<u32> {
    // the lexer is part of the subject: if it panics on this text the queries below will say
    // so; the offsets then fall back to every character boundary
    let mut v: Vec<u32> = crate::core::catch(|| syntax::lexer::GleamLexer::new(text).map(|t| u32::from(t.range.start())).collect::<Vec<u32>>())
        .unwrap_or_else(|_| (0..text.len()).filter(|&i| text.is_char_boundary(i)).map(|i| i as u32).collect());
    v.push(text.len() as u32);
    v.push(0);
    v.sort();
    v.dedup();
    v
}

/// The C20 invariant for one reported range. `toks` are the token (start,end) pairs of the
/// file's tree (lossless, so the lexer's tokens are the tree's tokens).
pub type TokBounds = Vec<(FileId, Vec<usize>, Vec<usize>)>;

/// Token starts and ends of every file (the tree is lossless, so the lexer's tokens are the
/// tree's tokens).
pub fn tok_bounds(files: &[FileInfo]) -> TokBounds {
    files
        .iter()
        .map(|f| {
            let (starts, ends) = crate::core::catch(|| {
                let mut starts = vec![];
                let mut ends = vec![];
                for t in syntax::lexer::GleamLexer::new(&f.text) {
                    starts.push(u32::from(t.range.start()) as usize);
                    ends.push(u32::from(t.range.end()) as usize);
                }
                (starts, ends)
            })
            .unwrap_or_default();
            (f.id, starts, ends)
        })
        .collect()
}

pub fn range_violation(files: &[FileInfo], tok_bounds: &TokBounds, r: &RangeRec) -> Option<String> {
    let Some(f) = files.iter().find(|f| f.id == r.file) else {
        return Some(format!("{}: file {:?} is not a file of the workspace", r.what, r.file));
    };
    let (s, e) = (u32::from(r.range.start()) as usize, u32::from(r.range.end()) as usize);
    if s > e || e > f.text.len() {
        return Some(format!("{}: range {s}..{e} outside {} (len {})", r.what, f.rel, f.text.len()));
    }
    if !f.text.is_char_boundary(s) || !f.text.is_char_boundary(e) {
        return Some(format!("{}: range {s}..{e} not on character boundaries in {}", r.what, f.rel));
    }
    if let Some(full) = r.inside {
        if !full.contains_range(r.range) {
            return Some(format!("{}: focus {:?} not inside full range {:?}", r.what, r.range, full));
        }
    }
    if r.name_like && s != e {
        let tb = tok_bounds.iter().find(|t| t.0 == r.file);
        let (start_ok, end_ok) = match tb {
            Some((_, starts, ends)) => (starts.binary_search(&s).is_ok(), ends.binary_search(&e).is_ok()),
            None => (false, false),
        };
        if !(start_ok && end_ok) {
            return Some(format!("{}: range {s}..{e} ({:?}) does not cover whole tokens in {}", r.what, &f.text[s..e], f.rel));
        }
        // references, highlights, rename edits, prepare-rename, semantic highlights and the
        // completion's typed token are ONE identifier token each (a definition focus may be a
        // whole field or spread pattern)
        if matches!(r.what, "references" | "highlight" | "rename.edit" | "prepare_rename" | "semantic_highlight") {
            let one = match tb {
                Some((_, starts, ends)) => starts.iter().zip(ends.iter()).any(|(a, b)| *a == s && *b == e),
                None => false,
            };
            if !one {
                return Some(format!("{}: range {s}..{e} ({:?}) is not a single token in {}", r.what, &f.text[s..e], f.rel));
            }
        }
    }
    None
}
