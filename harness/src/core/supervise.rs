//! Crash containment for in-process sweeps. The check runs in a child process; every worker
//! thread journals the case it is about to evaluate. If the child dies (stack overflow,
//! abort) or a case exceeds the watchdog budget, the journaled cases are re-run one by one in
//! fresh processes to find the culprit, which becomes a replayable violation.
use serde_json::Value;
use std::path::PathBuf;
use std::sync::atomic::{AtomicU64, Ordering};
use std::sync::Mutex;
use std::time::{Duration, Instant};

fn journal_dir(prop: &str) -> PathBuf {
    crate::core::verif_root().join(".scratch").join("journal").join(prop)
}

thread_local! {
    static SLOT: std::cell::Cell<Option<usize>> = std::cell::Cell::new(None);
}
static NEXT_SLOT: AtomicU64 = AtomicU64::new(0);
static ACTIVE: Mutex<Vec<Option<(Instant, String)>>> = Mutex::new(Vec::new());

fn slot() -> usize {
    SLOT.with(|s| {
        if let Some(i) = s.get() {
            return i;
        }
        let i = NEXT_SLOT.fetch_add(1, Ordering::SeqCst) as usize;
        s.set(Some(i));
        i
    })
}

/// Records the case a worker thread is about to evaluate (cheap: one small file write).
pub fn begin(prop: &str, case: &Value) {
    let i = slot();
    let s = case.to_string();
    let _ = std::fs::write(journal_dir(prop).join(format!("{i}.json")), &s);
    let mut a = ACTIVE.lock().unwrap();
    if a.len() <= i {
        a.resize(i + 1, None);
    }
    a[i] = Some((Instant::now(), s));
}

pub fn end(prop: &str) {
    let i = slot();
    let _ = prop;
    let mut a = ACTIVE.lock().unwrap();
    if i < a.len() {
        a[i] = None;
    }
}

/// Watchdog: if a case runs longer than `budget`, exit with code 86 (the parent then re-runs
/// the journaled cases in isolation with a 10x budget before anything is reported).
pub fn start_watchdog(budget: Duration) {
    std::thread::spawn(move || loop {
        std::thread::sleep(Duration::from_millis(500));
        let a = ACTIVE.lock().unwrap();
        for e in a.iter().flatten() {
            if e.0.elapsed() > budget {
                eprintln!("watchdog: case exceeded {budget:?}: {}", &e.1[..e.1.len().min(300)]);
                std::process::exit(86);
            }
        }
    });
}

pub struct Culprit {
    pub case: Value,
    pub how: String,
}

/// Runs `gmc worker run <prop> <tier>` as a child. Returns the child's exit code when it ended
/// normally (0/1/2), or the culprits found by isolated re-runs when it crashed or hung.
pub fn supervise(prop: &str, tier: &str, one_budget: Duration) -> Result<i32, Vec<Culprit>> {
    let dir = journal_dir(prop);
    let _ = std::fs::remove_dir_all(&dir);
    let _ = std::fs::create_dir_all(&dir);
    let exe = std::env::current_exe().unwrap();
    let st = std::process::Command::new(&exe).args(["worker", "run", prop, tier]).status();
    let st = match st {
        Ok(s) => s,
        Err(e) => {
            eprintln!("MACHINERY: cannot spawn child: {e}");
            return Ok(2);
        }
    };
    if let Some(c) = st.code() {
        if c == 0 || c == 1 || c == 2 {
            let _ = std::fs::remove_dir_all(&dir);
            return Ok(c);
        }
    }
    eprintln!("[{prop}] child ended abnormally ({st}); re-running journaled cases in isolation");
    let mut culprits = vec![];
    let mut entries: Vec<_> = std::fs::read_dir(&dir).map(|d| d.filter_map(|e| e.ok()).map(|e| e.path()).collect()).unwrap_or_default();
    entries.sort();
    for p in entries {
        let Ok(s) = std::fs::read_to_string(&p) else { continue };
        let Ok(case) = serde_json::from_str::<Value>(&s) else { continue };
        let mut cmd = std::process::Command::new(&exe);
        cmd.args(["worker", "one", prop]).arg(&p).stdout(std::process::Stdio::null()).stderr(std::process::Stdio::null());
        let mut child = match cmd.spawn() {
            Ok(c) => c,
            Err(_) => continue,
        };
        let start = Instant::now();
        let how = loop {
            match child.try_wait() {
                Ok(Some(st)) => {
                    use std::os::unix::process::ExitStatusExt;
                    break match (st.code(), st.signal()) {
                        (Some(0), _) => None,
                        (Some(c), _) => Some(format!("exit code {c}")),
                        (None, Some(s)) => Some(format!("killed by signal {s}")),
                        _ => Some("unknown".into()),
                    };
                }
                Ok(None) => {
                    if start.elapsed() > one_budget {
                        let _ = child.kill();
                        let _ = child.wait();
                        break Some(format!("did not finish within {one_budget:?}"));
                    }
                    std::thread::sleep(Duration::from_millis(5));
                }
                Err(e) => break Some(format!("wait error {e}")),
            }
        };
        if let Some(how) = how {
            culprits.push(Culprit { case, how });
        }
    }
    Err(culprits)
}
