//! Shared machinery: tiers, reports, evidence, known-findings filter, replay files.
use serde_json::{json, Value};
use std::collections::{BTreeMap, BTreeSet};
use std::path::PathBuf;
use std::time::Instant;

pub mod alphabet;
pub mod par;
pub mod supervise;

#[derive(Clone, Copy, PartialEq, Eq, Debug)]
pub enum Tier {
    Quick,
    Thorough,
}

impl Tier {
    pub fn name(self) -> &'static str {
        match self {
            Tier::Quick => "quick",
            Tier::Thorough => "thorough",
        }
    }
    pub fn pick<T>(self, q: T, t: T) -> T {
        match self {
            Tier::Quick => q,
            Tier::Thorough => t,
        }
    }
}

pub fn verif_root() -> PathBuf {
    std::env::var_os("GMC_VERIF_ROOT")
        .map(PathBuf::from)
        .unwrap_or_else(|| PathBuf::from("/verif"))
}

pub fn repo_root() -> PathBuf {
    std::env::var_os("GMC_REPO_ROOT")
        .map(PathBuf::from)
        .unwrap_or_else(|| PathBuf::from("/repo"))
}

/// One failing case. `key` identifies the failure site (what the known-findings file lists);
/// `witness` is the complete replayable case.
#[derive(Clone, Debug)]
pub struct Violation {
    pub class: String,
    pub key: String,
    pub witness: Value,
    pub detail: String,
}

#[derive(Default, Clone, Debug)]
pub struct Layer {
    pub name: String,
    pub states: u64,
    pub transitions: u64,
    pub executions: u64,
    pub exhaustive: bool,
    pub bound: String,
    pub extra: BTreeMap<String, Value>,
}

pub struct Report {
    pub prop: &'static str,
    pub tier: Tier,
    pub seed: u64,
    pub start: Instant,
    pub layers: Vec<Layer>,
    pub distinct_nontrivial: u64,
    pub distinct_outcomes: u64,
    pub rule: String,
    pub samples: Vec<Value>,
    pub caps: Vec<Value>,
    pub assumptions: Vec<String>,
    pub violations: Vec<Violation>,
    pub machinery_errors: Vec<String>,
    pub extra: BTreeMap<String, Value>,
}

pub struct Known {
    pub property: String,
    pub status: String,
    pub key: String,
    pub what: String,
}

pub fn load_known() -> Vec<Known> {
    let p = verif_root().join("known_findings.jsonl");
    let Ok(s) = std::fs::read_to_string(p) else {
        return vec![];
    };
    s.lines()
        .filter(|l| !l.trim().is_empty())
        .filter_map(|l| serde_json::from_str::<Value>(l).ok())
        .map(|v| Known {
            property: v["property"].as_str().unwrap_or("").to_string(),
            status: v["status"].as_str().unwrap_or("").to_string(),
            key: v["key"].as_str().unwrap_or("").to_string(),
            what: v["what"].as_str().unwrap_or("").to_string(),
        })
        .collect()
}

pub fn fnv(s: &str) -> u64 {
    let mut h = 0xcbf29ce484222325u64;
    for b in s.bytes() {
        h ^= b as u64;
        h = h.wrapping_mul(0x100000001b3);
    }
    h
}

impl Report {
    pub fn new(prop: &'static str, tier: Tier) -> Self {
        let seed = std::env::var("VERIF_SEED")
            .ok()
            .and_then(|s| s.parse().ok())
            .unwrap_or(0);
        Report {
            prop,
            tier,
            seed,
            start: Instant::now(),
            layers: vec![],
            distinct_nontrivial: 0,
            distinct_outcomes: 0,
            rule: String::new(),
            samples: vec![],
            caps: vec![],
            assumptions: vec![],
            violations: vec![],
            machinery_errors: vec![],
            extra: BTreeMap::new(),
        }
    }

    pub fn layer(&mut self, l: Layer) {
        eprintln!(
            "[{}] layer {}: states={} transitions={} executions={} exhaustive={} bound={} ({:.1}s)",
            self.prop,
            l.name,
            l.states,
            l.transitions,
            l.executions,
            l.exhaustive,
            l.bound,
            self.start.elapsed().as_secs_f64()
        );
        self.layers.push(l);
    }

    pub fn sample(&mut self, v: Value) {
        if self.samples.len() < 12 {
            self.samples.push(v);
        }
    }

    pub fn violation(&mut self, v: Violation) {
        self.violations.push(v);
    }

    pub fn machinery(&mut self, msg: impl Into<String>) {
        self.machinery_errors.push(msg.into());
    }

    /// Guard against vacuous runs: a failed guard is a machinery error (exit 2), never a verdict.
    pub fn guard(&mut self, ok: bool, what: &str) {
        if !ok {
            self.machinery(format!("vacuity guard failed: {what}"));
        }
    }

    /// Writes evidence, prints verdict lines, returns the process exit code.
    pub fn finish(mut self) -> i32 {
        let known = load_known();
        // Deduplicate by key, keep the smallest witness per key.
        let mut by_key: BTreeMap<String, Violation> = BTreeMap::new();
        let total_raw = self.violations.len();
        for v in self.violations.drain(..) {
            let k = format!("{}|{}", v.class, v.key);
            match by_key.get(&k) {
                Some(old) if old.witness.to_string().len() <= v.witness.to_string().len() => {}
                _ => {
                    by_key.insert(k, v);
                }
            }
        }
        let mut unlisted = 0;
        let mut known_hit: BTreeSet<String> = BTreeSet::new();
        let replay_dir = verif_root().join("replays").join(self.prop);
        let _ = std::fs::remove_dir_all(&replay_dir);
        let mut out_lines = vec![];
        for (k, v) in &by_key {
            if let Some(kf) = known
                .iter()
                .find(|kf| kf.property == self.prop && kf.status == "known" && kf.key == *k)
            {
                if known_hit.insert(k.clone()) {
                    out_lines.push(format!(
                        "KNOWN-FINDING: property={} {} [{}]",
                        self.prop, kf.what, k
                    ));
                }
                continue;
            }
            unlisted += 1;
            let _ = std::fs::create_dir_all(&replay_dir);
            let path = replay_dir.join(format!("{:016x}.json", fnv(k)));
            let body = json!({
                "property": self.prop,
                "class": v.class,
                "key": v.key,
                "full_key": k,
                "witness": v.witness,
                "detail": v.detail,
            });
            let _ = std::fs::write(&path, serde_json::to_string_pretty(&body).unwrap());
            out_lines.push(format!(
                "VIOLATION property={} replay={}",
                self.prop,
                path.display()
            ));
            eprintln!("  violation [{}] {}", k, v.detail);
        }
        let states: u64 = self.layers.iter().map(|l| l.states).sum();
        let transitions: u64 = self.layers.iter().map(|l| l.transitions).sum();
        let executions: u64 = self.layers.iter().map(|l| l.executions).sum();
        let exhaustive = !self.layers.is_empty() && self.layers.iter().all(|l| l.exhaustive);
        let wall = self.start.elapsed().as_secs_f64();
        let mut coverage = json!({
            "states": states.max(1),
            "transitions": transitions.max(1),
            "traces_validated_against_impl": executions,
            "evaluations": executions.max(1),
            "distinct_nontrivial": self.distinct_nontrivial,
            "distinct_outcomes": self.distinct_outcomes,
            "rule": self.rule,
            "samples": if self.samples.is_empty() { vec![json!("(no sample recorded)")] } else { self.samples.clone() },
            "exhaustive": exhaustive,
            "caps": self.caps,
            "layers": self.layers.iter().map(|l| json!({
                "name": l.name, "states": l.states, "transitions": l.transitions,
                "executions": l.executions, "exhaustive": l.exhaustive, "bound": l.bound,
                "extra": l.extra,
            })).collect::<Vec<_>>(),
            "known_findings_hit": known_hit.iter().collect::<Vec<_>>(),
            "raw_violation_cases": total_raw,
            "machinery_errors": self.machinery_errors,
        });
        for (k, v) in &self.extra {
            coverage[k] = v.clone();
        }
        let ev = json!({
            "property_id": self.prop,
            "tier": self.tier.name(),
            "seed": self.seed,
            "level": "model_checking",
            "coverage": coverage,
            "assumptions": self.assumptions,
            "wall_s": wall,
            "violations": unlisted,
        });
        let evdir = verif_root().join("evidence");
        let _ = std::fs::create_dir_all(&evdir);
        let evpath = evdir.join(format!("{}.json", self.prop));
        if let Err(e) = std::fs::write(&evpath, serde_json::to_string_pretty(&ev).unwrap()) {
            eprintln!("cannot write evidence: {e}");
            return 2;
        }
        for l in &out_lines {
            println!("{l}");
        }
        if !self.machinery_errors.is_empty() {
            for m in &self.machinery_errors {
                eprintln!("MACHINERY: {m}");
            }
            if unlisted == 0 {
                return 2;
            }
        }
        println!(
            "{} {}: states={} transitions={} executions={} distinct_nontrivial={} outcomes={} known={} violations={} wall={:.1}s",
            self.prop, self.tier.name(), states, transitions, executions,
            self.distinct_nontrivial, self.distinct_outcomes, known_hit.len(), unlisted, wall
        );
        if unlisted > 0 {
            1
        } else {
            0
        }
    }
}

thread_local! {
    static PANIC_LOC: std::cell::RefCell<String> = std::cell::RefCell::new(String::new());
}

/// Installed by main: remembers where the last panic of this thread came from (source file
/// name only, so that keys survive line shifts) and stays quiet.
pub fn install_panic_hook() {
    let verbose = std::env::var_os("GMC_PANIC_VERBOSE").is_some();
    let default = std::panic::take_hook();
    std::panic::set_hook(Box::new(move |info| {
        let loc = info
            .location()
            .map(|l| {
                let f = l.file();
                let short = f.rsplit('/').next().unwrap_or(f);
                if f.contains("/repo/") || f.contains("crates/") { format!("{short}") } else { format!("dep:{short}") }
            })
            .unwrap_or_default();
        PANIC_LOC.with(|p| *p.borrow_mut() = loc);
        if verbose {
            default(info);
        }
    }));
}

/// Runs `f`, converting a panic into Err("<source file>: <message>").
pub fn catch<T>(f: impl FnOnce() -> T) -> Result<T, String> {
    match std::panic::catch_unwind(std::panic::AssertUnwindSafe(f)) {
        Ok(v) => Ok(v),
        Err(p) => {
            let loc = PANIC_LOC.with(|l| std::mem::take(&mut *l.borrow_mut()));
            Err(format!("{loc}: {}", panic_msg(&p)))
        }
    }
}

pub fn panic_msg(p: &Box<dyn std::any::Any + Send>) -> String {
    if let Some(s) = p.downcast_ref::<String>() {
        s.clone()
    } else if let Some(s) = p.downcast_ref::<&str>() {
        s.to_string()
    } else {
        "non-string panic".to_string()
    }
}

/// Short stable digest of a panic message (strips numbers that vary with the input).
pub fn panic_class(msg: &str) -> String {
    let mut out = String::new();
    let mut last_digit = false;
    for c in msg.chars().take(120) {
        if c.is_ascii_digit() {
            if !last_digit {
                out.push('N');
            }
            last_digit = true;
        } else {
            last_digit = false;
            out.push(if c == '\n' { ' ' } else { c });
        }
    }
    out
}

/// Lock-free approximate distinct counter: a bitmap indexed by a hash. Collisions only make
/// the count smaller, so the reported number is a lower bound on the distinct cases.
pub struct DistinctCounter {
    bits: Vec<std::sync::atomic::AtomicU64>,
    mask: u64,
}

impl DistinctCounter {
    pub fn new(log2_bits: u32) -> Self {
        let n = 1u64 << log2_bits;
        let mut bits = Vec::with_capacity((n / 64) as usize);
        bits.resize_with((n / 64) as usize, || std::sync::atomic::AtomicU64::new(0));
        DistinctCounter { bits, mask: n - 1 }
    }
    #[inline]
    pub fn insert(&self, h: u64) {
        let i = h & self.mask;
        self.bits[(i >> 6) as usize].fetch_or(1 << (i & 63), std::sync::atomic::Ordering::Relaxed);
    }
    pub fn count(&self) -> u64 {
        self.bits
            .iter()
            .map(|w| w.load(std::sync::atomic::Ordering::Relaxed).count_ones() as u64)
            .sum()
    }
}

#[inline]
pub fn mix(h: u64, x: u64) -> u64 {
    let mut z = (h ^ x).wrapping_add(0x9E3779B97F4A7C15);
    z = (z ^ (z >> 30)).wrapping_mul(0xBF58476D1CE4E5B9);
    z = (z ^ (z >> 27)).wrapping_mul(0x94D049BB133111EB);
    z ^ (z >> 31)
}
