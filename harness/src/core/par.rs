//! Parallel helpers on top of rayon.
use rayon::prelude::*;

/// Maps `f` over `0..n` in parallel chunks and folds the per-chunk accumulators.
pub fn par_fold<A: Send, F, M>(n: u64, chunk: u64, init: impl Fn() -> A + Sync + Send, f: F, merge: M) -> A
where
    F: Fn(&mut A, u64) + Sync + Send,
    M: Fn(A, A) -> A + Sync + Send,
{
    let chunks = (n + chunk - 1) / chunk.max(1);
    (0..chunks)
        .into_par_iter()
        .map(|c| {
            let mut acc = init();
            let lo = c * chunk;
            let hi = ((c + 1) * chunk).min(n);
            for i in lo..hi {
                f(&mut acc, i);
            }
            acc
        })
        .reduce(&init, &merge)
}
