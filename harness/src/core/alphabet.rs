//! Token alphabet Σ (one representative text per lexer token class) and character alphabet.

pub const PUNCT: &[&str] = &[
    "[", "]", "{", "}", "(", ")", "+", "-", "*", "/", "<", ">", "<=", ">=", "+.", "-.", "*.",
    "/.", "%", "<.", ">.", "<=.", ">=.", "<>", ":", "@", ",", "#", "!", "=", "==", "!=", "|",
    "||", "&&", "<<", ">>", "|>", ".", "->", "<-", "..",
];

pub const KEYWORDS: &[&str] = &[
    "as", "assert", "case", "const", "external", "fn", "if", "import", "let", "opaque", "panic",
    "pub", "todo", "type", "use",
];

pub const WORDS: &[&str] = &[
    "a", "A", "_", "_x", "aB", "A_b", "1", "0x1", "1_0", "1.0", "1.0e3", "\"s\"", "\"\\\"\"", "\"",
];

pub const TRIVIA: &[&str] = &[" ", "\n", "\t", "//c\n", "///d\n", "////m\n", "//c"];

pub const LEXERR: &[&str] = &["$", "é", "€", "😀", "\r"];

/// Full token alphabet Σ.
pub fn sigma() -> Vec<&'static str> {
    let mut v = vec![];
    v.extend_from_slice(PUNCT);
    v.extend_from_slice(KEYWORDS);
    v.extend_from_slice(WORDS);
    v.extend_from_slice(TRIVIA);
    v.extend_from_slice(LEXERR);
    v
}

/// Reduced alphabet Σr: one representative per group of tokens the parser treats alike.
pub fn sigma_reduced() -> Vec<&'static str> {
    vec![
        "[", "]", "{", "}", "(", ")", "+", "-", "<", "<>", ":", "@", ",", "#", "!", "=", "==", "|",
        "||", "<<", ">>", "|>", ".", "->", "<-", "..", "as", "assert", "case", "const", "external",
        "fn", "if", "import", "let", "opaque", "panic", "pub", "type", "use", "a", "A", "_", "1",
        "\"s\"", "\"", " ", "\n", "//c\n", "///d\n", "////m\n", "$",
    ]
}

/// Non-opening damage alphabet Σd (C03): no opening delimiter, no string or comment opener.
pub fn sigma_damage() -> Vec<&'static str> {
    let mut v = vec![];
    for p in PUNCT {
        if !matches!(*p, "(" | "[" | "{" | "<<" | "/") {
            v.push(*p);
        }
    }
    v.extend_from_slice(KEYWORDS);
    v.extend_from_slice(&["a", "A", "_", "_x", "aB", "A_b", "1", "0x1", "1.0", "\"s\""]);
    // closed string literals with escapes (a literal ending in an escaped backslash, an escaped quote)
    v.extend_from_slice(&["\"\\\\\"", "\"a\\\\\"", "\"\\\"\""]);
    v.extend_from_slice(&["$", "é", "😀"]);
    v
}

/// Character alphabet for the lexer layer.
pub const CHARS: &[&str] = &[
    "a", "A", "_", "0", ".", "\"", "\\", "/", "-", "<", ">", "=", "|", "&", "!", "+", "*", "%",
    ":", ",", "#", "@", "(", ")", "{", "}", "[", "]", " ", "\n", "\r", "\t", "e", "x", "é", "€",
    "😀", "$",
    // characters that tools like to treat specially: byte order mark, NUL, form feed, no-break
    // space, line separator, a combining mark
    "\u{feff}", "\0", "\u{c}", "\u{a0}", "\u{2028}", "\u{301}",
];

pub fn is_wordlike(s: &str) -> bool {
    s.chars()
        .next()
        .map(|c| c.is_alphanumeric() || c == '_' || c == '"')
        .unwrap_or(false)
}

/// Decodes index `i` as a base-`k` word of exactly `n` symbols.
pub fn decode(mut i: u64, k: u64, n: usize, out: &mut Vec<usize>) {
    out.clear();
    for _ in 0..n {
        out.push((i % k) as usize);
        i /= k;
    }
}

pub fn pow(k: u64, n: usize) -> u64 {
    k.pow(n as u32)
}
