pub type Shape {
  Circle(radius: Float)
  Square(side: Float)
}

pub fn area(s: Shape) -> Float {
  case s {
    Circle(radius: r) -> r *. r *. 3.14
    Square(side) -> side *. side
  }
}

fn hidden() {
  Nil
}

pub const unit = Circle(1.0)
