import factory
import factory as f

pub fn main() {
  let sq = factory.square()
  let n = sq.name
  let k = f.square().name
  #(n, k, factory.sides_of(sq), f.label(sq))
}
