import shapes.{type Shape, Circle, area as shape_area}
import util/helpers as h
import util/helpers.{twice}

pub type Color {
  Red
  Green(Int)
  Rgb(r: Int, g: Int, b: Int)
}

pub type Box(a) {
  Box(inner: a)
}

type Pairs = List(#(Int, String))

const limit = 10

pub fn main(x: Int, y) -> Int {
  let z = x + y
  let Box(inner: q) = Box(z)
  let #(a, b) = #(1, "s")
  let f = fn(n) { n * 2 }
  let c = Rgb(r: 1, g: 2, b: 3)
  case c, a {
    Rgb(r: r, ..), 1 if r > 1 -> f(r)
    Green(n), _ | Rgb(n, _, _), _ -> n
    Red, _ -> limit
  }
}

fn shapes_demo(s: Shape) -> Float {
  let c = Circle(1.0)
  let t = shapes.Square(side: 2.0)
  shape_area(c) +. shapes.area(t) +. shapes.area(s)
}

fn pipes(l: List(Int)) {
  let r = l |> h.map(fn(e) { e + 1 }) |> h.first
  let g = twice(_, 2)
  use v <- h.try(r)
  let assert [p, ..rest] = l
  let label = c_field(Rgb(1, 2, 3))
  g(v + p)
}

fn c_field(c: Color) {
  case c {
    Rgb(..) as w -> w.r
    _ -> limit
  }
}
