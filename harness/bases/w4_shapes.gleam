pub type Shape {
  Shape(sides: Int, name: String)
  Round(name: String)
}

pub fn new() -> Shape {
  Shape(4, "sq")
}

pub fn round(n: String) -> Shape {
  Round(name: n)
}

pub fn rename(s: Shape, n: String) -> Shape {
  case s {
    Shape(name: _, sides: k) -> Shape(name: n, sides: k)
    Round(name: old) -> Round(..s, name: old <> n)
  }
}

pub const default_sides = 4
