pub type Shape {
  Shape(sides: Int, name: String)
  Round(name: String)
}

pub fn new() -> Shape {
  Shape(4, "sq")
}

pub const default_sides = 4
