//// módulo 😀
import gleam/io

pub type Label {
  Tag(nom: String)
}

pub fn greet(name) {
  let msg = "héllo → " <> name // cómment
  io.println(msg)
  Tag(nom: msg)
}

pub const tag = "日本"
// fin: café