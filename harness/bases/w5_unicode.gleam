//// módulo 😀
import gleam/io

/// une étiquette
pub type Label {
  /// étiquette simple
  Tag(nom: String)
  /// rien
  None
}

/// dit bonjour
pub fn greet(name) {
  let msg = "héllo \\ \n→" <> name // cómment
  io.println(msg)
  case Tag(nom: msg) {
    Tag(nom: n) -> Tag(nom: n)
    None -> None
  }
}

/// marque
pub const tag = "日本"
// fin: café