import json.{type Json, JInt, encode}
import json as j

pub fn run(x: Int) -> String {
  let v = JInt(value: x)
  let w: Json = j.JNull
  encode(v) <> j.encode(w)
}
