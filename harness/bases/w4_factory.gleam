import shapes

pub fn square() -> shapes.Shape {
  shapes.new()
}

pub fn sides_of(s: shapes.Shape) -> Int {
  case s {
    shapes.Shape(sides: n, ..) -> n
    shapes.Round(..) -> 0
  }
}

pub fn label(s: shapes.Shape) {
  s.name
}
