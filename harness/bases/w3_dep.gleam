pub type Json {
  JNull
  JInt(value: Int)
}

pub fn encode(j: Json) -> String {
  case j {
    JNull -> "null"
    JInt(value: _) -> "int"
  }
}

fn private_helper() {
  1
}
