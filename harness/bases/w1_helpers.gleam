pub fn map(l: List(a), f: fn(a) -> b) -> List(b) {
  case l {
    [] -> []
    [x, ..xs] -> [f(x), ..map(xs, f)]
  }
}

pub fn first(l: List(a)) -> Result(a, Nil) {
  case l {
    [x, ..] -> Ok(x)
    [] -> Error(Nil)
  }
}

pub fn try(r: Result(a, e), k: fn(a) -> Result(b, e)) -> Result(b, e) {
  case r {
    Ok(v) -> k(v)
    Error(e) -> Error(e)
  }
}

pub fn twice(x: Int, n: Int) -> Result(Int, Nil) {
  Ok(x * n)
}
