pub type Tree(a) {
  Leaf
  Node(left: Tree(a), value: a, right: Tree(a))
}

pub fn size(t) {
  case t {
    Leaf -> 0
    Node(l, _, r) -> size(l) + 1 + size(r)
  }
}

pub fn even(n) {
  case n {
    0 -> True
    _ -> odd(n - 1)
  }
}

pub fn odd(n) {
  case n {
    0 -> False
    _ -> even(n - 1)
  }
}

pub fn pair(a, b) {
  #(a, b)
}

pub fn swap(p) {
  let #(a, b) = p
  pair(b, a)
}

pub fn insert(t: Tree(Int), v: Int) -> Tree(Int) {
  case t {
    Leaf -> Node(Leaf, v, Leaf)
    Node(l, x, r) if v < x -> Node(insert(l, v), x, r)
    Node(left: l, value: x, right: r) -> Node(..t, right: insert(r, v))
  }
}

pub fn text(s: String) {
  let "a" <> rest = s
  let n = "é😀" <> rest
  n
}
