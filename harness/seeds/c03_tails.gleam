import m.{a, B}
fn t1(x) { let y = x <<>> }
fn t2(x) { x <<1, 2>> }
fn t3(x) { [x, 1] }
fn t4(x) { #(x, 1) }
fn t5(x) { f(x, 1) }
fn t6(x) { { x } }
fn t7(x) { case x { _ -> 1 } }
fn t8(x) { fn(y) { y } }
fn t9(x) { x.f }
fn t10(x) { x |> f }
fn t11(x) { let <<>> = x }
fn t12(x) { let [] = x }
fn t13(x) { let #() = x }
fn t14(x) { let A() = x }
fn t15(x) { use <- x }
fn t16(x: List(Int)) { x }
type U { V(w: List(Int)) }
type W(a) { X(a) }
const c = [1]
fn last() { Nil }
