import gleam/io

fn arith(a, b) {
  let c = a + b * 2 - 3 / 4 % 5
  let d = 1.0 +. 2.0 *. 3.0 -. 4.0 /. 5.0
  let e = a < b && b <= c || c > d && d >= e
  let f = 1.0 <. 2.0 || 2.0 <=. 3.0 || 3.0 >. 4.0 || 4.0 >=. 5.0
  let g = a == b || a != b
  let h = "x" <> "y" <> "z"
  let i = !True && -a < 0
  c
}

fn calls(x) {
  io.println("hi")
  let y = x.field
  let z = x.0
  let w = f(x, label: y, other: z)(1)
  x |> f |> g(1, _) |> h.i
  f(_, 1)
  Rgb(..x, r: 1)
  todo
}

fn collections(x) {
  let a = [1, 2, ..x]
  let b = #(1, "two", 3.0)
  let c = <<1, 2:size(8), x:bits>>
  let d = []
  [a, b]
}

fn control(x, y) {
  let r = case x, y {
    1, _ -> "one"
    n, m if n > m -> "gt"
    2 | 3, _ -> "small"
    _, _ -> {
      let t = 1
      t
    }
  }
  let f = fn(a: Int, b) -> Int { a + b }
  use v <- result.try(x)
  use a, b <- f(1)
  use <- g()
  let assert Ok(q) = v
  panic as "boom"
}
