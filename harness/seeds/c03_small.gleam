import m.{a, B}
fn f(x) { let y = x y }
type T { A(i: Int) B }
const c = 1
fn g(p) { case p { A(i) -> i B -> 0 } }
pub fn h() { [1, 2] |> f }
fn k(t) { let #(u, v) = t f(u, l: v) }
fn n(s) { let <<q>> = s q.w }
fn last() { Nil }
