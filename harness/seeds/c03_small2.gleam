import m/n.{type T, x as y}
pub type P(a) { P(l: a, r: List(a)) Q }
fn u(z) { use a, b <- z(1) a <> b }
fn w(q) { let [h, ..t] = q fn(e: Int) { e + h }(1) }
pub fn r(s) { let "p" <> o as i = s P(..s, l: o) }
fn v(j) { let assert Ok(d) = j d.0 |> m.g(_, 2) }
const c: Int = 1
fn last2() { #(1, 2.0) }
