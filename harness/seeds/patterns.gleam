type T {
  A(x: Int, y: String)
  B
}

fn pats(v) {
  let #(a, b) = v
  let [h, ..t] = v
  let [] = v
  let [x, y] = v
  let A(x: p, y: q) = v
  let A(p, ..) = v
  let m.A(1, "s") = v
  let "pre" <> rest = v
  let [w] as whole = v
  let _ = v
  let _ignored = v
  let -1 = v
  let 1.5 = v
  let <<a, b:8>> = v
  let n: Int = 1
  case v {
    A(1, _) | A(2, _) -> 1
    [#(a, _), ..] -> 2
    B -> 3
    x if x == B -> 4
  }
}

fn types(a: List(Int), b: #(Int, String), c: fn(Int, a) -> b, d: m.T(x), e: _, f: t) -> Result(Int, Nil) {
  Ok(1)
}
