//// module doc
import gleam/list
import gleam/option.{type Option, None, Some as S, map as m}
import a/b/c as d

/// a constant
pub const answer: Int = 42
const names = ["a", "b"]
const pair = #(1, 2.0)

/// a type
pub type Color {
  /// red
  Red
  Green(Int)
  Rgb(r: Int, g: Int, b: Int)
}

pub opaque type Box(a) {
  Box(inner: a)
}

type Pair(a, b) {
  Pair(first: a, second: b)
}

pub type Alias = List(Int)
type Fun(a) = fn(a, Int) -> #(a, Int)
type Q = option.Option(Int)

@external(erlang, "mod", "fun")
pub fn ext(x: Int) -> Int

@target(javascript)
fn js() { 1 }

/// doc for main
pub fn main(x, y: Int, label z: Float, other _w, _) -> Int {
  x + y
}

fn last() { Nil }
