#!/bin/bash
# usage: tools/try_seed.sh <patch.diff> <check id> [tier]...   applies a seeded change to /repo, runs checks, reverts.
set -u
patch="$1"; shift
cd /repo || exit 2
if ! git diff --quiet; then echo "repo not clean"; exit 2; fi
git apply "$patch" || { echo "patch does not apply"; exit 2; }
trap 'git -C /repo checkout -- . ; git -C /repo clean -fdq crates' EXIT
cd /verif
tier="${TIER:-quick}"
for c in "$@"; do
  out=$(./check "$c" "$tier" 2>/dev/null); code=$?
  echo "== $c $tier exit=$code"
  echo "$out" | grep -E "^VIOLATION|^KNOWN|^C[0-9]+ " | cut -c1-200 | head -8
done
