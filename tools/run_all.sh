#!/bin/bash
# usage: tools/run_all.sh <tier> [ids...]  — runs checks sequentially, prints one summary line each
tier="${1:-quick}"; shift
ids="$@"; [ -z "$ids" ] && ids="C01 C02 C03 C04 C05 C06 C07 C08 C09 C10 C11 C12 C13 C14 C15 C16 C17 C18 C19 C20"
cd "$(dirname "$0")/.."
for c in $ids; do
  s=$(date +%s); out=$(./check $c $tier 2>/dev/null); code=$?; e=$(date +%s)
  echo "$c $tier exit=$code wall=$((e-s))s :: $(echo "$out" | grep -E "^$c " | tail -1 | cut -c1-170) :: known=$(echo "$out" | grep -c '^KNOWN') viol=$(echo "$out" | grep -c '^VIOLATION')"
done
