#!/usr/bin/env python3
"""Generates /verif/MANIFEST.json from the table below (single source of truth)."""
import json, subprocess, os

ROOT = os.path.dirname(os.path.dirname(os.path.abspath(__file__)))

CHECKS = {
 "C01": dict(engine="E1 input-space enumerator", technique="bounded exhaustive input enumeration on the real parser (explicit enumeration of all token/character words and all context edits), invariant checked on every parse",
   text="Every text of the stated bounded spaces (all character words, all token words in two joining modes, every parser context x all <=k-symbol edits, every prefix of seeds/corpus, nesting ladder) is parsed by the real parser and the lossless invariant is evaluated on each tree.",
   note="Bounds: see evidence layers. Trusted: rowan's tree API; control flow after lexing depends on token kinds only.", ref="5/C01"),
 "C02": dict(engine="E1 input-space enumerator + worker processes", technique="bounded exhaustive input enumeration on the real parser; deep inputs in child processes classified by exit status",
   text="Same enumeration as C01 with the oracle 'parse_module returns': panics are caught per input, aborts/stack overflows are observed as worker deaths on a depth ladder for every self-nesting construct.",
   note="Depth ladder is powers of two up to the tier bound; per-run time caps are reported as caps, never as verdicts.", ref="5/C02"),

 "C03": dict(engine="E1 input-space enumerator", technique="bounded exhaustive enumeration of <=k token edits inside each victim body on the real parser; invariant on every damaged parse",
   text="For every seed file, every definition with a brace-delimited body and every sequence of <=k edits (insert/delete/replace over the 65-symbol non-opening alphabet, brace-balanced results only) the real parser must keep all other definitions (kind, name, text, order) and place every syntax error inside the damaged region.",
   note="k=1 on all seeds, k=2 on the two compact seed files (thorough). Seeds must be error-free (guarded).", ref="5/C03"),
 "C04": dict(engine="E2 grammar/derivation enumerator", technique="bounded exhaustive enumeration of derivations of a reference grammar (full product at depth 1, every production/slot/sub-derivation chain beyond) x layouts, plus complete operator tables; each program parsed by the real parser and read back through the typed accessors; compared with the generated AST",
   text="Every program of the reference grammar up to the depth bound, printed in up to five layouts (spaces, tight, one token per line, comments between all tokens, doc comments), must parse with zero syntax errors and the tree read through syntax::ast accessors must equal the AST it was printed from; all 23x23 operator pairs, all triples over one representative per precedence level and prefix/postfix operands are compared with reference precedence climbing.",
   note="Depth 1 (full product over leaves, all five layouts) quick; depth 2 (1.8 million programs) thorough. Excluded from the grammar (named in DESIGN.md): chained tuple index x.0.1, 'x as y' on a bare variable, 'as' after a string-prefix pattern, negative literal patterns, bit-array contents. The operator of a BINARY_OP is read as raw token.", ref="5/C04"),
 "C05": dict(engine="E2 scope-aware generator + E3", technique="bounded exhaustive enumeration of scoping skeletons x every assignment of names from a 2-name pool to all binder and use slots x module contexts, on the real goto_definition; reference scope resolver as oracle",
   text="Every program = (module context, statement skeleton, name assignment): 36 contexts (top-level items with the pool names, 6 import forms, 0-2 parameters) x skeletons built from 17 statement shapes (let with tuple/list-spread/constructor-label/as/string-prefix patterns, use with 1-2 binders, case with 1-2 subjects, alternatives, guards, lambdas, blocks, pipes into lambdas, nested bodies, sequences) x ALL functions from slots to {x, y}. For every identifier occurrence go-to-definition must land on the declaration the reference resolver computes (name inside focus inside full range, no other declaration in the focus), or nowhere when nothing is bound.",
   note="Programs Gleam rejects (one name bound twice in one pattern, unqualified import clashing with a top-level name) are skipped. Outside the core (safety half only): labels in function calls, record field access, alias spellings, guards. Private items named through an import may resolve to themselves or to nothing.", ref="5/C05"),
 "C06": dict(engine="E3 query sweeper", technique="bounded exhaustive enumeration of single-edit workspace variants x every identifier occurrence on the real Analysis API; relational invariant between references, goto_definition and highlight_related",
   text="For every base workspace, every single-token edit variant and every pathological shape, at EVERY identifier occurrence the three real answers are compared: references listed = occurrences whose goto leads to the declaration, declaration's own name included, no duplicates, same set from every listed occurrence, highlight = references in the file.",
   note="No hand-written expectations: the oracle is a relation between real answers. Workspaces: 3 bases (6 modules, 2 packages) + 30 pathological shapes; generated scoping programs are added by C05's generator.", ref="5/C06"),
 "C07": dict(engine="E3 query sweeper + second host", technique="bounded exhaustive enumeration of every identifier occurrence of the workspaces x a fresh valid name on the real rename; full re-analysis of the edited workspace in a second host; differential oracle (binding graph isomorphism over every occurrence)",
   text="At every identifier occurrence where rename to a fresh name of the right case class is accepted: edits replace whole identifier tokens spelled with the old name, are disjoint and equal the references; after applying them every identifier occurrence of every module resolves to the correspondingly shifted declaration (go-to-definition compared before/after through the position map), diagnostics are unchanged, and renaming back restores the texts.",
   note="Workspaces: 3 bases (two packages in w3) + the C08 three-package workspace; generated scoping programs join via C05's generator. Fresh names checked to be absent.", ref="5/C07"),
 "C08": dict(engine="finite product enumerator", technique="exhaustive enumeration of the finite product symbol probe x candidate name x package locality on the real rename / prepare_rename; decision-table oracle",
   text="At every identifier of every file of the base and probe workspaces (dependency files included): prepare-rename accepts exactly when rename with a valid name does, 8 malformed names are refused, no accepted rename edits or starts in a dependency file. 44 probes (every symbol kind at definition and use sites; symbols of the root package, of another local package and of a build/packages package; modules, built-ins, aliased spellings) x 43 candidate names (all keywords, valid/malformed identifiers of both cases, literals, operators, empty/space/multi-token, non-ASCII): rename must accept exactly when the table says so, never edit a dependency file, and agree with prepare_rename.",
   note="The mapping build/packages -> is_local=false is C17's; here the package graph is built directly.", ref="5/C08"),
 "C09": dict(engine="E2 type-directed enumerator + reference HM for call graphs", technique="bounded exhaustive enumeration of typing derivations (expressions constructed by typing rules against a finite type universe, one-hole discipline) and of all call digraphs x item orders on the real inference (hover); types known by construction / by a reference Hindley-Milner; compared up to renaming of type variables",
   text="Every expression derivable by the generator's typing rules to the depth bound against 15 target types is the value of a let whose binder's shown type must be the constructed type; a fixed list of pattern / lambda / case / use binders; all digraphs on <=3 unannotated functions (self loops included) x leaf kinds x ALL item orders, with expected principal types from a reference HM with SCC-wise generalisation.",
   note="Further enumerated layers: records of five shapes x every positional prefix x every ordered label selection (patterns, calls, field access; type parameters nested in field types); binders typed by their context x projections x 8 contexts; call graphs with per-function `+ 1`, parameters spelled like functions, and two-parameter functions with swapped / labelled / reordered arguments. Depth 1 / graphs on 2 functions quick; depth 2 / graphs on 3 functions thorough. Failing expressions are re-checked alone (minimisation); keys name the first known-problematic construct an expression contains, else its shape.", ref="5/C09"),
 "C10": dict(engine="E3 query sweeper in a supervised child process", technique="bounded exhaustive enumeration of workspace damage (every single token edit, truncation, item duplication/removal, import rewiring, pathological shapes) x nearby offsets x all 15 query kinds on the real Analysis API; crash containment by journaled isolated re-runs",
   text="Every variant is built as the server builds workspaces and every query kind is called at every token boundary near the damage and at a stride elsewhere; a panic is caught per call, an abort/stack overflow/hang kills the supervised child and the journaled case is confirmed in isolation.",
   note="Offsets away from the edit are strided (stated in evidence). Worker threads have 2 MiB stacks like the server's blocking pool.", ref="5/C10"),
 "C15": dict(engine="sequence explorer + stdio process driver + in-process router", technique="exhaustive enumeration of all message sequences up to length m over a 70-template grammar of valid/invalid parameters, each executed against the real server binary over stdio and against the real router in-process; reference model of allowed document outcomes",
   text="After initialize/initialized/didOpen every sequence of <=m templates (invalid positions in every direction, reversed and mid-surrogate ranges, rejected-then-valid changes, unknown/closed/untitled/non-file URIs, watched-file events for existing and vanished paths, every request kind at valid/beyond/unknown targets) is sent to a fresh server process; oracle: process alive and exits 0 after shutdown/exit, every request id answered exactly once, canary answered, each document's text is an allowed outcome (applied as denoted under LSP leniency, or forgotten).",
   note="URI shapes layer: 16 URI forms (other schemes, hosts, percent-encoding, query / fragment, directories, `..`) x all sequences of <= 2 (quick) / 3 (thorough) of that URI's own six messages, on both seams. m=2 on the binary and in-process (quick), m=3 in-process plus change-heavy m=3 on the binary (thorough). Closed and file-watched documents are unconstrained in the text oracle.", ref="5/C15"),
 "C16": dict(engine="schedule explorer E4 (cross-process, control socket) + sequential reference session", technique="stateless model checking of the real server binary under a controlled scheduler: all interleavings of the client's sends, the main loop's and the blocking tasks' yield points up to a preemption bound (iterative deviation bounding), every schedule on a fresh process; differential oracle against a sequential session of the same binary",
   text="Hook H5/H6 make the main loop (document store updated / released, before / after apply_change) and every blocking task (start, store read, end) stop at yield points; the controller decides who runs, detects blocked threads physically (/proc thread states), and explores every schedule with <= b preemptions. Oracle: with all threads released the canary is answered (no deadlock), every request is answered exactly once with an error or the sequential session's answer for its version, final text = client's, last published diagnostics = those of the final text.",
   note="The client is a participant (C = deliver the next message; a send is a voluntary yield). Each task stops once inside its query (first cancellation checkpoint); an edit delivered to an idle main loop must reach the loop's first yield point (no request holds the store lock across its analysis). Scenarios include edits that change nothing, diagnostics that move with every edit, and two open documents. b=1 on the scenarios of <= 3 messages (quick); b=2 on those and b=1 on the four-message one (thorough). Other salsa checkpoints are not scheduling points (C12 covers them). The Spin closure of the design was cut (see DESIGN 8b).", ref="5/C16"),
 "C17": dict(engine="configuration enumerator + in-process router on real directory trees", technique="exhaustive enumeration of project-tree configurations x open orders through the real loader (didOpen on the real router, real files), against a reference model of Gleam's project layout",
   text="64 trees (registry-style dependency, path dependency, transitive dependency, direct dependency on the transitive one, nested package root, module in src/ vs test/, nested module directories, equal module names, free-standing file) x every open order of up to k documents: for every qualified call go-to-definition must land in a file the layout model allows (or nowhere), prepareRename must refuse build/packages symbols and accept local ones, the free-standing file must answer.",
   note="Module-naming layer: 117 trees with one module file at <src|test>/<0-2 directories>/<stem> over names {a, x, src, test}, imported under every suffix of its path. k=2 quick, k=3 thorough. Path dependencies without registry dependencies of their own. Paths compared after resolving '..'.", ref="5/C17"),
 "C18": dict(engine="E2 scope-aware generator + E3", technique="bounded exhaustive enumeration of C05's programs x every expression position on the real completions; reference resolver's visible-name map as oracle; accept-and-resolve by re-analysis",
   text="At every expression identifier of every generated program the offered value names (keywords and built-in constructors aside) must equal the names the reference resolver finds visible there (locals innermost-first, module functions/constants/constructors, unqualified imports under their local spelling, module accessors); every item replaces exactly the identifier being typed; replacing it by the item and asking go-to-definition lands on the declaration the resolver gives for that name. A fixed layer checks `module.` (exactly the public functions and constructors) and `value.` (only fields of the value's type).",
   note="Quick: single-statement skeletons, contexts with 0-1 parameters; thorough: the skeleton set of C05's quick tier. Dot completions: a fixed list plus a grid - after `module.` every subset of 8 item kinds x 3 import forms x 4 cursor contexts, after `value.` every layout of a 1-2 variant record type (exactly the common fields).", ref="5/C18"),
 "C19": dict(engine="E1 input-space enumerator + in-process router", technique="bounded exhaustive enumeration of documents x highlight lists through the real relative encoder, decoded by a reference LSP client; end-to-end runs of semanticTokens/full through the real router compared with the analysis' own classification of every identifier",
   text="Encoder: every document up to L symbols over {a, space, LF, 2-byte, 4-byte} x every subset of its identifier runs as highlight list x tag assignments: the stream must decode to exactly the reference conversion, strictly increasing, inside lines, no overflow. End to end: every token of the stream is a function / constructor / module identifier with the right type and every such USE is present (declarations and import items may be tagged).",
   note="semanticTokens/range is requested from every line start to every token boundary / line end: tokens of the full stream inside the range must be there, nothing else. The end-to-end layer uses fixed projects (not exhaustive, reported as such); its classification oracle is relational (go-to-definition target kind, hover type).", ref="5/C19"),
 "C20": dict(engine="E3 query sweeper + range monitor", technique="bounded exhaustive enumeration of workspace variants x offsets x all query kinds; invariant monitor on every reported range",
   text="Every range in every answer of the C10 sweep (diagnostics, hover, goto focus/full, references, highlights, rename edits, prepare-rename, completion source ranges, semantic highlights) is checked: file belongs to the workspace, within bounds, on character boundaries, focus inside full, name-like ranges start and end on token boundaries.",
   note="'Covers a whole token' is checked as: starts at a token start and ends at a token end (go-to-definition reports a whole field or spread pattern as focus).", ref="5/C20"),
 "C11": dict(engine="history explorer (stateless, state = history)", technique="bounded exhaustive exploration of all change/query histories up to depth n on the real AnalysisHost, differential oracle against two fresh instances queried in different orders; hash-seed layer via getrandom shim",
   text="All histories of <=n (change, query-menu) steps over 28 changes (12 versions of a, 8 of b, add/remove file with new roots, add/remove dependency edge, root reordering, same-again) x 6 menus are replayed on a new host each; the final full sweep of every query at every token boundary must equal a fresh host's and a second fresh host's queried in reverse order.",
   note="Batched layer: all pairs (quick) / triples (thorough) of changes travelling in ONE Change object. The two packages share a module name. Depth: quick 2, thorough 3 (menus restricted at depth 3; reported as cap). Hidden salsa state is not hashable, so the state is the history. Hash seeds are a finite list, reported as such.", ref="5/C11"),
 "C12": dict(engine="schedule explorer E4 (in-process, salsa checkpoints)", technique="exhaustive schedule exploration at salsa's cancellation checkpoints: the writer is started while the reader is parked at its i-th checkpoint, for every i (one reader) and for strided pairs x both release orders (two readers), on the real AnalysisHost/Analysis",
   text="Cancellation is observed only at salsa query entry; hook H2 turns each WillCheckCancellation into a scheduling point, hook H3 lets the controller see the flag. Every schedule runs on the real code; oracle: answer = pre-change answer or Cancelled, never a panic or a mixture; a parked reader must be cancelled at the checkpoint it is parked at; the writer returns; later snapshots equal a fresh analysis.",
   note="Server-level layer (real binary under the yield-point scheduler): each of 11 request kinds is stopped at the first cancellation checkpoint of its analysis, then a didChange must pass the document store. Scenarios include a change that carries only a package graph. Trusted base: salsa, parking_lot between two checkpoints. Two-reader pairs are strided (cap reported).", ref="5/C12"),
 "C13": dict(engine="stateright BFS + in-process router", technique="explicit-state model checking (stateright BFS) with the real Vfs/convert code as transition function, reference LSP client as model; plus exhaustive two-change notifications through the real Server router",
   text="All client documents up to L symbols are states; every valid (start,end,replacement) edit and full-text change is a transition executed on the real Vfs::change_file_content via convert::from_range and compared with the reference client; the line-map freshness invariant checked in every state justifies deduplicating on client text. The per-change loop of on_did_change is covered by all ordered pairs of edits in one notification.",
   note="Bounds in evidence. Trusted: the reference client model (LSP 3.17 positions); the syntax-tree dump as observation of the server text.", ref="5/C13"),
 "C14": dict(engine="E1 input-space enumerator", technique="bounded exhaustive enumeration of documents x boundaries x ordered pairs on the real LineMap/convert code against a reference UTF-16 client",
   text="Every document up to L symbols over {ASCII, LF, 2/3/4-byte}: every character boundary and every ordered pair is converted by the real code; round trip, strict monotonicity, agreement with the reference client, to_range selection, line lengths.",
   note="Long documents are a capped (periodic) layer, reported as such.", ref="5/C14"),
}

NOT_YET = {
}

def main():
    props = [json.loads(l) for l in open(os.path.join(ROOT, "properties.jsonl"))]
    ids = [p["id"] for p in props]
    hooks = subprocess.run(["git", "-C", "/repo", "log", "--format=%H", "--grep=^verif hooks"], capture_output=True, text=True).stdout.split()
    checks = []
    for pid in ids:
        if pid not in CHECKS:
            continue
        c = CHECKS[pid]
        checks.append({
            "property_id": pid,
            "quick_cmd": f"./check {pid} quick",
            "thorough_cmd": f"./check {pid} thorough",
            "evidence_file": f"/verif/evidence/{pid}.json",
            "replay_cmd_template": "./check --replay {path}",
            "engine": c["engine"],
            "level_claimed": {"category": "model_checking", "text": c["text"], "design_ref": "DESIGN.md section " + c["ref"]},
            "level_note": c["note"],
            "technique": c["technique"],
        })
    na = [{"property_id": pid, "reason": NOT_YET.get(pid, "check not built yet (work in progress in this session); not claimed until its exhaustive check exists")} for pid in ids if pid not in CHECKS]
    m = {
        "version": 1,
        "setup_cmd": "./check --setup",
        "hooks": {
            "guard": "cargo feature `verif` (crates ide and glas)",
            "enable": "path dependencies with features=[\"verif\"] in /verif/harness/Cargo.toml; server binary: cargo build -p glas --features verif",
            "baseline_off_cmd": "cd /repo && cargo test --workspace --no-fail-fast --offline",
            "source_commits": hooks,
            "add_only": True,
        },
        "engines": [
            {"name": "gmc", "path": "/verif/harness", "serves_properties": [c["property_id"] for c in checks],
             "kind_free_text": "Rust harness driving the real crates: exhaustive enumerators (inputs, derivations, histories, schedules), stateright BFS, process driver"},
        ],
        "checks": checks,
        "not_applicable": na,
        "notes": "Exit codes: 0 held (KNOWN-FINDING lines for listed defects), 1 VIOLATION, 2 machinery failure. Known findings: /verif/known_findings.jsonl.",
    }
    json.dump(m, open(os.path.join(ROOT, "MANIFEST.json"), "w"), indent=1)
    print("checks:", [c["property_id"] for c in checks], "not_applicable:", len(na))

main()
