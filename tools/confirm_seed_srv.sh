#!/bin/bash
# usage: SEEDROOT=/tmp/seed2 tools/confirm_seed_srv.sh <id> rust <demo.rs> | py <demo.py>
# Confirms a server-level seeded change: glas integration test with --features verif, or a python3
# script driving the built glas binary; then the workspace test suite with the patch.
set -u
id="$1"; kind="$2"; demo="$3"; wt=${SEEDROOT:-/tmp/seed}/$id
export CARGO_NET_OFFLINE=true CARGO_TARGET_DIR=$wt/target
cd $wt || exit 2
git checkout -q --detach main 2>/dev/null; git checkout -q -- . ; rm -rf crates/glas/tests
run_demo() {
  if [ "$kind" = rust ]; then
    mkdir -p crates/glas/tests && cp _out/demo/$demo crates/glas/tests/
    cargo test -p glas --features verif --offline --test ${demo%.rs} 2>&1 | grep -E "^test result|^error" | head -3
    rm -rf crates/glas/tests
  else
    cargo build -p glas --offline 2>&1 | grep -E "^error" | head -3
    timeout 600 python3 _out/demo/$demo target/debug/glas > $wt/demo.out 2>&1; echo "demo exit=$? :: $(tail -1 $wt/demo.out | cut -c1-150)"
  fi
}
echo "--- without patch"; run_demo
git apply _out/patch.diff || { echo "PATCH DOES NOT APPLY"; exit 2; }
echo "--- with patch: demo"; run_demo
echo "--- with patch: suite"; cargo test --workspace --no-fail-fast --offline 2>&1 | grep -E "^test result: (FAILED|ok. [1-9])"
git checkout -q -- . ; rm -rf $wt/target $wt/demo.out
