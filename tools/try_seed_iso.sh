#!/bin/bash
# usage: tools/try_seed_iso.sh <patch.diff> <check id>...   (env TIER=quick|thorough)
# Like try_seed.sh, but never touches /repo or /verif: works on scratch copies under /tmp/tryseed
# (repo copy with the patch applied + a copy of /verif whose harness points at that copy).
# Remove /tmp/tryseed when the seeding session is over.
set -u
patch="$(readlink -f "$1")"; shift
SC=${TRYROOT:-/tmp/tryseed}
mkdir -p $SC/repo $SC/verif
# files that rsync brings back to their original content get their ORIGINAL (older) mtime; cargo
# compares mtimes, so a crate whose only change is such a revert would not be rebuilt and would keep
# the previous seed's patch: every transferred file is touched
rsync -ai --delete --exclude target --exclude .git /repo/ $SC/repo/ | awk '/^>f/ {print $2}' | while read -r f; do touch "$SC/repo/$f"; done
( cd $SC/repo && git apply "$patch" ) || { echo "patch does not apply"; exit 2; }
rsync -a --delete --exclude .build --exclude .scratch --exclude replays --exclude evidence --exclude .git --exclude seeded /verif/ $SC/verif/
sed -i "s#/repo/crates#$SC/repo/crates#" $SC/verif/harness/Cargo.toml
tier="${TIER:-quick}"
for c in "$@"; do
  out=$(GMC_REPO_ROOT=$SC/repo $SC/verif/check "$c" "$tier" 2>$SC/last-stderr.log); code=$?
  echo "== $c $tier exit=$code"
  echo "$out" | grep -E "^VIOLATION|^KNOWN|^C[0-9]+ " | cut -c1-200 | head -8
  [ $code -ge 2 ] && tail -5 $SC/last-stderr.log
done
