#!/usr/bin/env python3
import json, sys, glob, jsonschema
ms = json.load(open('/root/.vp/MANIFEST.schema.json'))
es = json.load(open('/root/.vp/EVIDENCE.schema.json'))
m = json.load(open('/verif/MANIFEST.json'))
jsonschema.validate(m, ms)
print("manifest ok:", len(m["checks"]), "checks")
for f in sorted(glob.glob('/verif/evidence/*.json')):
    try:
        jsonschema.validate(json.load(open(f)), es); print("ok", f)
    except Exception as e:
        print("INVALID", f, str(e)[:300])
