#!/bin/bash
# usage: tools/confirm_seed.sh <id> <crate> <demo file name>  — confirms a seeded change in its scratch worktree
set -u
id="$1"; crate="$2"; demo="$3"; wt=${SEEDROOT:-/tmp/seed}/$id
export CARGO_NET_OFFLINE=true CARGO_TARGET_DIR=$wt/target
cd $wt || exit 2
git checkout -q --detach main 2>/dev/null; git checkout -q -- . ; rm -rf crates/$crate/tests
mkdir -p crates/$crate/tests && cp _out/demo/$demo crates/$crate/tests/
t=${demo%.rs}
echo "--- without patch"; cargo test -p $crate --offline --test $t 2>&1 | grep -E "^test result|error" | head -3
git apply _out/patch.diff || { echo "PATCH DOES NOT APPLY"; exit 2; }
echo "--- with patch: demo"; cargo test -p $crate --offline --test $t 2>&1 | grep -E "^test result|error" | head -3
rm -rf crates/$crate/tests
echo "--- with patch: suite"; cargo test --workspace --no-fail-fast --offline 2>&1 | grep -E "^test result: (FAILED|ok. [1-9])" 
git checkout -q -- . ; rm -rf $wt/target
