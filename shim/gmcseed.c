/* Makes std's RandomState keys a harness input: getrandom() answers from GMC_HASH_SEED.
 * Loaded with LD_PRELOAD into harness and server processes so that HashMap iteration order
 * is a pure function of the seed (determinism discipline, DESIGN.md 3.5). */
#define _GNU_SOURCE
#include <stdlib.h>
#include <string.h>
#include <sys/types.h>

ssize_t getrandom(void *buf, size_t buflen, unsigned int flags) {
    (void)flags;
    const char *s = getenv("GMC_HASH_SEED");
    unsigned long long x = s ? strtoull(s, 0, 10) : 0ULL;
    unsigned char *p = buf;
    for (size_t i = 0; i < buflen; i++) {
        x = x * 6364136223846793005ULL + 1442695040888963407ULL;
        p[i] = (unsigned char)(x >> 33);
    }
    return (ssize_t)buflen;
}
